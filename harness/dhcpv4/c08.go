//go:build verif

package dhcpv4

// C08 (DHCPv4 part): decoded packets own their memory; encoded output is a fresh buffer.

// VerifC08Packet: symbolic header fields + n symbolic option bytes; after decoding, the source
// buffer is overwritten with an arbitrary (symbolic) pattern: the packet must encode as before.
// Conversely the encoded bytes may be overwritten without affecting later encodings.
func VerifC08Packet(n, hdr int) {
	b := verifValidPrefix()
	switch hdr {
	case 1:
		copy(b[0:44], verifBytes("hdr", 44)) // every scalar field, the addresses, hlen and chaddr
	case 2:
		copy(b[44:48], verifBytes("sname", 4))
		copy(b[108:112], verifBytes("file", 4))
	}
	verifC08Check(append(b, verifBytes("opt", n)...))
}

// VerifC08Shaped: areas of up to four option instances with symbolic codes and values (see
// verifShapedArea): repeated codes are concatenated by append, whose aliasing is modelled exactly.
func VerifC08Shaped(l1, l2, l3, l4, pad int) {
	verifC08Check(append(verifValidPrefix(), verifShapedArea([]int{l1, l2, l3, l4}, pad)...))
}

func verifC08Check(b []byte) {
	p, err := FromBytes(b)
	if err != nil {
		verifReach("rejected")
		verifReach("end")
		return
	}
	// a second decoding of the same bytes (from a buffer of its own) shares no memory with the first
	if q, qerr := FromBytes(append([]byte(nil), b...)); qerr == nil {
		for c1, v1 := range p.Options {
			for c2, v2 := range q.Options {
				_ = c1
				_ = c2
				verifAssert(!verifAliases(v1, v2), "two-decoded-packets-share-no-memory")
			}
		}
		verifAssert(!verifShares(p, q), "two-decoded-packets-share-no-memory")
	}
	verifAssert(!verifShares(p, b), "decoded-packet-shares-no-memory-with-the-source-buffer")
	s0 := append([]byte(nil), p.ToBytes()...)
	verifObserveInt("len", len(s0))
	// every field owns its memory: appending to one of them (which writes into whatever spare
	// capacity the decoder left on it) changes no other field
	for _, k := range []int{1, 4, 16} { // an append longer than the spare capacity reallocates and writes nothing in place
		filler := []byte{0xa5, 0xa5, 0xa5, 0xa5, 0xa5, 0xa5, 0xa5, 0xa5, 0xa5, 0xa5, 0xa5, 0xa5, 0xa5, 0xa5, 0xa5, 0xa5}[:k]
		_ = append(p.ClientIPAddr, filler...)
		_ = append(p.YourIPAddr, filler...)
		_ = append(p.ServerIPAddr, filler...)
		_ = append(p.GatewayIPAddr, filler...)
		_ = append(p.ClientHWAddr, filler...)
		for _, v := range p.Options {
			_ = append(v, filler...)
		}
	}
	verifAssert(verifSame(p.ToBytes(), s0), "appending-to-a-decoded-field-changes-no-other-field")
	verifHavoc("scribble-in", b)
	s1 := p.ToBytes()
	verifAssert(verifSame(s1, s0), "overwriting-the-source-buffer-changes-nothing")
	verifAssert(!verifAliases(s1, b), "encoding-does-not-alias-the-source-buffer")
	for _, v := range p.Options {
		verifAssert(!verifAliases(v, b), "option-values-do-not-alias-the-source-buffer")
	}
	verifAssert(!verifAliases(p.ClientHWAddr, b), "chaddr-does-not-alias-the-source-buffer")
	verifAssert(!verifAliases(p.ClientIPAddr, b), "ciaddr-does-not-alias-the-source-buffer")
	verifAssert(!verifAliases(p.YourIPAddr, b), "yiaddr-does-not-alias-the-source-buffer")
	verifAssert(!verifAliases(p.ServerIPAddr, b), "siaddr-does-not-alias-the-source-buffer")
	verifAssert(!verifAliases(p.GatewayIPAddr, b), "giaddr-does-not-alias-the-source-buffer")
	// output side
	verifHavoc("scribble-out", s1)
	s2 := p.ToBytes()
	verifAssert(verifSame(s2, s0), "overwriting-the-encoded-bytes-changes-nothing")
	verifAssert(!verifAliases(s2, s1), "every-encoding-is-a-fresh-buffer")
	verifReach("end")
}
