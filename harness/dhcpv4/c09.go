//go:build verif

package dhcpv4

// C09 (DHCPv4): decoding cost is bounded.  Sizes are in the executor's allocation model.
//
// Claimed constants (n = length of the datagram):
//   retained(decoded packet)            <= 24*n + 1024 (a 2-byte empty option costs a map entry)
//   allocated by decoding + re-encoding <= 64*n + 4096
const (
	verifC09RetainedPerByte = 24
	verifC09RetainedConst   = 1024
	verifC09AllocPerByte    = 64
	verifC09AllocConst      = 4096
)

func verifC09Check(b []byte) {
	n := len(b)
	a0 := verifAllocBytes()
	p, err := FromBytes(b)
	if err != nil {
		verifAssert(verifAllocBytes()-a0 <= verifC09AllocPerByte*n+verifC09AllocConst, "allocation-bounded-also-when-rejecting")
		verifReach("rejected")
		verifReach("end")
		return
	}
	verifAssert(verifRetained(p) <= verifC09RetainedPerByte*n+verifC09RetainedConst, "decoded-value-is-a-fixed-multiple-of-the-input")
	_ = p.ToBytes()
	verifAssert(verifAllocBytes()-a0 <= verifC09AllocPerByte*n+verifC09AllocConst, "decode-and-reencode-allocation-is-a-fixed-multiple-of-the-input")
	verifObserveInt("options", len(p.Options))
	verifReach("accepted")
	verifReach("end")
}

// VerifC09Exhaustive: every options area of n symbolic bytes behind a valid header.
func VerifC09Exhaustive(n int) {
	verifC09Check(append(verifValidPrefix(), verifBytes("opt", n)...))
}

// VerifC09Repeated: k instances of one option code with l symbolic value bytes each ("maximal
// repeated DHCPv4 options": RFC 3396 concatenation by append).
func VerifC09Repeated(k, l int) {
	b := verifValidPrefix()
	for i := 0; i < k; i++ {
		b = append(b, 43, byte(l))
		b = append(b, verifBytes("val", l)...)
	}
	verifC09Check(append(b, 255))
}

// VerifC09Minimal: k minimal options (zero-length values), cycling through codes 1..254
// ("thousands of minimal options").
func VerifC09Minimal(k int) {
	b := verifValidPrefix()
	for i := 0; i < k; i++ {
		b = append(b, byte(1+i%254), 0)
	}
	verifC09Check(append(b, 255))
}
