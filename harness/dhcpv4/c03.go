//go:build verif

package dhcpv4

// C03 (DHCPv4 part): no input crashes decoding or any read-only use of a decoded packet.
// Every Go panic reachable in a harness is reported by the executor as a violation.

// VerifC03Packet: header bytes 0..43 symbolic (opcode, hlen, flags, addresses, chaddr) when hdr != 0,
// n symbolic option bytes; on acceptance every read-only method (generated list), the printers
// and every builder that takes a packet run on the decoded value.
func VerifC03Packet(n, hdr int) {
	b := verifValidPrefix()
	if hdr != 0 {
		copy(b[0:44], verifBytes("hdr", 44))
	}
	b = append(b, verifBytes("opt", n)...)
	p, err := FromBytes(b)
	if err != nil {
		verifReach("rejected")
		verifReach("end")
		return
	}
	for k := range verifPacketReaderNames {
		verifPacketReader(p, k)
	}
	for k := range verifOptionsReaderNames {
		verifOptionsReader(p.Options, k)
	}
	_ = p.IPAddressLeaseTime(0)
	_ = p.IPAddressRenewalTime(0)
	_ = p.IPAddressRebindingTime(0)
	_ = p.IsOptionRequested(OptionRouter)
	_ = p.GetOneOption(OptionRouter)
	_ = p.SummaryWithVendor(nil)
	_, _ = NewReplyFromRequest(p)
	_, _ = NewRequestFromOffer(p)
	_, _ = NewRenewFromAck(p)
	_, _ = NewReleaseFromACK(p)
	_ = p.ToBytes()
	verifReach("end")
}

// VerifC03OptionList: Options.FromBytes (the sub-option entry point) on n symbolic bytes, then the
// option-list readers.
func VerifC03OptionList(n int) {
	o := Options{}
	err := o.FromBytes(verifBytes("opt", n))
	if err != nil {
		verifReach("rejected")
		verifReach("end")
		return
	}
	for k := range verifOptionsReaderNames {
		verifOptionsReader(o, k)
	}
	verifReach("end")
}

// VerifC03Truncated: a packet of total length n (0..240) with symbolic content never panics.
func VerifC03Truncated(n int) {
	b := verifValidPrefix()[:0]
	b = append(b, make([]byte, n)...)
	m := 44
	if n < m {
		m = n
	}
	copy(b[:m], verifBytes("hdr", m))
	if n > 236 {
		copy(b[236:], verifBytes("cookie", n-236))
	}
	p, err := FromBytes(b)
	if err == nil {
		_ = p.Summary()
		_ = p.ToBytes()
		verifReach("accepted")
	}
	verifReach("end")
}
