//go:build verif

package dhcpv4

// C04: DHCPv4 decoding accepts exactly well-formed packets and reads the RFC values.

func verifValidPrefix() []byte {
	pkt := make([]byte, 240)
	pkt[0] = 1
	pkt[1] = 1
	pkt[2] = 6
	pkt[236], pkt[237], pkt[238], pkt[239] = 99, 130, 83, 99
	return pkt
}

// VerifC04Options: concrete valid header, every options area of n symbolic bytes.
func VerifC04Options(n int) {
	verifC04Area(verifBytes("opt", n))
}

// verifShapedArea builds an options area of up to four option instances with the given value
// lengths (-1: no such instance), symbolic codes 1..254 (so instances may or may not share a code:
// every partition is explored) and symbolic values, optionally one pad byte between instances,
// terminated by End.
func verifShapedArea(lens []int, pad int) []byte {
	var area []byte
	for i, l := range lens {
		if l < 0 {
			continue
		}
		c := verifU8("code")
		verifAssume(c >= 1)
		verifAssume(c <= 254)
		if pad != 0 && i > 0 {
			area = append(area, 0)
		}
		area = append(area, c, byte(l))
		area = append(area, verifBytes("val", l)...)
	}
	return append(area, 255)
}

// VerifC04Shaped: areas longer than the exhaustive sizes: up to four instances of the given
// lengths with symbolic codes and values (repeated codes separated by other options included).
func VerifC04Shaped(l1, l2, l3, l4, pad int) {
	verifC04Area(verifShapedArea([]int{l1, l2, l3, l4}, pad))
}

func verifC04Area(area []byte) {
	pkt := append(verifValidPrefix(), area...)
	p, err := FromBytes(pkt)
	ref, _, refOK := refOptions(area)
	verifAssert((err == nil) == refOK, "accept-iff-wellformed")
	verifObserveInt("accepted", verifB2I(err == nil))
	if err == nil && refOK {
		verifAssert(len(p.Options) == len(ref), "same-number-of-codes")
		for code, val := range p.Options {
			rv, has := ref[code]
			verifAssert(has, "code-known-to-reference")
			if has {
				verifAssert(verifSame(val, rv), "value-is-concatenation-of-instances")
				verifObserve("value", val)
			}
		}
		verifReach("accepted")
	} else {
		verifReach("rejected")
	}
	verifReach("end")
}

// VerifC04Header: 240 header bytes of which one part is symbolic (which = 0: bytes 0..43, i.e. all
// scalar fields, addresses, hlen 0..255 and chaddr; 1: the 64 server-name bytes; 2: the 128 boot-file
// bytes; 3: the magic cookie), followed by an End option.  Acceptance and every decoded field are
// compared with the RFC 2131 reading of the same bytes.
func VerifC04Header(which int) {
	b := verifValidPrefix()
	switch which {
	case 0:
		copy(b[0:44], verifBytes("hdr", 44))
	case 1:
		copy(b[44:108], verifBytes("sname", 64))
	case 2:
		copy(b[108:236], verifBytes("file", 128))
	default:
		copy(b[236:240], verifBytes("cookie", 4))
	}
	b = append(b, 255)
	h, _ := refParseHeader(b)
	p, err := FromBytes(b)
	verifAssert((err == nil) == h.cookieOK, "accept-iff-magic-cookie")
	verifObserveInt("accepted", verifB2I(err == nil))
	if err == nil {
		verifAssert(uint8(p.OpCode) == h.op, "opcode")
		verifAssert(uint16(p.HWType) == uint16(h.htype), "htype")
		verifAssert(p.HopCount == h.hops, "hops")
		verifAssert(verifSame(p.TransactionID[:], h.xid[:]), "xid")
		verifAssert(p.NumSeconds == h.secs, "secs")
		verifAssert(p.Flags == h.flags, "flags")
		verifAssert(verifSame(p.ClientIPAddr, h.ci[:]), "ciaddr")
		verifAssert(verifSame(p.YourIPAddr, h.yi[:]), "yiaddr")
		verifAssert(verifSame(p.ServerIPAddr, h.si[:]), "siaddr")
		verifAssert(verifSame(p.GatewayIPAddr, h.gi[:]), "giaddr")
		verifAssert(verifSame(p.ClientHWAddr, h.chaddr), "chaddr-clipped-to-min-hlen-16")
		verifAssert(verifSame([]byte(p.ServerHostName), h.sname), "sname-cut-at-first-nul")
		verifAssert(verifSame([]byte(p.BootFileName), h.file), "file-cut-at-first-nul")
		verifAssert(len(p.Options) == 0, "no-options")
	}
	verifReach("end")
}

// VerifC04Truncated: every total length n < 240 (header bytes 0..43 symbolic, rest zero, cookie
// bytes present as far as they fit) is rejected; n = 240 exactly (no options area) is accepted.
func VerifC04Truncated(n int) {
	full := verifValidPrefix()
	copy(full[0:44], verifBytes("hdr", 44))
	b := full[:n]
	_, err := FromBytes(b)
	verifAssert((err == nil) == (n >= 240), "accept-iff-header-and-cookie-complete")
	verifReach("end")
}
