//go:build verif

package dhcpv4

// C04: DHCPv4 decoding accepts exactly well-formed packets and reads the RFC values.

func verifValidPrefix() []byte {
	pkt := make([]byte, 240)
	pkt[0] = 1
	pkt[1] = 1
	pkt[2] = 6
	pkt[236], pkt[237], pkt[238], pkt[239] = 99, 130, 83, 99
	return pkt
}

// VerifC04Options: concrete valid header, every options area of n symbolic bytes.
func VerifC04Options(n int) {
	area := verifBytes("opt", n)
	pkt := append(verifValidPrefix(), area...)
	p, err := FromBytes(pkt)
	ref, _, refOK := refOptions(area)
	verifAssert((err == nil) == refOK, "accept-iff-wellformed")
	verifObserveInt("accepted", verifB2I(err == nil))
	if err == nil && refOK {
		verifAssert(len(p.Options) == len(ref), "same-number-of-codes")
		for code, val := range p.Options {
			rv, has := ref[code]
			verifAssert(has, "code-known-to-reference")
			if has {
				verifAssert(verifSame(val, rv), "value-is-concatenation-of-instances")
				verifObserve("value", val)
			}
		}
		verifReach("accepted")
	} else {
		verifReach("rejected")
	}
	verifReach("end")
}
