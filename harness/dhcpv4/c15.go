//go:build verif

package dhcpv4

import (
	"net"

	"github.com/insomniacslk/dhcp/iana"
)

// C15: DHCPv4 builders correlate with the packet they answer.
//
// Every builder harness compares the packet returned by the exported builder with a model
// "the builder's defaults, then the caller's modifiers in order".  The defaults are written here
// from the property statement, RFC 2131 §4.3-4.4 (Tables 3 and 5), RFC 3046, RFC 6842 and the
// builders' doc comments.  The transaction id drawn by New() is an environment value (symbolic):
// nothing is asserted about it unless the builder must copy one or a modifier sets one.

// ---- input packet ----

// verifC15In is an input packet with every header field symbolic.
type verifC15In struct {
	p                       *DHCPv4
	xid, ci, yi, si, gi, hw []byte
	opt                     map[uint8][]byte // the non-empty values among options 82/61/54/55
}

// Forms of the input packet that the sweeps keep fixed and VerifC15Forms varies: length of the
// hardware address, 4-byte or 16-byte (IPv4-mapped) addresses.

func verifMapped(a []byte) net.IP {
	return net.IP{0, 0, 0, 0, 0, 0, 0, 0, 0, 0, 0xff, 0xff, a[0], a[1], a[2], a[3]}
}

// VerifC15Forms: the four packet-derived builders (kind 0..3) on an input whose hardware address
// has hwlen bytes (0..16) and whose addresses are 4-byte (ip16 = 0) or IPv4-mapped 16-byte values.
func VerifC15Forms(kind, hwlen, ip16, mod int) {
	verifC15Run(kind, verifC15InputForm(hwlen, ip16 != 0, 3, 2, 4, 2, -1), nil, nil, mod, -1)
}

// verifC15Input: s82, s61, s54, s55 give the state of that option: -1 absent, 0 present with a
// nil value (the decoder's representation of a zero-length option), n > 0 present with n
// symbolic bytes.  extra >= 0 adds one more option with a symbolic code (1..254, none of the
// four) and extra symbolic bytes.
func verifC15Input(s82, s61, s54, s55, extra int) *verifC15In {
	return verifC15InputForm(6, false, s82, s61, s54, s55, extra)
}

func verifC15InputForm(verifC15HWLen int, verifC15IP16 bool, s82, s61, s54, s55, extra int) *verifC15In {
	in := &verifC15In{opt: map[uint8][]byte{}}
	in.xid = verifBytes("xid", 4)
	in.ci = verifBytes("ciaddr", 4)
	in.yi = verifBytes("yiaddr", 4)
	in.si = verifBytes("siaddr", 4)
	in.gi = verifBytes("giaddr", 4)
	in.hw = verifBytes("chaddr", verifC15HWLen)
	p := &DHCPv4{
		OpCode:         OpcodeType(verifU8("op")),
		HWType:         iana.HWType(verifU16("htype")),
		HopCount:       verifU8("hops"),
		NumSeconds:     verifU16("secs"),
		Flags:          verifU16("flags"),
		ClientIPAddr:   net.IP(in.ci),
		YourIPAddr:     net.IP(in.yi),
		ServerIPAddr:   net.IP(in.si),
		GatewayIPAddr:  net.IP(in.gi),
		ClientHWAddr:   net.HardwareAddr(in.hw),
		ServerHostName: string(verifNonZeroBytes("sname", 2)),
		BootFileName:   string(verifNonZeroBytes("file", 2)),
		Options:        Options{},
	}
	copy(p.TransactionID[:], in.xid)
	if verifC15IP16 {
		// the four addresses in their 16-byte IPv4-mapped form
		p.ClientIPAddr = verifMapped(in.ci)
		p.YourIPAddr = verifMapped(in.yi)
		p.ServerIPAddr = verifMapped(in.si)
		p.GatewayIPAddr = verifMapped(in.gi)
	}
	codes := []uint8{82, 61, 54, 55}
	for i, s := range []int{s82, s61, s54, s55} {
		switch {
		case s == 0:
			p.Options[codes[i]] = nil
		case s > 0:
			v := verifBytes("optval", s)
			p.Options[codes[i]] = v
			in.opt[codes[i]] = v
		}
	}
	if extra >= 0 {
		c := verifU8("extracode")
		verifAssume(c >= 1)
		verifAssume(c <= 254)
		for _, o := range codes {
			verifAssume(c != o)
		}
		p.Options[c] = verifBytes("extraval", extra)
	}
	in.p = p
	return in
}

// ---- model ----

type verifC15Model struct {
	flipOp         bool       // the opcode is the opposite of opSrc
	opSrc, op      OpcodeType // op is used when !flipOp
	htype          iana.HWType
	xid            []byte // nil: chosen by New() at random, nothing to compare
	hw             []byte
	hops           uint8
	secs           uint16
	flags          uint16
	ci, yi, si, gi []byte
	opts           map[uint8][]byte
}

// verifC15Defaults is the packet New() documents ("fill it up with default values"): a
// BOOTREQUEST on Ethernet with everything else zero — RFC 2131 Table 5's common column.
func verifC15Defaults() *verifC15Model {
	z := []byte{0, 0, 0, 0}
	return &verifC15Model{
		op: OpcodeBootRequest, htype: iana.HWTypeEthernet, hw: []byte{0, 0, 0, 0, 0, 0},
		ci: z, yi: z, si: z, gi: z, opts: map[uint8][]byte{},
	}
}

// verifC15ModelOf snapshots a packet built by verifC15Input.
func verifC15ModelOf(in *verifC15In) *verifC15Model {
	w := &verifC15Model{
		op: in.p.OpCode, htype: in.p.HWType, xid: in.xid, hw: in.hw, hops: in.p.HopCount,
		secs: in.p.NumSeconds, flags: in.p.Flags, ci: in.ci, yi: in.yi, si: in.si, gi: in.gi,
		opts: map[uint8][]byte{},
	}
	for c, v := range in.p.Options {
		w.opts[c] = v
	}
	return w
}

var verifC15PRL = []byte{1, 3, 15, 6} // subnet mask, router, domain name, DNS (builders' doc/RFC 2131 §3.5 usage)

const (
	verifC15Reply = iota
	verifC15Request
	verifC15Renew
	verifC15Release
	verifC15Inform
	verifC15Discovery
)

// verifC15Want is the field rules of each builder before user modifiers.
func verifC15Want(kind int, in *verifC15In, hw, ip []byte) *verifC15Model {
	w := verifC15Defaults()
	answer := func() { // WithReply's documented effect: opcode, hwtype, xid, clienthwaddr and flags
		w.flipOp, w.opSrc = true, in.p.OpCode
		w.htype, w.xid, w.hw, w.flags = in.p.HWType, in.xid, in.hw, in.p.Flags
	}
	echo := func(code uint8) { // copied byte for byte iff present with a non-empty value
		if v, ok := in.opt[code]; ok {
			w.opts[code] = v
		}
	}
	switch kind {
	case verifC15Reply:
		// property: opposite opcode; same xid, htype, chaddr, flags, giaddr; 82 (RFC 3046 §2.2) and
		// 61 (RFC 6842) echoed iff present with a non-empty value.
		answer()
		w.gi = in.gi
		echo(82)
		echo(61)
	case verifC15Request:
		// property + RFC 2131 §4.3.2 (SELECTING): xid of the offer, requested address = offered
		// yiaddr, server identifier = the offer's, message type REQUEST.  ciaddr: the builder
		// copies the offer's ciaddr, which is 0 in an RFC-conformant OFFER (Table 3), matching the
		// "'ciaddr' MUST be zero" rule; for a non-conformant offer the implemented value is modelled.
		answer()
		w.ci = in.ci
		w.opts[53] = []byte{byte(MessageTypeRequest)}
		w.opts[50] = in.yi
		echo(54)
		w.opts[55] = verifC15PRL
	case verifC15Renew:
		// RFC 2131 §4.3.2/§4.4.5 (RENEWING): REQUEST, ciaddr = the leased address, unicast, no
		// requested-address and no server-identifier option; parameter request list.
		answer()
		w.flags = in.p.Flags &^ 0x8000
		w.ci = in.yi
		w.opts[53] = []byte{byte(MessageTypeRequest)}
		w.opts[55] = verifC15PRL
	case verifC15Release:
		// doc comment of NewReleaseFromACK + RFC 2131 §4.4.6/Table 5: RELEASE, ciaddr = the leased
		// address, the ACK's chaddr, unicast (flags 0), server identifier of the ACK; new xid.
		w.hw = in.hw
		w.ci = in.yi
		w.opts[53] = []byte{byte(MessageTypeRelease)}
		echo(54)
	case verifC15Inform:
		// RFC 2131 §4.4.3/Table 5: INFORM, ciaddr = the client's address, chaddr.
		w.hw = hw
		w.ci = ip
		w.opts[53] = []byte{byte(MessageTypeInform)}
	case verifC15Discovery:
		// RFC 2131 §4.4.1/Table 5: DISCOVER, chaddr, ciaddr 0; parameter request list.
		w.hw = hw
		w.opts[53] = []byte{byte(MessageTypeDiscover)}
		w.opts[55] = verifC15PRL
	}
	return w
}

// ---- generic modifier ----

// verifC15Mod is a caller-supplied modifier with symbolic values.  spec = fields + 10000*opt:
// fields is a bit set (1 opcode, 2 hwtype, 4 xid, 8 chaddr, 16 flags, 32 hops, 64 secs, 128 ciaddr,
// 256 yiaddr, 512 siaddr, 1024 giaddr); opt is 0 nothing, 1 delete the option with a symbolic
// code, 2+n update the option with a symbolic code (1..254) to n symbolic bytes.
type verifC15Mod struct {
	fields, optop           int
	op                      OpcodeType
	htype                   iana.HWType
	hops                    uint8
	secs, flags             uint16
	xid, hw, ci, yi, si, gi []byte
	code                    uint8
	val                     []byte
}

func verifC15NewMod(spec int) *verifC15Mod {
	if spec < 0 {
		return nil
	}
	m := &verifC15Mod{fields: spec % 10000}
	m.op = OpcodeType(verifU8("mod-op"))
	m.htype = iana.HWType(verifU16("mod-htype"))
	m.hops = verifU8("mod-hops")
	m.secs = verifU16("mod-secs")
	m.flags = verifU16("mod-flags")
	m.xid = verifBytes("mod-xid", 4)
	m.hw = verifBytes("mod-chaddr", 6)
	m.ci = verifBytes("mod-ciaddr", 4)
	m.yi = verifBytes("mod-yiaddr", 4)
	m.si = verifBytes("mod-siaddr", 4)
	m.gi = verifBytes("mod-giaddr", 4)
	switch o := spec / 10000; {
	case o == 1:
		m.optop = 1
		m.code = verifU8("mod-code")
	case o >= 2:
		m.optop = 2
		m.code = verifU8("mod-code")
		verifAssume(m.code >= 1)
		verifAssume(m.code <= 254)
		m.val = verifBytes("mod-val", o-2)
	}
	return m
}

func (m *verifC15Mod) modifier() Modifier {
	return func(d *DHCPv4) {
		if m.fields&1 != 0 {
			d.OpCode = m.op
		}
		if m.fields&2 != 0 {
			d.HWType = m.htype
		}
		if m.fields&4 != 0 {
			copy(d.TransactionID[:], m.xid)
		}
		if m.fields&8 != 0 {
			d.ClientHWAddr = net.HardwareAddr(m.hw)
		}
		if m.fields&16 != 0 {
			d.Flags = m.flags
		}
		if m.fields&32 != 0 {
			d.HopCount = m.hops
		}
		if m.fields&64 != 0 {
			d.NumSeconds = m.secs
		}
		if m.fields&128 != 0 {
			d.ClientIPAddr = net.IP(m.ci)
		}
		if m.fields&256 != 0 {
			d.YourIPAddr = net.IP(m.yi)
		}
		if m.fields&512 != 0 {
			d.ServerIPAddr = net.IP(m.si)
		}
		if m.fields&1024 != 0 {
			d.GatewayIPAddr = net.IP(m.gi)
		}
		switch m.optop {
		case 1:
			d.DeleteOption(GenericOptionCode(m.code))
		case 2:
			d.UpdateOption(OptGeneric(GenericOptionCode(m.code), m.val))
		}
	}
}

// applyTo gives the modifier's effect on the model.
func (m *verifC15Mod) applyTo(w *verifC15Model) {
	if m.fields&1 != 0 {
		w.flipOp, w.op = false, m.op
	}
	if m.fields&2 != 0 {
		w.htype = m.htype
	}
	if m.fields&4 != 0 {
		w.xid = m.xid
	}
	if m.fields&8 != 0 {
		w.hw = m.hw
	}
	if m.fields&16 != 0 {
		w.flags = m.flags
	}
	if m.fields&32 != 0 {
		w.hops = m.hops
	}
	if m.fields&64 != 0 {
		w.secs = m.secs
	}
	if m.fields&128 != 0 {
		w.ci = m.ci
	}
	if m.fields&256 != 0 {
		w.yi = m.yi
	}
	if m.fields&512 != 0 {
		w.si = m.si
	}
	if m.fields&1024 != 0 {
		w.gi = m.gi
	}
	switch m.optop {
	case 1:
		delete(w.opts, m.code)
	case 2:
		w.opts[m.code] = m.val
	}
}

// ---- comparison ----

func verifV4(ip net.IP) []byte { return []byte(ip.To4()) }

func verifC15Check(got *DHCPv4, w *verifC15Model) {
	if w.flipOp {
		verifAssert(verifOr(w.opSrc != OpcodeBootRequest, got.OpCode == OpcodeBootReply), "opcode-opposite-of-a-request-is-reply")
		verifAssert(verifOr(w.opSrc != OpcodeBootReply, got.OpCode == OpcodeBootRequest), "opcode-opposite-of-a-reply-is-request")
		// an input opcode that is neither has no opposite: nothing asserted
	} else {
		verifAssert(got.OpCode == w.op, "opcode")
	}
	verifAssert(got.HWType == w.htype, "htype")
	if w.xid != nil {
		verifAssert(verifSame(got.TransactionID[:], w.xid), "xid")
	}
	verifAssert(verifSame(got.ClientHWAddr, w.hw), "chaddr")
	verifAssert(got.HopCount == w.hops, "hops")
	verifAssert(got.NumSeconds == w.secs, "secs")
	verifAssert(got.Flags == w.flags, "flags")
	verifAssert(verifSame(verifV4(got.ClientIPAddr), w.ci), "ciaddr")
	verifAssert(verifSame(verifV4(got.YourIPAddr), w.yi), "yiaddr")
	verifAssert(verifSame(verifV4(got.ServerIPAddr), w.si), "siaddr")
	verifAssert(verifSame(verifV4(got.GatewayIPAddr), w.gi), "giaddr")
	verifAssert(len(got.Options) == len(w.opts), "exactly-the-expected-options")
	for c, v := range w.opts {
		gv, has := got.Options[c]
		verifAssert(has, "expected-option-present")
		verifAssert(verifSame(gv, v), "expected-option-value-byte-for-byte")
	}
}

// ---- builders ----

func verifC15Call(kind int, in *verifC15In, hw, ip []byte, mods []Modifier) (*DHCPv4, error) {
	switch kind {
	case verifC15Reply:
		return NewReplyFromRequest(in.p, mods...)
	case verifC15Request:
		return NewRequestFromOffer(in.p, mods...)
	case verifC15Renew:
		return NewRenewFromAck(in.p, mods...)
	case verifC15Release:
		return NewReleaseFromACK(in.p, mods...)
	case verifC15Inform:
		return NewInform(net.HardwareAddr(hw), net.IP(ip), mods...)
	default:
		return NewDiscovery(net.HardwareAddr(hw), mods...)
	}
}

func verifC15Run(kind int, in *verifC15In, hw, ip []byte, spec1, spec2 int) {
	w := verifC15Want(kind, in, hw, ip)
	var mods []Modifier
	for _, spec := range []int{spec1, spec2} {
		if m := verifC15NewMod(spec); m != nil {
			mods = append(mods, m.modifier())
			m.applyTo(w)
		}
	}
	got, err := verifC15Call(kind, in, hw, ip, mods)
	verifAssert(err == nil && got != nil, "builder-succeeds")
	if err != nil || got == nil {
		return
	}
	verifC15Check(got, w)
	verifReach("end")
}

// VerifC15ReplyFromRequest and the next three: states of options 82/61/54/55 and the extra option
// as in verifC15Input; mod1, mod2 as in verifC15Mod (-1: no modifier).
func VerifC15ReplyFromRequest(s82, s61, s54, s55, extra, mod1, mod2 int) {
	verifC15Run(verifC15Reply, verifC15Input(s82, s61, s54, s55, extra), nil, nil, mod1, mod2)
}
func VerifC15RequestFromOffer(s82, s61, s54, s55, extra, mod1, mod2 int) {
	verifC15Run(verifC15Request, verifC15Input(s82, s61, s54, s55, extra), nil, nil, mod1, mod2)
}
func VerifC15RenewFromAck(s82, s61, s54, s55, extra, mod1, mod2 int) {
	verifC15Run(verifC15Renew, verifC15Input(s82, s61, s54, s55, extra), nil, nil, mod1, mod2)
}
func VerifC15ReleaseFromACK(s82, s61, s54, s55, extra, mod1, mod2 int) {
	verifC15Run(verifC15Release, verifC15Input(s82, s61, s54, s55, extra), nil, nil, mod1, mod2)
}

// VerifC15Inform / VerifC15Discovery: hardware address of hwlen symbolic bytes.
func VerifC15Inform(hwlen, mod1, mod2 int) {
	verifC15Run(verifC15Inform, nil, verifBytes("hw", hwlen), verifBytes("localip", 4), mod1, mod2)
}
func VerifC15Discovery(hwlen, mod1, mod2 int) {
	verifC15Run(verifC15Discovery, nil, verifBytes("hw", hwlen), nil, mod1, mod2)
}

// VerifC15ReplyChain: a reply built from a reply-typed input built by the library itself
// (request -> reply -> answer to that reply): the opcode flips both times.
func VerifC15ReplyChain(s82, s61 int) {
	in := verifC15Input(s82, s61, -1, -1, -1)
	verifAssume(in.p.OpCode == OpcodeBootRequest)
	r1, err := NewReplyFromRequest(in.p)
	verifAssert(err == nil, "builder-succeeds")
	if err != nil {
		return
	}
	r2, err := NewReplyFromRequest(r1)
	verifAssert(err == nil, "builder-succeeds")
	if err != nil {
		return
	}
	verifAssert(r1.OpCode == OpcodeBootReply, "opcode-opposite-of-a-request-is-reply")
	verifAssert(r2.OpCode == OpcodeBootRequest, "opcode-opposite-of-a-reply-is-request")
	verifAssert(verifSame(r2.TransactionID[:], in.xid), "xid")
	verifAssert(verifSame(r2.ClientHWAddr, in.hw), "chaddr")
	verifAssert(r2.Flags == in.p.Flags, "flags")
	verifAssert(verifSame(verifV4(r2.GatewayIPAddr), in.gi), "giaddr")
	for _, c := range []uint8{82, 61} {
		v, has := r2.Options[c]
		_, want := in.opt[c]
		verifAssert(has == want, "echoed-iff-non-empty")
		if has && want {
			verifAssert(verifSame(v, in.opt[c]), "expected-option-value-byte-for-byte")
		}
	}
	verifReach("end")
}

// ---- each exported With* does what its name says (and nothing else) ----

// refNameWire is RFC 1035 §3.1: length-prefixed labels and a zero octet.
func refNameWire(labels [][]byte) []byte {
	var out []byte
	for _, l := range labels {
		out = append(out, byte(len(l)))
		out = append(out, l...)
	}
	return append(out, 0)
}

// verifDNSLabels: labels described by decimal digit pairs of shape (see verifDNSName).
func verifDNSLabels(shape int) (labels [][]byte, dotted string) {
	var j []byte
	for d := shape; d > 0; d /= 100 {
		lab := verifBytes("lab", d%100)
		for _, c := range lab {
			verifAssume(c != '.')
		}
		if len(labels) > 0 {
			j = append(j, '.')
		}
		j = append(j, lab...)
		labels = append(labels, lab)
	}
	return labels, string(j)
}

// verifC15WithCase returns the exported modifier number `which` with symbolic arguments, and the
// change its name/documentation promises as an update of the model.  got is the packet the
// modifier was applied to (used by the cases that compare encodings as integers/lists: 13, 15,
// 18, 19 — these must be the last modifier applied).  aux is a size/state whose meaning depends
// on which.
func verifC15WithCase(which, aux int) (mod Modifier, upd func(w *verifC15Model, got *DHCPv4)) {
	switch which {
	case 0: // WithTransactionID
		var xid TransactionID
		b := verifBytes("new-xid", 4)
		copy(xid[:], b)
		return WithTransactionID(xid), func(w *verifC15Model, _ *DHCPv4) { w.xid = b }
	case 1: // WithClientIP
		b := verifBytes("new-ip", 4)
		return WithClientIP(net.IP(b)), func(w *verifC15Model, _ *DHCPv4) { w.ci = b }
	case 2: // WithYourIP
		b := verifBytes("new-ip", 4)
		return WithYourIP(net.IP(b)), func(w *verifC15Model, _ *DHCPv4) { w.yi = b }
	case 3: // WithServerIP
		b := verifBytes("new-ip", 4)
		return WithServerIP(net.IP(b)), func(w *verifC15Model, _ *DHCPv4) { w.si = b }
	case 4: // WithGatewayIP
		b := verifBytes("new-ip", 4)
		return WithGatewayIP(net.IP(b)), func(w *verifC15Model, _ *DHCPv4) { w.gi = b }
	case 5: // WithOptionCopied: aux = state of the option in the source (-1 absent, 0 nil, n bytes)
		code := verifU8("copied-code")
		src := &DHCPv4{Options: Options{}}
		var v []byte
		if aux == 0 {
			src.Options[code] = nil
		} else if aux > 0 {
			v = verifBytes("copied-val", aux)
			src.Options[code] = v
		}
		return WithOptionCopied(src, GenericOptionCode(code)), func(w *verifC15Model, _ *DHCPv4) {
			if aux > 0 {
				w.opts[code] = v
			}
		}
	case 6: // WithReply: "fills in opcode, hwtype, xid, clienthwaddr, and flags from the given packet"
		src := verifC15Input(-1, -1, -1, -1, -1)
		return WithReply(src.p), func(w *verifC15Model, _ *DHCPv4) {
			w.flipOp, w.opSrc = true, src.p.OpCode
			w.htype, w.xid, w.hw, w.flags = src.p.HWType, src.xid, src.hw, src.p.Flags
		}
	case 7: // WithHWType
		h := iana.HWType(verifU16("new-htype"))
		return WithHWType(h), func(w *verifC15Model, _ *DHCPv4) { w.htype = h }
	case 8: // WithBroadcast: aux = 1 broadcast, 0 unicast; only the B bit changes (RFC 2131 Figure 2)
		return WithBroadcast(aux != 0), func(w *verifC15Model, _ *DHCPv4) {
			if aux != 0 {
				w.flags |= 0x8000
			} else {
				w.flags &^= 0x8000
			}
		}
	case 9: // WithHwAddr: aux = length
		b := verifBytes("new-hw", aux)
		return WithHwAddr(net.HardwareAddr(b)), func(w *verifC15Model, _ *DHCPv4) { w.hw = b }
	case 10: // WithOption: aux = value length, symbolic code
		code := verifU8("new-code")
		v := verifBytes("new-val", aux)
		return WithOption(OptGeneric(GenericOptionCode(code), v)), func(w *verifC15Model, _ *DHCPv4) { w.opts[code] = v }
	case 11: // WithoutOption
		code := verifU8("del-code")
		return WithoutOption(GenericOptionCode(code)), func(w *verifC15Model, _ *DHCPv4) { delete(w.opts, code) }
	case 12: // WithUserClass: aux = length (>= 1); RFC 3004 form or the bare string (issue #113)
		uc := verifBytes("uc", aux)
		rfc := verifBool("rfc")
		return WithUserClass(string(uc), rfc), func(w *verifC15Model, _ *DHCPv4) {
			if rfc {
				w.opts[77] = append([]byte{byte(aux)}, uc...)
			} else {
				w.opts[77] = uc
			}
		}
	case 13: // WithNetboot: requests the TFTP server name (66) and bootfile name (67) options
		return WithNetboot, func(w *verifC15Model, got *DHCPv4) {
			w.opts[55] = verifC15PRLAdded(got, w.opts[55], []byte{66, 67})
		}
	case 14: // WithMessageType
		m := verifU8("new-type")
		return WithMessageType(MessageType(m)), func(w *verifC15Model, _ *DHCPv4) { w.opts[53] = []byte{m} }
	case 15: // WithRequestedOptions: aux%10 = number of codes; aux/10 = 0 GenericOptionCode values,
		// 1 values of the type of the exported Option* constants
		add := verifBytes("req-code", aux%10)
		var codes []OptionCode
		for _, c := range add {
			if aux/10 == 0 {
				codes = append(codes, GenericOptionCode(c))
			} else {
				codes = append(codes, optionCode(c))
			}
		}
		return WithRequestedOptions(codes...), func(w *verifC15Model, got *DHCPv4) {
			w.opts[55] = verifC15PRLAdded(got, w.opts[55], add)
		}
	case 16: // WithRelay: RFC 1542 §4.1.1 — giaddr, hops+1; unicast as documented
		b := verifBytes("new-ip", 4)
		return WithRelay(net.IP(b)), func(w *verifC15Model, _ *DHCPv4) {
			w.gi = b
			w.hops++
			w.flags &^= 0x8000
		}
	case 17: // WithNetmask
		b := verifBytes("new-mask", 4)
		return WithNetmask(net.IPMask(b)), func(w *verifC15Model, _ *DHCPv4) { w.opts[1] = b }
	case 18: // WithLeaseTime: RFC 2132 §9.2, 32-bit seconds
		s := verifU32("new-secs")
		return WithLeaseTime(s), func(w *verifC15Model, got *DHCPv4) { w.opts[51] = verifC15Seconds(got, 51, s) }
	case 19: // WithIPv6OnlyPreferred: RFC 8925 §3.1, 32-bit seconds
		s := verifU32("new-secs")
		return WithIPv6OnlyPreferred(s), func(w *verifC15Model, got *DHCPv4) { w.opts[108] = verifC15Seconds(got, 108, s) }
	case 20: // WithDomainSearchList: aux = shape of the first name; a second one-label name follows
		l1, n1 := verifDNSLabels(aux)
		l2, n2 := verifDNSLabels(1)
		wire := append(refNameWire(l1), refNameWire(l2)...)
		return WithDomainSearchList(n1, n2), func(w *verifC15Model, _ *DHCPv4) { w.opts[119] = wire }
	case 21: // WithGeneric: aux = value length
		code := verifU8("new-code")
		v := verifBytes("new-val", aux)
		return WithGeneric(GenericOptionCode(code), v), func(w *verifC15Model, _ *DHCPv4) { w.opts[code] = v }
	case 22, 23: // WithRouter / WithDNS: aux = number of addresses
		var ips []net.IP
		var wire []byte
		for i := 0; i < aux; i++ {
			b := verifBytes("new-ip", 4)
			ips = append(ips, net.IP(b))
			wire = append(wire, b...)
		}
		if which == 22 {
			return WithRouter(ips...), func(w *verifC15Model, _ *DHCPv4) { w.opts[3] = wire }
		}
		return WithDNS(ips...), func(w *verifC15Model, _ *DHCPv4) { w.opts[6] = wire }
	}
	return nil, nil
}

// VerifC15With: the pre-state is a packet with every header field symbolic, option 55 in state
// s55 and (extra >= 0) one option with a symbolic code; With<which> is applied; the post-state
// must be the pre-state with exactly the named change (see verifC15WithCase for which/aux).
func VerifC15With(which, s55, extra, aux int) {
	in := verifC15Input(-1, -1, -1, s55, extra)
	w := verifC15ModelOf(in)
	mod, upd := verifC15WithCase(which, aux)
	if mod == nil {
		return
	}
	mod(in.p)
	upd(w, in.p)
	verifC15Check(in.p, w)
	verifReach("end")
}

// VerifC15BuilderWith: builder `kind` (0 reply, 1 request, 2 renew, 3 release, 4 inform,
// 5 discovery) called with up to four exported With* modifiers; each wi is which + 100*aux of
// verifC15WithCase, or -1 for none.  The result must be "defaults, then the modifiers in order",
// so a modifier that collides with a default (WithMessageType, WithBroadcast, WithClientIP,
// WithoutOption/WithGeneric on a code the builder sets, ...) prevails.  The input packet carries
// options 82, 61, 54, 55 with non-empty values and one extra option.
func VerifC15BuilderWith(kind, w1, w2, w3, w4 int) {
	var in *verifC15In
	var hw, ip []byte
	if kind <= verifC15Release {
		in = verifC15Input(3, 2, 4, 2, 1)
	} else {
		hw, ip = verifBytes("hw", 6), verifBytes("localip", 4)
	}
	w := verifC15Want(kind, in, hw, ip)
	var mods []Modifier
	var upds []func(*verifC15Model, *DHCPv4)
	for _, sel := range []int{w1, w2, w3, w4} {
		if sel < 0 {
			continue
		}
		mod, upd := verifC15WithCase(sel%100, sel/100)
		if mod == nil {
			return
		}
		mods = append(mods, mod)
		upds = append(upds, upd)
	}
	got, err := verifC15Call(kind, in, hw, ip, mods)
	verifAssert(err == nil && got != nil, "builder-succeeds")
	if err != nil || got == nil {
		return
	}
	for _, upd := range upds {
		upd(w, got)
	}
	verifC15Check(got, w)
	verifReach("end")
}

// verifC15PRLAdded checks option 55 after "adds requested options" (RFC 2132 §9.8: one code per
// octet) and returns its value for the frame comparison: the old list is kept as a prefix, every
// requested code is in the list, and nothing else was appended.  Whether a code that is already
// listed is appended again is not documented and not asserted.  (Observed: OptionCodeList.Has
// compares OptionCode interface values, so a GenericOptionCode never matches a listed code of the
// exported constants' type and is appended again.)
func verifC15PRLAdded(p *DHCPv4, old, add []byte) []byte {
	g, has := p.Options[55]
	verifAssert(has, "parameter-request-list-present")
	fits := len(g) >= len(old) && len(g) <= len(old)+len(add)
	verifAssert(fits, "old-list-kept-and-only-requested-codes-appended")
	if !fits {
		return g
	}
	verifAssert(verifSame(g[:len(old)], old), "old-list-kept-and-only-requested-codes-appended")
	for _, c := range add {
		found := false
		for _, x := range g {
			found = verifOr(found, x == c)
		}
		verifAssert(found, "requested-code-listed")
	}
	for _, x := range g[len(old):] {
		asked := false
		for _, c := range add {
			asked = verifOr(asked, x == c)
		}
		verifAssert(asked, "old-list-kept-and-only-requested-codes-appended")
	}
	return g
}

// verifC15Seconds checks that option code holds secs as a 32-bit big-endian integer (compared as
// an integer: the library computes it with 64-bit multiply/divide by time.Second) and returns
// the value for the frame comparison.
func verifC15Seconds(p *DHCPv4, code uint8, secs uint32) []byte {
	g, has := p.Options[code]
	verifAssert(has && len(g) == 4, "seconds-option-is-4-octets")
	if has && len(g) == 4 {
		v := uint32(g[0])<<24 | uint32(g[1])<<16 | uint32(g[2])<<8 | uint32(g[3])
		verifAssert(v == secs, "seconds-as-32-bit-big-endian")
	}
	return g
}

// VerifC15Sequence: builders called in sequence on the same objects. kind selects the
// packet-derived builder (0 reply, 1 request-from-offer, 2 renew, 3 release).
//
//   - the caller's modifier list lives in a slice with spare capacity and is reused for two calls
//     (the list must still be the caller's after the first call, and the second result must be
//     what a call with a fresh list gives);
//   - the first call overrides options 54 / 61 / 82 on the packet it builds; the source packet
//     must encode as before, and a second, plain build from it must equal a build from a pristine
//     copy of the source.
func VerifC15Sequence(kind int) {
	in := verifC15Input(3, 2, 4, 2, -1)
	pristine := verifC15Call0(kind, clonePacket(in.p))
	src0 := append([]byte(nil), in.p.ToBytes()...)
	// caller-owned modifier list with spare capacity
	hn := verifBytes("hostname", 3)
	mods := make([]Modifier, 0, 8)
	mods = append(mods, WithGeneric(GenericOptionCode(12), hn))
	over54, over61, over82 := verifBytes("over54", 4), verifBytes("over61", 2), verifBytes("over82", 3)
	first, err := verifC15CallMods(kind, in.p, append(mods, WithGeneric(OptionServerIdentifier, over54), WithGeneric(OptionClientIdentifier, over61), WithGeneric(OptionRelayAgentInformation, over82)))
	verifAssert(err == nil && first != nil, "builder-succeeds")
	if first == nil {
		return
	}
	verifAssert(verifSame(first.Options[54], over54) && verifSame(first.Options[61], over61) && verifSame(first.Options[82], over82), "modifiers-prevail")
	verifAssert(verifSame(in.p.ToBytes(), src0), "source-packet-unchanged-by-building-from-it")
	verifAssert(len(mods) == 1, "caller-modifier-list-unchanged")
	probe := &DHCPv4{Options: Options{}}
	mods[0](probe)
	verifAssert(verifSame(probe.Options[12], hn) && len(probe.Options) == 1, "caller-modifier-list-unchanged")
	// second, plain build from the same source with the same (reused) caller list
	second, err := verifC15CallMods(kind, in.p, mods)
	verifAssert(err == nil && second != nil, "builder-succeeds")
	if second == nil || pristine == nil {
		return
	}
	verifAssert(verifSame(second.Options[12], hn), "modifiers-prevail")
	delete(second.Options, 12)
	// everything but the random transaction id of builders that draw one
	if kind == 1 || kind == 0 {
		verifAssert(verifSame(second.ToBytes(), pristine.ToBytes()), "second-build-equals-a-build-from-the-pristine-source")
	} else {
		second.TransactionID, pristine.TransactionID = TransactionID{}, TransactionID{}
		verifAssert(verifSame(second.ToBytes(), pristine.ToBytes()), "second-build-equals-a-build-from-the-pristine-source")
	}
	verifReach("end")
}

func clonePacket(p *DHCPv4) *DHCPv4 {
	q, err := FromBytes(append([]byte(nil), p.ToBytes()...))
	if err != nil {
		return nil
	}
	return q
}

func verifC15Call0(kind int, p *DHCPv4) *DHCPv4 {
	if p == nil {
		return nil
	}
	r, _ := verifC15CallMods(kind, p, nil)
	return r
}

func verifC15CallMods(kind int, p *DHCPv4, mods []Modifier) (*DHCPv4, error) {
	switch kind {
	case verifC15Reply:
		return NewReplyFromRequest(p, mods...)
	case verifC15Request:
		return NewRequestFromOffer(p, mods...)
	case verifC15Renew:
		return NewRenewFromAck(p, mods...)
	default:
		return NewReleaseFromACK(p, mods...)
	}
}

// VerifC15Decoded: the packet answered is one DECODED FROM THE WIRE (encode, then FromBytes), so
// that options 82/61/54/55 in state 0 are whatever the decoder makes of a zero-length option on
// the wire — the builders must still omit them ("echoed iff present with a non-empty value").
func VerifC15Decoded(kind, s82, s61, s54, s55 int) {
	in := verifC15Input(s82, s61, s54, s55, -1)
	q, err := FromBytes(in.p.ToBytes())
	verifAssert(err == nil && q != nil, "decode-ok")
	if err != nil || q == nil {
		return
	}
	in.p = q
	verifC15Run(kind, in, nil, nil, -1, -1)
}
