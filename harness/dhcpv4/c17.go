//go:build verif

package dhcpv4

import (
	"net"
	"time"

	"github.com/insomniacslk/dhcp/iana"
	"github.com/insomniacslk/dhcp/rfc1035label"
)

// C17: DHCPv4 typed accessors agree with the raw option bytes.
//
// Every VerifC17<Accessor>(n) harness builds a packet whose only option is the accessor's code
// with a raw value of n symbolic bytes and compares the accessor's result with the reference
// interpretation in ref_accessors.go.
//
//	n >= 0  value of n symbolic bytes (n == 0: a non-nil empty slice)
//	n == -1 option absent
//	n == -2 option present with a nil value: the decoder's representation of a zero-length option

func verifC17Packet(code OptionCode, n int) (p *DHCPv4, raw []byte) {
	p = &DHCPv4{Options: Options{}}
	// the packet is not fresh: the option held another value a moment ago and every typed
	// accessor was called on it (an accessor that remembers what it decoded would now be stale);
	// the raw bytes are then replaced through the exported Options map, as the property's
	// observation point does
	p.Options[code.Code()] = []byte{1, 3, 6, 15, 28, 42, 51, 58}
	for k, name := range verifPacketReaderNames {
		if name == "Summary" || name == "String" || name == "ToBytes" {
			continue
		}
		verifPacketReader(p, k)
	}
	delete(p.Options, code.Code())
	switch {
	case n >= 0:
		raw = verifBytes("raw", n)
		p.Options[code.Code()] = raw
	case n == -2:
		p.Options[code.Code()] = nil
	}
	return p, raw
}

// ---- single address (RFC 2132 §5.3, §9.1, §9.7) ----

func verifC17Addr(code OptionCode, n int, get func(*DHCPv4) net.IP) {
	p, raw := verifC17Packet(code, n)
	got := get(p)
	want, ok := refAddr(raw)
	if ok {
		verifAssert(verifSame(got, want), "address-as-rfc-reads-it")
		verifObserve("addr", got)
	} else {
		verifAssert(got == nil, "absent-or-malformed-gives-nil")
	}
	verifObserveInt("len", len(got))
	verifReach("end")
}

func VerifC17BroadcastAddress(n int) {
	verifC17Addr(OptionBroadcastAddress, n, (*DHCPv4).BroadcastAddress)
}
func VerifC17RequestedIPAddress(n int) {
	verifC17Addr(OptionRequestedIPAddress, n, (*DHCPv4).RequestedIPAddress)
}
func VerifC17ServerIdentifier(n int) {
	verifC17Addr(OptionServerIdentifier, n, (*DHCPv4).ServerIdentifier)
}

// ---- address lists (RFC 2132 §3.5, §3.8, §8.3, §8.5) ----

func verifC17AddrList(code OptionCode, n int, get func(*DHCPv4) []net.IP) {
	p, raw := verifC17Packet(code, n)
	got := get(p)
	want, ok := refAddrList(raw)
	if ok {
		verifAssert(len(got) == len(want), "number-of-addresses")
		if len(got) == len(want) {
			for i := range want {
				verifAssert(verifSame(got[i], want[i]), "address-as-rfc-reads-it")
				verifObserve("addr", got[i])
			}
		}
	} else {
		verifAssert(got == nil, "absent-or-malformed-gives-nil")
	}
	verifObserveInt("count", len(got))
	verifReach("end")
}

func VerifC17Router(n int) { verifC17AddrList(OptionRouter, n, (*DHCPv4).Router) }
func VerifC17NTPServers(n int) {
	verifC17AddrList(OptionNTPServers, n, (*DHCPv4).NTPServers)
}
func VerifC17NetBIOSNameServers(n int) {
	verifC17AddrList(OptionNetBIOSOverTCPIPNameServer, n, (*DHCPv4).NetBIOSNameServers)
}
func VerifC17DNS(n int) { verifC17AddrList(OptionDomainNameServer, n, (*DHCPv4).DNS) }

// ---- durations with a caller-supplied default (RFC 2132 §9.2, §9.11, §9.12) ----

func verifC17Duration(code OptionCode, n int, get func(*DHCPv4, time.Duration) time.Duration) {
	p, raw := verifC17Packet(code, n)
	def := time.Duration(verifU64("def"))
	got := get(p, def)
	secs, ok := refU32(raw)
	if ok {
		verifAssert(got == time.Duration(secs)*time.Second, "seconds-as-rfc-reads-them")
	} else {
		verifAssert(got == def, "absent-or-malformed-gives-default")
	}
	verifObserveInt("dur", int(got))
	verifReach("end")
}

func VerifC17IPAddressLeaseTime(n int) {
	verifC17Duration(OptionIPAddressLeaseTime, n, (*DHCPv4).IPAddressLeaseTime)
}
func VerifC17IPAddressRenewalTime(n int) {
	verifC17Duration(OptionRenewTimeValue, n, (*DHCPv4).IPAddressRenewalTime)
}
func VerifC17IPAddressRebindingTime(n int) {
	verifC17Duration(OptionRebindingTimeValue, n, (*DHCPv4).IPAddressRebindingTime)
}

// ---- IPv6-only preferred (RFC 8925 §3.1): 32-bit seconds, reported with a presence flag ----

func VerifC17IPv6OnlyPreferred(n int) {
	p, raw := verifC17Packet(OptionIPv6OnlyPreferred, n)
	got, present := p.IPv6OnlyPreferred()
	secs, ok := refU32(raw)
	verifAssert(present == ok, "present-iff-wellformed")
	if ok {
		verifAssert(got == time.Duration(secs)*time.Second, "seconds-as-rfc-reads-them")
	} else {
		verifAssert(got == 0, "absent-or-malformed-gives-zero")
	}
	verifObserveInt("dur", int(got))
	verifReach("end")
}

// ---- 16-bit and 8-bit values ----

// RFC 2132 §9.10.  (The "minimum legal value is 576" rule is a constraint on senders; the
// accessor documents no range check and none is asserted.)
func VerifC17MaxMessageSize(n int) {
	p, raw := verifC17Packet(OptionMaximumDHCPMessageSize, n)
	got, err := p.MaxMessageSize()
	want, ok := refU16(raw)
	verifAssert((err == nil) == ok, "error-iff-absent-or-malformed")
	if ok {
		verifAssert(got == want, "value-as-rfc-reads-it")
	} else {
		verifAssert(got == 0, "absent-or-malformed-gives-zero")
	}
	verifObserveInt("size", int(got))
	verifReach("end")
}

// RFC 2563 §2: one octet.  Values other than 0 and 1 are not defined by the RFC; the library's
// type is documented as a byte enumeration with an UNKNOWN rendering, so the octet is expected
// as it is.
func VerifC17AutoConfigure(n int) {
	p, raw := verifC17Packet(OptionAutoConfigure, n)
	got, present := p.AutoConfigure()
	want, ok := refU8(raw)
	verifAssert(present == ok, "present-iff-wellformed")
	if ok {
		verifAssert(byte(got) == want, "value-as-rfc-reads-it")
	} else {
		verifAssert(got == 0, "absent-or-malformed-gives-zero")
	}
	verifObserveInt("autoconf", int(got))
	verifReach("end")
}

// RFC 2132 §9.6: one octet.  Absent/malformed: MessageTypeNone (documented in types.go).
func VerifC17MessageType(n int) {
	p, raw := verifC17Packet(OptionDHCPMessageType, n)
	got := p.MessageType()
	want, ok := refU8(raw)
	if ok {
		verifAssert(byte(got) == want, "type-as-rfc-reads-it")
	} else {
		verifAssert(got == MessageTypeNone, "absent-or-malformed-gives-none")
	}
	verifObserveInt("type", int(got))
	verifReach("end")
}

// RFC 2132 §3.3: a 4-octet mask.
func VerifC17SubnetMask(n int) {
	p, raw := verifC17Packet(OptionSubnetMask, n)
	got := p.SubnetMask()
	want, ok := refAddr(raw)
	if ok {
		verifAssert(verifSame(got, want), "mask-as-rfc-reads-it")
		verifObserve("mask", got)
	} else {
		verifAssert(got == nil, "absent-or-malformed-gives-nil")
	}
	verifObserveInt("len", len(got))
	verifReach("end")
}

// ---- client system architecture (RFC 4578 §2.1) ----

func VerifC17ClientArch(n int) {
	p, raw := verifC17Packet(OptionClientSystemArchitectureType, n)
	got := p.ClientArch()
	want, ok := refU16List(raw)
	if ok {
		verifAssert(len(got) == len(want), "number-of-types")
		if len(got) == len(want) {
			for i := range want {
				verifAssert(uint16(got[i]) == want[i], "type-as-rfc-reads-it")
				verifObserveInt("arch", int(got[i]))
			}
		}
	} else {
		verifAssert(got == nil, "absent-or-malformed-gives-nil")
	}
	verifObserveInt("count", len(got))
	verifReach("end")
}

// ---- parameter request list (RFC 2132 §9.8): n >= 1 option codes ----

// A zero-length value is below the RFC's minimum length; the accessor's result for it is an
// empty list (nil for the decoder's representation): asserted as "no codes".
func VerifC17ParameterRequestList(n int) {
	p, raw := verifC17Packet(OptionParameterRequestList, n)
	got := p.ParameterRequestList()
	if n >= 1 {
		verifAssert(len(got) == n, "number-of-codes")
		if len(got) == n {
			var d byte
			for i := range raw {
				d |= got[i].Code() ^ raw[i]
			}
			verifAssert(d == 0, "codes-as-rfc-reads-them")
		}
	} else {
		verifAssert(len(got) == 0, "absent-or-empty-gives-no-codes")
		if n < 0 {
			verifAssert(got == nil, "absent-gives-nil")
		}
	}
	verifObserveInt("count", len(got))
	verifReach("end")
}

// ---- strings ----

const (
	verifStrOpaque    = iota // octets are returned as they are (RFC 2132 §9.13: "a string of n octets")
	verifStrTrimmed          // the accessor deletes trailing NULs, as RFC 2132 §2 requires of receivers
	verifStrNVT              // RFC 2132 declares the option NVT ASCII: §2 applies (see below)
	verifStrUndecided        // neither RFC nor documentation says whether trailing NULs are deleted
)

// verifC17String: the value of a string option is its octets (RFC 2132: minimum length 1; a
// zero-length value and the absent option both read as "", the documented absent result).
//
// Trailing NULs.  RFC 2132 §2: "Options containing NVT ASCII data SHOULD NOT include a trailing
// NULL; however, the receiver of such options MUST be prepared to delete trailing nulls if they
// exist."
//   - HostName, BootFileNameOption, TFTPServerName delete them (verifStrTrimmed): asserted.
//   - RootPath (§3.19) and Message (§9.9) are explicitly NVT ASCII (verifStrNVT): the value
//     modulo trailing NULs is asserted under "value-modulo-trailing-nuls", and the deletion
//     itself under the separate label "nvt-ascii-trailing-nuls-deleted".
//   - DomainName (§3.17) has no declared character set and the accessor documents nothing
//     (verifStrUndecided): only the value modulo trailing NULs is asserted.
//   - ClassIdentifier (§9.13) is opaque octets: exact equality.
func verifC17String(code OptionCode, n int, mode int, get func(*DHCPv4) string) {
	p, raw := verifC17Packet(code, n)
	got := get(p)
	verifObserve("str", []byte(got))
	if n <= 0 {
		verifAssert(len(got) == 0, "absent-or-empty-gives-empty-string")
		verifReach("end")
		return
	}
	switch mode {
	case verifStrOpaque:
		verifAssert(verifSameStr(got, string(raw)), "octets-as-they-are")
	case verifStrTrimmed:
		verifAssert(verifSameStr(got, string(refStripNul(raw))), "value-with-trailing-nuls-deleted")
	default:
		w := refStripNul(raw) // forks once per trailing NUL; lengths stay concrete
		g := []byte(got)
		inRange := len(g) >= len(w) && len(g) <= len(raw)
		verifAssert(inRange, "value-modulo-trailing-nuls")
		if inRange {
			var d byte
			for i := range w {
				d |= g[i] ^ w[i]
			}
			for i := len(w); i < len(g); i++ {
				d |= g[i]
			}
			verifAssert(d == 0, "value-modulo-trailing-nuls")
		}
		if mode == verifStrNVT {
			verifAssert(len(g) == len(w), "nvt-ascii-trailing-nuls-deleted")
		}
	}
	verifReach("end")
}

func VerifC17DomainName(n int) {
	verifC17String(OptionDomainName, n, verifStrUndecided, (*DHCPv4).DomainName)
}
func VerifC17HostName(n int) {
	verifC17String(OptionHostName, n, verifStrTrimmed, (*DHCPv4).HostName)
}
func VerifC17RootPath(n int) {
	verifC17String(OptionRootPath, n, verifStrNVT, (*DHCPv4).RootPath)
}
func VerifC17BootFileNameOption(n int) {
	verifC17String(OptionBootfileName, n, verifStrTrimmed, (*DHCPv4).BootFileNameOption)
}
func VerifC17TFTPServerName(n int) {
	verifC17String(OptionTFTPServerName, n, verifStrTrimmed, (*DHCPv4).TFTPServerName)
}
func VerifC17ClassIdentifier(n int) {
	verifC17String(OptionClassIdentifier, n, verifStrOpaque, (*DHCPv4).ClassIdentifier)
}
func VerifC17Message(n int) {
	verifC17String(OptionMessage, n, verifStrNVT, (*DHCPv4).Message)
}

// ---- user class (RFC 3004, with the library's documented dual format) ----

// The library documents (WithUserClass, issue #113) that the option is written either as an
// RFC 3004 list or, for non-compliant peers, as one bare string; the accessor returns the RFC
// list when the value parses as one and otherwise the whole value as a single class.
func VerifC17UserClass(n int) {
	p, raw := verifC17Packet(OptionUserClassInformation, n)
	got := p.UserClass()
	verifObserveInt("count", len(got))
	if n < 0 {
		verifAssert(got == nil, "absent-gives-nil")
		verifReach("end")
		return
	}
	ucs, ok := refUserClasses(raw)
	if ok {
		verifAssert(len(got) == len(ucs), "number-of-classes")
		if len(got) == len(ucs) {
			for i := range ucs {
				verifAssert(verifSameStr(got[i], string(ucs[i])), "class-as-rfc3004-reads-it")
			}
		}
	} else {
		verifAssert(len(got) == 1, "non-rfc-value-is-one-class")
		if len(got) == 1 {
			verifAssert(verifSameStr(got[0], string(raw)), "non-rfc-value-is-the-whole-string")
		}
	}
	verifReach("end")
}

// ---- vendor-identifying vendor class (RFC 3925 §3) ----

// The accessor returns each vendor's vendor-class-data undivided; so does the reference.
func VerifC17VIVC(n int) {
	p, raw := verifC17Packet(OptionVendorIdentifyingVendorClass, n)
	got := p.VIVC()
	want, ok := refVIVCs(raw)
	verifObserveInt("count", len(got))
	if ok {
		verifAssert(len(got) == len(want), "number-of-vendors")
		if len(got) == len(want) {
			for i := range want {
				verifAssert(uint32(got[i].EntID) == want[i].ent, "enterprise-number")
				verifAssert(got[i].EntID >= 0, "enterprise-number")
				verifAssert(verifSame(got[i].Data, want[i].data), "vendor-class-data")
			}
		}
	} else {
		verifAssert(got == nil, "absent-or-malformed-gives-nil")
	}
	verifReach("end")
}

// ---- classless static routes (RFC 3442) ----

// Unasserted: the bits of the last significant destination octet that lie beyond the mask
// width.  RFC 3442 ("DHCP Client Behavior") says the client MUST zero them before installing
// the route; the accessor returns them as transmitted and documents Dest only as "the
// destination network".  Whether the accessor is the place for that masking is not decided by
// either text, so only the bits under the mask are compared.
func VerifC17ClasslessStaticRoute(n int) {
	p, raw := verifC17Packet(OptionClasslessStaticRoute, n)
	// what an earlier read returned is the caller's: overwriting every byte of it (addresses and
	// masks in place) changes nothing a later read returns
	for _, r := range p.ClasslessStaticRoute() {
		if r != nil {
			if r.Dest != nil {
				verifHavoc("scribble-dest", r.Dest.IP)
				verifHavoc("scribble-mask", r.Dest.Mask)
			}
			verifHavoc("scribble-router", r.Router)
		}
	}
	got := p.ClasslessStaticRoute()
	want, ok := refRoutes(raw)
	verifObserveInt("count", len(got))
	if ok {
		verifAssert(len(got) == len(want), "number-of-routes")
		if len(got) == len(want) {
			for i, w := range want {
				r := got[i]
				shape := r != nil && r.Dest != nil && len(r.Dest.IP) == 4 && len(r.Dest.Mask) == 4 && len(r.Router) == 4
				verifAssert(shape, "route-has-ipv4-destination-mask-and-router")
				if !shape {
					continue
				}
				var dm, dd byte
				for k := 0; k < 4; k++ {
					m := refMaskOctet(w.width, k)
					dm |= r.Dest.Mask[k] ^ m
					if k < len(w.dest) {
						dd |= (r.Dest.IP[k] ^ w.dest[k]) & m
					} else {
						dd |= r.Dest.IP[k]
					}
				}
				verifAssert(dm == 0, "mask-of-the-transmitted-width")
				verifAssert(dd == 0, "destination-as-rfc-reads-it")
				verifAssert(verifSame(r.Router, w.router), "router-as-rfc-reads-it")
			}
		}
	} else {
		verifAssert(got == nil, "absent-or-malformed-gives-nil")
	}
	verifReach("end")
}

// ---- relay agent information (RFC 3046 §2.0) ----

func VerifC17RelayAgentInfo(n int) {
	p, raw := verifC17Packet(OptionRelayAgentInformation, n)
	got := p.RelayAgentInfo()
	if n < 0 {
		verifAssert(got == nil, "absent-gives-nil")
		verifReach("end")
		return
	}
	if n == 0 {
		// A hand-built non-nil empty value is not a representation the decoder produces and is
		// below the RFC's minimum length; only "carries nothing" is asserted.
		verifAssert(got == nil || len(got.Options) == 0, "empty-value-carries-no-suboptions")
		verifReach("end")
		return
	}
	subs, st := refRelaySubOptions(raw)
	switch st {
	case refUndefined:
		verifReach("undefined-by-rfc")
	case refMalformed:
		verifAssert(got == nil, "malformed-gives-nil")
	case refLoneCode:
		// RFC 3046: the field is a sequence of SubOpt/Length/Value tuples; a final code octet
		// with no length octet is not a tuple, so the value is malformed.
		verifAssert(got == nil, "code-without-length-octet-gives-nil")
	default:
		verifAssert(got != nil, "wellformed-is-returned")
		if got != nil {
			verifAssert(len(got.Options) == len(subs), "number-of-suboptions")
			for _, s := range subs {
				v, has := got.Options[s.code]
				verifAssert(has, "suboption-present")
				verifAssert(verifSame(v, s.value), "suboption-value-as-rfc-reads-it")
			}
		}
	}
	verifReach("end")
}

// ---- domain search list (RFC 3397 §2, RFC 1035 §4.1.4) ----

func VerifC17DomainSearch(n int) {
	p, raw := verifC17Packet(OptionDNSDomainSearchList, n)
	got := p.DomainSearch()
	if n < 0 {
		verifAssert(got == nil, "absent-gives-nil")
		verifReach("end")
		return
	}
	names, st := refSearchList(raw)
	switch st {
	case refUndefined:
		verifReach("undefined-by-rfc")
	case refMalformed:
		verifAssert(got == nil, "malformed-gives-nil")
	default:
		verifAssert(got != nil, "wellformed-is-returned")
		if got != nil {
			verifAssert(len(got.Labels) == len(names), "number-of-names")
			if len(got.Labels) == len(names) {
				for i := range names {
					verifAssert(verifSameStr(got.Labels[i], string(refJoinLabels(names[i]))), "name-as-rfc-reads-it")
					verifObserve("name", []byte(got.Labels[i]))
				}
			}
		}
	}
	verifReach("end")
}

// =====================================================================================
// Set/get: typed constructor -> UpdateOption -> accessor returns the value that was set,
// over the constructor's domain (DESIGN.md §5 C17, "Precision note (set/get domain)").
// =====================================================================================

func verifNewPacket() *DHCPv4 {
	return &DHCPv4{OpCode: OpcodeBootRequest, HWType: iana.HWTypeEthernet}
}

// VerifC17SetGetAddr: which = 0 broadcast address, 1 requested address, 2 server identifier;
// form = 1 four-byte net.IP, 2 sixteen-byte IPv4-mapped net.IP.
func VerifC17SetGetAddr(which, form int) {
	ip, want := verifIP("ip", form)
	p := verifNewPacket()
	var got net.IP
	switch which {
	case 0:
		p.UpdateOption(OptBroadcastAddress(ip))
		got = p.BroadcastAddress()
	case 1:
		p.UpdateOption(OptRequestedIPAddress(ip))
		got = p.RequestedIPAddress()
	default:
		p.UpdateOption(OptServerIdentifier(ip))
		got = p.ServerIdentifier()
	}
	verifAssert(verifSame(got, want), "address-read-back")
	verifObserve("addr", got)
	verifReach("end")
}

// VerifC17SetGetAddrList: which = 0 routers, 1 NTP servers, 2 NetBIOS name servers, 3 DNS;
// k = 1..3 addresses; forms = base-3 digits (1 or 2, see verifIP) of each address.
func VerifC17SetGetAddrList(which, k, forms int) {
	var ips []net.IP
	var want [][]byte
	for i := 0; i < k; i++ {
		f := forms % 3
		forms /= 3
		if f == 0 {
			f = 1
		}
		ip, w := verifIP("ip", f)
		ips = append(ips, ip)
		want = append(want, w)
	}
	p := verifNewPacket()
	var got []net.IP
	switch which {
	case 0:
		p.UpdateOption(OptRouter(ips...))
		got = p.Router()
	case 1:
		p.UpdateOption(OptNTPServers(ips...))
		got = p.NTPServers()
	case 2:
		p.UpdateOption(OptNetBIOSNameServers(ips...))
		got = p.NetBIOSNameServers()
	default:
		p.UpdateOption(OptDNS(ips...))
		got = p.DNS()
	}
	verifAssert(len(got) == k, "number-of-addresses-read-back")
	if len(got) == k {
		for i := range want {
			verifAssert(verifSame(got[i], want[i]), "address-read-back")
		}
	}
	verifReach("end")
}

// VerifC17SetGetDuration: which = 0 lease, 1 renewal (T1), 2 rebinding (T2), 3 IPv6-only wait.
// Domain: whole seconds below 2^32.
func VerifC17SetGetDuration(which int) {
	d := time.Duration(verifU32("secs")) * time.Second
	def := time.Duration(verifU64("def"))
	p := verifNewPacket()
	var got time.Duration
	switch which {
	case 0:
		p.UpdateOption(OptIPAddressLeaseTime(d))
		got = p.IPAddressLeaseTime(def)
	case 1:
		p.UpdateOption(OptRenewTimeValue(d))
		got = p.IPAddressRenewalTime(def)
	case 2:
		p.UpdateOption(OptRebindingTimeValue(d))
		got = p.IPAddressRebindingTime(def)
	default:
		p.UpdateOption(OptIPv6OnlyPreferred(d))
		var present bool
		got, present = p.IPv6OnlyPreferred()
		verifAssert(present, "present")
	}
	verifAssert(got == d, "duration-read-back")
	verifObserveInt("dur", int(got))
	verifReach("end")
}

// VerifC17SetGetRoutes: up to three routes with mask widths w1..w3 (0..32; -1: no such route).
// Domain: canonical routes — destination octets beyond ceil(width/8) are zero.
func VerifC17SetGetRoutes(w1, w2, w3 int) {
	var routes []*Route
	for _, w := range []int{w1, w2, w3} {
		if w < 0 {
			continue
		}
		dst := verifBytes("dst", 4)
		for k := (w + 7) / 8; k < 4; k++ {
			verifAssume(dst[k] == 0)
		}
		gw := verifBytes("gw", 4)
		routes = append(routes, &Route{
			Dest:   &net.IPNet{IP: net.IP(dst), Mask: net.CIDRMask(w, 32)},
			Router: net.IP(gw),
		})
	}
	p := verifNewPacket()
	p.UpdateOption(OptClasslessStaticRoute(routes...))
	got := p.ClasslessStaticRoute()
	verifAssert(len(got) == len(routes), "number-of-routes-read-back")
	if len(got) == len(routes) {
		for i, r := range routes {
			g := got[i]
			shape := g != nil && g.Dest != nil
			verifAssert(shape, "route-read-back")
			if !shape {
				continue
			}
			verifAssert(verifSame(g.Dest.IP, r.Dest.IP), "destination-read-back")
			verifAssert(verifSame(g.Dest.Mask, r.Dest.Mask), "mask-read-back")
			verifAssert(verifSame(g.Router, r.Router), "router-read-back")
		}
	}
	verifReach("end")
}

// VerifC17SetGetParameterRequestList: k >= 1 symbolic codes.
func VerifC17SetGetParameterRequestList(k int) {
	raw := verifBytes("code", k)
	var codes []OptionCode
	for _, c := range raw {
		codes = append(codes, GenericOptionCode(c))
	}
	p := verifNewPacket()
	p.UpdateOption(OptParameterRequestList(codes...))
	got := p.ParameterRequestList()
	verifAssert(len(got) == k, "number-of-codes-read-back")
	if len(got) == k {
		var d byte
		for i := range raw {
			d |= got[i].Code() ^ raw[i]
		}
		verifAssert(d == 0, "codes-read-back")
	}
	verifReach("end")
}

// VerifC17SetGetUserClass: the non-RFC form OptUserClass(string of n bytes).  The documented
// dual format is inherently ambiguous for strings that happen to be a well-formed RFC 3004
// list: for those the accessor returns the list reading (asserted as such); for every other
// string it returns the string that was set.
func VerifC17SetGetUserClass(n int) {
	raw := verifBytes("uc", n)
	p := verifNewPacket()
	p.UpdateOption(OptUserClass(string(raw)))
	got := p.UserClass()
	ucs, isList := refUserClasses(raw)
	if isList {
		verifAssert(len(got) == len(ucs), "ambiguous-string-reads-as-rfc3004-list")
		verifReach("ambiguous")
	} else {
		verifAssert(len(got) == 1, "one-class-read-back")
		if len(got) == 1 {
			verifAssert(verifSameStr(got[0], string(raw)), "class-read-back")
		}
	}
	verifReach("end")
}

// VerifC17SetGetRFC3004UserClass: one to three classes of lengths l1..l3 (>= 1; -1: none).
func VerifC17SetGetRFC3004UserClass(l1, l2, l3 int) {
	var ucs []string
	for _, l := range []int{l1, l2, l3} {
		if l >= 1 {
			ucs = append(ucs, string(verifBytes("uc", l)))
		}
	}
	p := verifNewPacket()
	p.UpdateOption(OptRFC3004UserClass(ucs))
	got := p.UserClass()
	verifAssert(len(got) == len(ucs), "number-of-classes-read-back")
	if len(got) == len(ucs) {
		for i := range ucs {
			verifAssert(verifSameStr(got[i], ucs[i]), "class-read-back")
		}
	}
	verifReach("end")
}

// VerifC17SetGetRelayAgentInfo: sub-options with pairwise distinct symbolic codes in 1..254 and
// symbolic values of lengths l1..l3 (-1: none).
func VerifC17SetGetRelayAgentInfo(l1, l2, l3 int) {
	codes, vals := verifOptionSet(0, l1, l2, l3)
	var subs []Option
	for i := range codes {
		subs = append(subs, OptGeneric(raiSubOptionCode(codes[i]), vals[i]))
	}
	p := verifNewPacket()
	p.UpdateOption(OptRelayAgentInfo(subs...))
	got := p.RelayAgentInfo()
	if len(codes) == 0 {
		// no sub-option: the option value is empty, which the accessor reads as absent or empty
		verifAssert(got == nil || len(got.Options) == 0, "no-suboptions-read-back")
		verifReach("end")
		return
	}
	verifAssert(got != nil, "present")
	if got != nil {
		verifAssert(len(got.Options) == len(codes), "number-of-suboptions-read-back")
		for i := range codes {
			v, has := got.Options[codes[i]]
			verifAssert(has, "suboption-read-back")
			verifAssert(verifSame(v, vals[i]), "suboption-value-read-back")
			verifAssert(verifSame(got.Get(raiSubOptionCode(codes[i])), vals[i]), "suboption-value-read-back")
		}
	}
	verifReach("end")
}

func VerifC17SetGetSubnetMask() {
	m := verifBytes("mask", 4)
	p := verifNewPacket()
	p.UpdateOption(OptSubnetMask(net.IPMask(m)))
	got := p.SubnetMask()
	verifAssert(verifSame(got, m), "mask-read-back")
	verifReach("end")
}

// verifDNSName builds one name from a shape: decimal digit pairs, least significant first, are
// label lengths (e.g. 30201 = labels of 1, 2 and 3 bytes).  Label bytes are not '.', the
// separator of the library's textual form.
func verifDNSName(shape int) string {
	var j []byte
	first := true
	for d := shape; d > 0; d /= 100 {
		lab := verifBytes("lab", d%100)
		for _, c := range lab {
			verifAssume(c != '.')
		}
		if !first {
			j = append(j, '.')
		}
		first = false
		j = append(j, lab...)
	}
	return string(j)
}

// VerifC17SetGetDomainSearch: one to three names (shape -1: none; see verifDNSName).
func VerifC17SetGetDomainSearch(s1, s2, s3 int) {
	var names []string
	for _, s := range []int{s1, s2, s3} {
		if s > 0 {
			names = append(names, verifDNSName(s))
		}
	}
	p := verifNewPacket()
	p.UpdateOption(OptDomainSearch(&rfc1035label.Labels{Labels: names}))
	got := p.DomainSearch()
	if len(names) == 0 {
		// outside the constructor's domain (list options carry at least one element): the value
		// is empty and reads as absent or empty
		verifAssert(got == nil || len(got.Labels) == 0, "no-names-read-back")
		verifReach("end")
		return
	}
	verifAssert(got != nil, "present")
	if got != nil {
		verifAssert(len(got.Labels) == len(names), "number-of-names-read-back")
		if len(got.Labels) == len(names) {
			for i := range names {
				verifAssert(verifSameStr(got.Labels[i], names[i]), "name-read-back")
			}
		}
	}
	verifReach("end")
}

// VerifC17SetGetDomainSearchEdited: the search list handed to the constructor is one that was read
// from a packet and then edited (edit 0: a name appended, 1: the last name removed, 2: the first
// name replaced, 3: a name appended and the first replaced); what is read back must be the edited
// list. s1, s2: shapes of the names of the received list, s3: shape of the new name.
func VerifC17SetGetDomainSearchEdited(s1, s2, s3, edit int) {
	var names []string
	for _, s := range []int{s1, s2} {
		if s > 0 {
			names = append(names, verifDNSName(s))
		}
	}
	src := verifNewPacket()
	src.UpdateOption(OptDomainSearch(&rfc1035label.Labels{Labels: names}))
	rcv, err := FromBytes(src.ToBytes())
	verifAssert(err == nil, "received")
	if err != nil {
		return
	}
	l := rcv.DomainSearch()
	verifAssert(l != nil && len(l.Labels) == len(names), "received-list")
	if l == nil || len(l.Labels) != len(names) {
		return
	}
	fresh := verifDNSName(s3)
	want := append([]string(nil), names...)
	switch edit {
	case 0:
		l.Labels = append(l.Labels, fresh)
		want = append(want, fresh)
	case 1:
		l.Labels = l.Labels[:len(l.Labels)-1]
		want = want[:len(want)-1]
	case 2:
		l.Labels[0] = fresh
		want[0] = fresh
	default:
		l.Labels = append(l.Labels, fresh)
		l.Labels[0] = fresh
		want = append(want, fresh)
		want[0] = fresh
	}
	p := verifNewPacket()
	p.UpdateOption(OptDomainSearch(l))
	got := p.DomainSearch()
	if len(want) == 0 {
		verifAssert(got == nil || len(got.Labels) == 0, "no-names-read-back")
		verifReach("end")
		return
	}
	verifAssert(got != nil, "present")
	if got != nil {
		verifAssert(len(got.Labels) == len(want), "number-of-names-read-back")
		if len(got.Labels) == len(want) {
			for i := range want {
				verifAssert(verifSameStr(got.Labels[i], want[i]), "name-read-back")
			}
		}
	}
	verifReach("end")
}

// VerifC17SetGetClientArch: k >= 1 symbolic architecture types.
func VerifC17SetGetClientArch(k int) {
	var archs []iana.Arch
	for i := 0; i < k; i++ {
		archs = append(archs, iana.Arch(verifU16("arch")))
	}
	p := verifNewPacket()
	p.UpdateOption(OptClientArch(archs...))
	got := p.ClientArch()
	verifAssert(len(got) == k, "number-of-types-read-back")
	if len(got) == k {
		for i := range archs {
			verifAssert(got[i] == archs[i], "type-read-back")
		}
	}
	verifReach("end")
}

// VerifC17SetGetScalar: which = 0 maximum message size, 1 message type, 2 auto-configure.
func VerifC17SetGetScalar(which int) {
	p := verifNewPacket()
	switch which {
	case 0:
		v := verifU16("size")
		p.UpdateOption(OptMaxMessageSize(v))
		got, err := p.MaxMessageSize()
		verifAssert(err == nil, "present")
		verifAssert(got == v, "size-read-back")
	case 1:
		v := MessageType(verifU8("type"))
		p.UpdateOption(OptMessageType(v))
		verifAssert(p.MessageType() == v, "type-read-back")
	default:
		v := AutoConfiguration(verifU8("autoconf"))
		p.UpdateOption(OptAutoConfigure(v))
		got, present := p.AutoConfigure()
		verifAssert(present, "present")
		verifAssert(got == v, "autoconf-read-back")
	}
	verifReach("end")
}

// VerifC17SetGetString: which = 0 domain name, 1 host name, 2 root path, 3 boot file name,
// 4 TFTP server name, 5 class identifier, 6 message; n bytes.  Domain: strings that do not end
// in NUL (RFC 2132 §2: senders SHOULD NOT add one and receivers delete it, so such a string has
// no wire representation of its own).
func VerifC17SetGetString(which, n int) {
	raw := verifBytes("str", n)
	if n > 0 {
		verifAssume(raw[n-1] != 0)
	}
	s := string(raw)
	p := verifNewPacket()
	var got string
	switch which {
	case 0:
		p.UpdateOption(OptDomainName(s))
		got = p.DomainName()
	case 1:
		p.UpdateOption(OptHostName(s))
		got = p.HostName()
	case 2:
		p.UpdateOption(OptRootPath(s))
		got = p.RootPath()
	case 3:
		p.UpdateOption(OptBootFileName(s))
		got = p.BootFileNameOption()
	case 4:
		p.UpdateOption(OptTFTPServerName(s))
		got = p.TFTPServerName()
	case 5:
		p.UpdateOption(OptClassIdentifier(s))
		got = p.ClassIdentifier()
	default:
		p.UpdateOption(OptMessage(s))
		got = p.Message()
	}
	verifAssert(verifSameStr(got, s), "string-read-back")
	verifReach("end")
}

// VerifC17SetGetVIVC: up to two vendors with symbolic 32-bit enterprise numbers and
// vendor-class-data of l1, l2 bytes (-1: none).
func VerifC17SetGetVIVC(l1, l2 int) {
	var ids []VIVCIdentifier
	for _, l := range []int{l1, l2} {
		if l >= 0 {
			ids = append(ids, VIVCIdentifier{EntID: iana.EnterpriseID(verifU32("ent")), Data: verifBytes("data", l)})
		}
	}
	p := verifNewPacket()
	p.UpdateOption(OptVIVC(ids...))
	got := p.VIVC()
	verifAssert(len(got) == len(ids), "number-of-vendors-read-back")
	if len(got) == len(ids) {
		for i := range ids {
			verifAssert(got[i].EntID == ids[i].EntID, "enterprise-number-read-back")
			verifAssert(verifSame(got[i].Data, ids[i].Data), "vendor-class-data-read-back")
		}
	}
	verifReach("end")
}
