//go:build verif

package dhcpv4

// Reference interpretations of DHCPv4 option values, written from the RFCs.  They share no code
// with the library: no uio, no FromBytes of any option type, no Options methods.
//
// Every function takes the raw option value and reports ok=false when the value is not
// well-formed for the option's type (the accessor must then give its absent/default result).

// refAddr: RFC 2132 §5.3 / §9.1 / §9.7 — a single IPv4 address, length exactly 4.
func refAddr(raw []byte) (addr []byte, ok bool) {
	if len(raw) != 4 {
		return nil, false
	}
	return raw, true
}

// refAddrList: RFC 2132 §3.5 / §3.8 / §8.3 / §8.5 — n addresses, "The minimum length ... is 4
// octets, and the length MUST always be a multiple of 4".
func refAddrList(raw []byte) (addrs [][]byte, ok bool) {
	if len(raw) < 4 || len(raw)%4 != 0 {
		return nil, false
	}
	for i := 0; i < len(raw); i += 4 {
		addrs = append(addrs, raw[i:i+4])
	}
	return addrs, true
}

// refU32: a 32-bit unsigned integer in network byte order, length exactly 4
// (RFC 2132 §9.2, §9.11, §9.12 lease/T1/T2 in seconds; RFC 8925 §3.1 V6ONLY_WAIT in seconds).
func refU32(raw []byte) (v uint32, ok bool) {
	if len(raw) != 4 {
		return 0, false
	}
	return uint32(raw[0])<<24 | uint32(raw[1])<<16 | uint32(raw[2])<<8 | uint32(raw[3]), true
}

// refU16: RFC 2132 §9.10 — 16-bit unsigned integer, length exactly 2.
func refU16(raw []byte) (v uint16, ok bool) {
	if len(raw) != 2 {
		return 0, false
	}
	return uint16(raw[0])<<8 | uint16(raw[1]), true
}

// refU8: RFC 2132 §9.6 (message type), RFC 2563 §2 (auto-configure) — one octet, length exactly 1.
func refU8(raw []byte) (v uint8, ok bool) {
	if len(raw) != 1 {
		return 0, false
	}
	return raw[0], true
}

// refU16List: RFC 4578 §2.1 — "a list of one or more architecture types", 16-bit each:
// length even and at least 2.
func refU16List(raw []byte) (vs []uint16, ok bool) {
	if len(raw) < 2 || len(raw)%2 != 0 {
		return nil, false
	}
	for i := 0; i < len(raw); i += 2 {
		vs = append(vs, uint16(raw[i])<<8|uint16(raw[i+1]))
	}
	return vs, true
}

// refStripNul: RFC 2132 §2 — "Options containing NVT ASCII data SHOULD NOT include a trailing
// NULL; however, the receiver of such options MUST be prepared to delete trailing nulls if they
// exist."  Returns raw without its trailing zero octets.
func refStripNul(raw []byte) []byte {
	n := len(raw)
	for n > 0 && raw[n-1] == 0 {
		n--
	}
	return raw[:n]
}

// refRoute is one RFC 3442 destination descriptor / router pair.
type refRoute struct {
	width  int    // 0..32
	dest   []byte // the ceil(width/8) significant octets as transmitted
	router []byte // 4 octets
}

// refRoutes: RFC 3442 — a sequence of (width, significant octets of the subnet number,
// router address).  "The minimum length of this option is 5 bytes"; a width above 32 is not an
// IPv4 subnet mask width; each descriptor must be complete.
func refRoutes(raw []byte) (rs []refRoute, ok bool) {
	if len(raw) < 5 {
		return nil, false
	}
	i := 0
	for i < len(raw) {
		w := int(raw[i])
		if w > 32 {
			return nil, false
		}
		sig := (w + 7) / 8
		if i+1+sig+4 > len(raw) {
			return nil, false
		}
		rs = append(rs, refRoute{width: w, dest: raw[i+1 : i+1+sig], router: raw[i+1+sig : i+1+sig+4]})
		i += 1 + sig + 4
	}
	return rs, true
}

// refMaskOctet returns octet k (0..3) of the subnet mask of the given width.
func refMaskOctet(width, k int) byte {
	bits := width - 8*k
	if bits >= 8 {
		return 0xff
	}
	if bits <= 0 {
		return 0
	}
	return byte(0xff << uint(8-bits))
}

// refUserClasses: RFC 3004 §4 — one or more (UC_Len_i, UC_Data_i) with UC_Len_i non-zero, the
// instances exactly filling the value.  ok=false: not an RFC 3004 list.
func refUserClasses(raw []byte) (ucs [][]byte, ok bool) {
	if len(raw) == 0 {
		return nil, false
	}
	i := 0
	for i < len(raw) {
		l := int(raw[i])
		if l == 0 {
			return nil, false
		}
		if i+1+l > len(raw) {
			return nil, false
		}
		ucs = append(ucs, raw[i+1:i+1+l])
		i += 1 + l
	}
	return ucs, true
}

// refVIVC is one RFC 3925 §3 vendor class: enterprise number and its vendor-class-data.
type refVIVC struct {
	ent  uint32
	data []byte
}

// refVIVCs: RFC 3925 §3 — a sequence of (enterprise-number 4 octets, data-len 1 octet,
// vendor-class-data of data-len octets) exactly filling the value.
func refVIVCs(raw []byte) (vs []refVIVC, ok bool) {
	i := 0
	for i < len(raw) {
		if i+5 > len(raw) {
			return nil, false
		}
		ent := uint32(raw[i])<<24 | uint32(raw[i+1])<<16 | uint32(raw[i+2])<<8 | uint32(raw[i+3])
		l := int(raw[i+4])
		if i+5+l > len(raw) {
			return nil, false
		}
		vs = append(vs, refVIVC{ent: ent, data: raw[i+5 : i+5+l]})
		i += 5 + l
	}
	return vs, true
}

const (
	refOK        = iota
	refMalformed // not well-formed for the type: the accessor must give its absent result
	refLoneCode  // refMalformed, specifically: the value ends with a code octet that has no length octet
	refUndefined // neither the RFC nor the library's documentation assigns a meaning: no claim
)

// refSubOpt is one relay agent sub-option.
type refSubOpt struct {
	code  uint8
	value []byte
}

// refRelaySubOptions: RFC 3046 §2.0 — "The Agent Information field consists of a sequence of
// SubOpt/Length/Value tuples", "the minimum Relay Agent Information length is two (2)", "A
// sub-option length may be zero", the field "shall NOT be terminated with a 255 sub-option".
// Sub-option codes 0 and 255 are not assigned by RFC 3046 or its successors, and the library
// documents RelayOptions as "like Options" (whose codes 0 and 255 are Pad and End): values in
// which a tuple starts with code 0 or 255 are refUndefined.  A repeated sub-option code is
// concatenated by the library (RFC 3396 style); RFC 3046 does not say: refUndefined.
func refRelaySubOptions(raw []byte) (subs []refSubOpt, status int) {
	if len(raw) < 2 {
		// too short to hold one tuple.  (A value starting with 0 or 255 is still undefined.)
		if len(raw) == 1 && (raw[0] == 0 || raw[0] == 255) {
			return nil, refUndefined
		}
		if len(raw) == 1 {
			return nil, refLoneCode
		}
		return nil, refMalformed
	}
	i := 0
	for i < len(raw) {
		c := raw[i]
		if c == 0 || c == 255 {
			return nil, refUndefined
		}
		if i+1 >= len(raw) {
			return nil, refLoneCode // code octet without a length octet
		}
		l := int(raw[i+1])
		if i+2+l > len(raw) {
			return nil, refMalformed // value runs past the end of the field
		}
		for _, s := range subs {
			if s.code == c {
				return nil, refUndefined
			}
		}
		subs = append(subs, refSubOpt{code: c, value: raw[i+2 : i+2+l]})
		i += 2 + l
	}
	return subs, refOK
}

// refSearchList: RFC 3397 §2 — a list of domain names, each "encoded as in section 4.1.4 of
// RFC 1035" (labels of 1..63 octets ended by a zero octet or by a compression pointer whose
// offset is relative to the start of the option value).  A name is returned as its labels.
//
//   - A final name that is not terminated is malformed for RFC 3397; the library's label parser
//     documents that it deliberately accepts it as a partial name (RFC 4704 §4.2) — the
//     documented behaviour is followed (refOK, the partial name is the last element).
//   - RFC 1035 pointers point to a *prior* occurrence; forward/self pointers, pointer targets
//     that run off the end, and the reserved label types 64..191 get no meaning: refUndefined.
//   - a pointer inside a pointed-to name (nested compression) is valid RFC 1035 but the library
//     documents "cannot handle nested pointers": refUndefined as well.
func refSearchList(raw []byte) (names [][][]byte, status int) {
	n := len(raw)
	p := 0
	var cur [][]byte
	for {
		if p >= n {
			if len(cur) > 0 {
				names = append(names, cur)
			}
			return names, refOK
		}
		l := int(raw[p])
		switch {
		case l == 0:
			names = append(names, cur)
			cur = nil
			p++
		case l >= 0xc0:
			if p+1 >= n {
				return nil, refMalformed // pointer cut in half
			}
			t := (l&0x3f)<<8 | int(raw[p+1])
			if t >= p {
				return nil, refUndefined
			}
			q := t
			for {
				if q >= n {
					return nil, refUndefined
				}
				ll := int(raw[q])
				if ll == 0 {
					break
				}
				if ll > 63 {
					return nil, refUndefined // nested pointer or reserved label type
				}
				if q+1+ll > n {
					return nil, refMalformed
				}
				cur = append(cur, raw[q+1:q+1+ll])
				q += 1 + ll
			}
			names = append(names, cur)
			cur = nil
			p += 2
		case l <= 63:
			if p+1+l > n {
				return nil, refMalformed // label runs past the end
			}
			cur = append(cur, raw[p+1:p+1+l])
			p += 1 + l
		default:
			return nil, refUndefined
		}
	}
}

// refJoinLabels is the textual form the library uses for a name: labels joined by '.'.
func refJoinLabels(labels [][]byte) []byte {
	var j []byte
	for i, l := range labels {
		if i > 0 {
			j = append(j, '.')
		}
		j = append(j, l...)
	}
	return j
}
