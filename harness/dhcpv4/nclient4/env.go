//go:build verif

package nclient4

// Environment fakes for the client harnesses: a scripted net.PacketConn, a context whose
// cancellation is an environment event, helpers to build server datagrams.

import (
	"errors"
	"net"
	"sync"
	"sync/atomic"
	"time"

	"github.com/insomniacslk/dhcp/dhcpv4"
)

type verifDgram struct {
	data []byte
	from net.Addr
}

type verifWrite struct {
	at   int64
	dest net.Addr
	data []byte
}

type verifConn struct {
	in       chan verifDgram
	closed   chan struct{}
	mu       sync.Mutex // a PacketConn may be used from several goroutines
	isClose  bool
	closeErr error
	log      []verifWrite
	writes   int
	failAt   int           // index of the WriteTo call that fails (-1: none)
	readErr  chan struct{} // closed when reading starts to fail (a fault of the socket, not Close)
	wdl      int64         // write deadline as a virtual instant (0: none), as net.PacketConn specifies
	// set by a harness when Client.Close has returned: a ReadFrom that STARTS after that is a
	// receive loop that Close did not wait for
	closeReturned uint32
	lateReads     uint32
}

func newVerifConn() *verifConn {
	return &verifConn{in: make(chan verifDgram, 16), closed: make(chan struct{}), failAt: -1, readErr: make(chan struct{})}
}

var errVerifClosed = errors.New("verif: use of closed connection")
var errVerifWrite = errors.New("verif: write failed")
var errVerifWriteTimeout = errors.New("verif: write: i/o timeout")
var errVerifReadFault = errors.New("verif: read failed")

func (c *verifConn) ReadFrom(b []byte) (int, net.Addr, error) {
	if atomic.LoadUint32(&c.closeReturned) != 0 {
		atomic.AddUint32(&c.lateReads, 1)
	}
	select {
	case d := <-c.in:
		n := copy(b, d.data)
		return n, d.from, nil
	case <-c.closed:
		return 0, nil, errVerifClosed
	case <-c.readErr:
		return 0, nil, errVerifReadFault
	}
}

// failReadAt makes every ReadFrom fail from virtual instant t on.
func (c *verifConn) failReadAt(t int64) {
	verifAt(t, func() { close(c.readErr) })
}

func (c *verifConn) WriteTo(b []byte, a net.Addr) (int, error) {
	c.mu.Lock()
	if c.wdl != 0 && verifNow() > c.wdl {
		c.mu.Unlock()
		return 0, errVerifWriteTimeout // the deadline set on the connection has passed
	}
	if c.writes == c.failAt {
		c.writes++
		c.mu.Unlock()
		return 0, errVerifWrite
	}
	c.writes++
	c.log = append(c.log, verifWrite{at: verifNow(), dest: a, data: append([]byte(nil), b...)})
	c.mu.Unlock()
	return len(b), nil
}

func (c *verifConn) Close() error {
	c.mu.Lock()
	if !c.isClose {
		c.isClose = true
		close(c.closed)
	}
	c.mu.Unlock()
	return c.closeErr // a socket may report an error on close and is closed nevertheless
}
func (c *verifConn) LocalAddr() net.Addr               { return &net.UDPAddr{Port: 68} }
func (c *verifConn) SetDeadline(t time.Time) error     { return nil }
func (c *verifConn) SetReadDeadline(t time.Time) error { return nil }
func (c *verifConn) SetWriteDeadline(t time.Time) error {
	c.mu.Lock()
	if t.IsZero() {
		c.wdl = 0
	} else {
		c.wdl = t.UnixNano()
	}
	c.mu.Unlock()
	return nil
}

// deliver schedules datagram d for arrival at virtual instant t.
func (c *verifConn) deliver(t int64, data []byte) {
	d := verifDgram{data: data, from: &net.UDPAddr{IP: net.IP{192, 0, 2, 1}, Port: 67}}
	verifAt(t, func() {
		select {
		case c.in <- d:
		default: // socket buffer full: dropped
		}
	})
}

// verifCtx is a context.Context cancelled by the environment.
type verifCtx struct {
	done     chan struct{}
	err      error
	deadline int64 // virtual instant of the context's deadline (0: none)
}

func newVerifCtx() *verifCtx { return &verifCtx{done: make(chan struct{})} }

var errVerifCanceled = errors.New("verif: context canceled")
var errVerifCloseFailed = errors.New("verif: close failed")

func (c *verifCtx) Deadline() (time.Time, bool) {
	if c.deadline != 0 {
		return time.Unix(0, c.deadline), true
	}
	return time.Time{}, false
}
func (c *verifCtx) Done() <-chan struct{} { return c.done }
func (c *verifCtx) Err() error            { return c.err }
func (c *verifCtx) Value(key any) any     { return nil }
func (c *verifCtx) cancelAt(t int64)      { c.endAt(t, errVerifCanceled) }

// endAt ends the context at virtual instant t with the given error (context.Canceled,
// context.DeadlineExceeded, or the harness's own sentinel).
func (c *verifCtx) endAt(t int64, err error) {
	verifAt(t, func() {
		if c.err == nil {
			c.err = err
			close(c.done)
		}
	})
}

var verifHW = net.HardwareAddr{2, 0, 0, 0, 0, 1}

// verifReply builds the wire form of a server message with symbolic discriminating fields:
// transaction id, opcode, hardware address last byte, message type.
func verifReply(tag string) (data []byte, xid dhcpv4.TransactionID, op uint8, hwLast uint8, mt uint8) {
	x := verifBytes(tag+".xid", 4)
	copy(xid[:], x)
	op = verifU8(tag + ".op")
	hwLast = verifU8(tag + ".hw")
	mt = verifU8(tag + ".type")
	p := &dhcpv4.DHCPv4{
		OpCode:        dhcpv4.OpcodeType(op),
		HWType:        1,
		TransactionID: xid,
		ClientHWAddr:  net.HardwareAddr{2, 0, 0, 0, 0, hwLast},
		Options:       dhcpv4.Options{53: []byte{mt}},
	}
	// hwLast == 0xee stands for a reply that carries NO hardware address at all (hlen 0): it is
	// not for this client's hardware address either
	if hwLast == 0xee {
		p.ClientHWAddr = nil
	}
	return p.ToBytes(), xid, op, hwLast, mt
}

// verifOtherDest is a server address different from the one passed to SendAndRead, so that a
// retransmission to the client's default server instead of the requested destination is visible.
func verifOtherDest() *net.UDPAddr { return &net.UDPAddr{IP: net.IP{198, 51, 100, 7}, Port: 67} }
