//go:build verif

package nclient4

import (
	"github.com/insomniacslk/dhcp/dhcpv4"
)

// C10: a client call only ever returns a response to its own transaction.

// VerifC10Single: one caller, nmsgs datagrams with symbolic discriminators at symbolic instants,
// plus garbage (undecodable) datagrams when garbage != 0.
func VerifC10Single(tries, nmsgs, garbage int) {
	k := verifRunCallGarbage(tries, nmsgs, garbage)
	verifC10CheckResult(k.resp, k.err, k.end, verifXID, k.msgs)
	for _, m := range k.msgs {
		verifAssert(verifOr(!m.acceptable, k.end <= m.at), "first-acceptable-datagram-in-arrival-order-ends-the-call")
	}
	k.c.Close()
	verifReach("end")
}

func verifRunCallGarbage(tries, nmsgs, garbage int) *verifCall {
	if garbage == 0 {
		return verifRunCall(tries, nmsgs, 0, 0)
	}
	return verifRunCallWith(tries, nmsgs, 0, 0, garbage-1)
}

// verifC10CheckResult: a returned response carries the call's transaction id, is a BOOTREPLY for
// the client's hardware address, satisfies the matcher, and is one of the datagrams that arrived
// while the call was waiting.
func verifC10CheckResult(resp *dhcpv4.DHCPv4, err error, end int64, xid dhcpv4.TransactionID, msgs []verifMsg) {
	if resp == nil {
		verifAssert(err != nil, "error-or-response")
		return
	}
	verifAssert(err == nil, "no-error-with-response")
	verifAssert(verifSameXID(resp.TransactionID, xid), "response-has-own-transaction-id")
	verifAssert(resp.OpCode == dhcpv4.OpcodeBootReply, "response-is-bootreply")
	verifAssert(len(resp.ClientHWAddr) == 6, "response-hwaddr-length")
	if len(resp.ClientHWAddr) == 6 {
		verifAssert(resp.ClientHWAddr[5] == verifHW[5], "response-for-own-hwaddr")
	}
	verifAssert(resp.MessageType() == dhcpv4.MessageTypeOffer, "response-satisfies-matcher")
	arrived := false
	for _, m := range msgs {
		same := verifAnd(verifSameXID(m.xid, resp.TransactionID), verifAnd(m.op == uint8(resp.OpCode), verifAnd(m.mt == uint8(resp.MessageType()), m.at <= end)))
		arrived = verifOr(arrived, same)
	}
	verifAssert(arrived, "response-is-a-datagram-that-arrived-during-the-call")
}

// VerifC10Two: two concurrent callers (the second with a distinct transaction id, or the same one
// when collide != 0) and nmsgs datagrams.  sched != 0 explores scheduling choices at blocking points.
func VerifC10Two(nmsgs, collide, sched int) {
	verifSchedule(sched != 0)
	verifRaceDetect(true)
	k := &verifCall{conn: newVerifConn()}
	c, err := NewWithConn(k.conn, verifHW, WithTimeoutNs(int64(verifU32("T"))), WithRetry(1))
	verifAssert(err == nil, "client-created")
	k.c = c
	xidB := dhcpv4.TransactionID{0x11, 0x22, 0x33, 0x44}
	if collide != 0 {
		xidB = verifXID
	}
	mk := func(x dhcpv4.TransactionID) *dhcpv4.DHCPv4 {
		return &dhcpv4.DHCPv4{OpCode: dhcpv4.OpcodeBootRequest, HWType: 1, TransactionID: x, ClientHWAddr: verifHW, Options: dhcpv4.Options{53: []byte{1}}}
	}
	prev := int64(0)
	for i := 0; i < nmsgs; i++ {
		data, xid, op, hw, mt := verifReply("m")
		at := int64(verifU64("m.at"))
		verifAssume(at >= prev)
		verifAssume(at <= 1<<36)
		prev = at
		k.msgs = append(k.msgs, verifMsg{at: at, xid: xid, op: op, hwLast: hw, mt: mt})
		k.conn.deliver(at, data)
	}
	dest := verifDest()
	type res struct {
		resp *dhcpv4.DHCPv4
		err  error
		end  int64
	}
	doneB := make(chan res, 1)
	go func() {
		r, e := c.SendAndRead(newVerifCtx(), dest, mk(xidB), IsMessageType(dhcpv4.MessageTypeOffer))
		doneB <- res{r, e, verifNow()}
	}()
	ra, ea := c.SendAndRead(newVerifCtx(), dest, mk(verifXID), IsMessageType(dhcpv4.MessageTypeOffer))
	endA := verifNow()
	rb := <-doneB
	if collide != 0 {
		// exactly one of the two calls owns the id at a time: a call that overlaps the other is refused
		_, aRefused := ea.(*ErrTransactionIDInUse)
		_, bRefused := rb.err.(*ErrTransactionIDInUse)
		verifAssert(!(aRefused && bRefused), "not-both-refused")
		if !aRefused {
			verifC10CheckResult(ra, ea, endA, verifXID, k.msgs)
		}
		if !bRefused {
			verifC10CheckResult(rb.resp, rb.err, rb.end, xidB, k.msgs)
		}
		if ra != nil && rb.resp != nil {
			verifAssert(ra != rb.resp, "colliding-calls-never-share-a-response")
		}
	} else {
		verifC10CheckResult(ra, ea, endA, verifXID, k.msgs)
		verifC10CheckResult(rb.resp, rb.err, rb.end, xidB, k.msgs)
	}
	c.Close()
	verifReach("end")
}
