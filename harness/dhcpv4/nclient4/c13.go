//go:build verif

package nclient4

// C13: lease acquisition follows the DHCP exchange rules for every server behaviour.

import (
	"net"
	"time"

	"github.com/insomniacslk/dhcp/dhcpv4"
)

var verifForeignXID = dhcpv4.TransactionID{0xee, 0xee, 0xee, 0xee}

// verifServerMsg is one scripted server reply with symbolic content.
type verifServerMsg struct {
	ownXID  bool   // carries the transaction id of the client message it answers
	hasType bool   // message type option present
	mt      uint8  // its value
	sidKind int    // 0 absent, 1 four bytes, 2 three bytes (malformed)
	sid     []byte // server identifier bytes
	yi      []byte // yiaddr
	decoded *dhcpv4.DHCPv4
	hwKind  int  // 0: the client's hardware address; 1: none (hlen 0); 2: another station's
	xidOwn  bool // with hwKind != 0: whether the datagram bears the client's transaction id all the same
	hwAddr  net.HardwareAddr // the client's hardware address when it is not verifHW
}

// verifScriptServer makes the connection answer the n-th transmission with the replies[n] stream.
type verifScript struct {
	conn    *verifConn
	replies [][]*verifServerMsg
	seen    []*dhcpv4.DHCPv4 // decoded client transmissions
	dests   []net.Addr
	hwMask  int // base-3 digits, one per reply built: its hwKind
	hw      net.HardwareAddr // the client's hardware address when it is not verifHW
}

func verifTypedSID(m *verifServerMsg) []byte {
	if m.sidKind == 1 {
		return m.sid
	}
	return nil
}

func (s *verifScript) build(tag string, sidKind int, typed int) *verifServerMsg {
	m := &verifServerMsg{sidKind: sidKind}
	m.ownXID = verifBool(tag + ".ownxid")
	switch typed {
	case 0:
		m.hasType = false
	default:
		m.hasType = true
		m.mt = verifU8(tag + ".type")
	}
	switch sidKind {
	case 1:
		m.sid = verifBytes(tag+".sid", 4)
	case 2:
		m.sid = verifBytes(tag+".sid", 3)
	}
	m.yi = verifBytes(tag+".yiaddr", 4)
	m.hwAddr = s.hw
	m.hwKind = s.hwMask % 3
	s.hwMask /= 3
	if m.hwKind != 0 {
		// addressed to nobody / to another station: not this client's, whatever its transaction id
		m.xidOwn = m.ownXID
		m.ownXID = false
	}
	return m
}

// encode builds the wire form once the client's transaction id is known.
func (m *verifServerMsg) encode(xid dhcpv4.TransactionID) []byte {
	p := &dhcpv4.DHCPv4{OpCode: dhcpv4.OpcodeBootReply, HWType: 1, ClientHWAddr: verifHW, YourIPAddr: net.IP(m.yi), Options: dhcpv4.Options{}}
	p.TransactionID = xid
	if !m.ownXID {
		p.TransactionID = verifForeignXID
	}
	if m.hwAddr != nil {
		p.ClientHWAddr = m.hwAddr
	}
	switch m.hwKind {
	case 1:
		p.ClientHWAddr = nil
	case 2:
		p.ClientHWAddr = net.HardwareAddr{2, 0, 0, 0, 0, 0x77}
	}
	if m.hwKind != 0 && m.xidOwn {
		p.TransactionID = xid
	}
	if m.hasType {
		p.Options[53] = []byte{m.mt}
	}
	if m.sidKind != 0 {
		p.Options[54] = m.sid
	}
	m.decoded = p
	return p.ToBytes()
}

// WriteTo hook: installed by wrapping the connection.
type verifServerConn struct {
	*verifConn
	script *verifScript
}

func (c *verifServerConn) WriteTo(b []byte, a net.Addr) (int, error) {
	n, err := c.verifConn.WriteTo(b, a)
	req, perr := dhcpv4.FromBytes(b)
	verifAssert(perr == nil, "client-transmits-decodable-packets")
	if perr != nil {
		return n, err
	}
	// foreign datagrams carry an id that no transaction of this client uses
	verifAssume(!verifSameXID(req.TransactionID, verifForeignXID))
	k := len(c.script.seen)
	c.script.seen = append(c.script.seen, req)
	c.script.dests = append(c.script.dests, a)
	if k < len(c.script.replies) {
		now := verifNow()
		for i, m := range c.script.replies[k] {
			// replies to the k-th transmission arrive in order, well after those to the previous one
			c.verifConn.deliver(now+int64(100*k+i)+1, m.encode(req.TransactionID))
		}
	}
	return n, err
}

func verifIs(m *verifServerMsg, t dhcpv4.MessageType) bool {
	return verifAnd(m.hasType, m.mt == uint8(t))
}

// VerifC13Request: the 4-way exchange with n1 replies to DISCOVER and n2 replies to REQUEST.
// shape selects, per reply, server-id kind (0 absent, 1 valid, 2 malformed) in base 3.
func VerifC13Request(n1, n2, shape int) { verifC13Request(n1, n2, shape, 0) }

// VerifC13OtherHW: as VerifC13Request; hwMask gives, per reply in script order (base 3), whose
// hardware address it carries: 0 the client's, 1 none at all (hlen 0), 2 another station's. Replies
// not addressed to the client are ignored whatever transaction id they bear.
func VerifC13OtherHW(n1, n2, shape, hwMask int) { verifC13Request(n1, n2, shape, hwMask) }

func verifC13Request(n1, n2, shape, hwMask int) {
	base := newVerifConn()
	sc := &verifScript{conn: base, hwMask: hwMask}
	conn := &verifServerConn{verifConn: base, script: sc}
	sh := shape
	mk := func(tag string, n int) []*verifServerMsg {
		var l []*verifServerMsg
		for i := 0; i < n; i++ {
			l = append(l, sc.build(tag, sh%3, 1))
			sh /= 3
		}
		return l
	}
	sc.replies = [][]*verifServerMsg{mk("o", n1), mk("a", n2)}
	bcast := &net.UDPAddr{IP: net.IP{255, 255, 255, 255}, Port: 67}
	c, err := NewWithConn(conn, verifHW, WithTimeout(time.Hour), WithRetry(1), WithServerAddr(bcast))
	verifAssert(err == nil, "client-created")
	lease, err := c.Request(newVerifCtx())

	// what the rules prescribe, computed from the script
	var offer *verifServerMsg
	var late []*verifServerMsg // replies to DISCOVER that arrive after the offer was taken: same transaction id,
	// so they are legitimately candidates for completing the REQUEST
	for _, m := range sc.replies[0] {
		if offer != nil {
			late = append(late, m)
		} else if verifAnd(m.ownXID, verifIs(m, dhcpv4.MessageTypeOffer)) {
			offer = m
		}
	}
	verifAssert(len(sc.seen) >= 1, "discover-sent")
	if len(sc.seen) >= 1 {
		d := sc.seen[0]
		verifAssert(verifSame(d.ClientHWAddr, verifHW), "discover-carries-client-hwaddr")
		verifAssert(d.MessageType() == dhcpv4.MessageTypeDiscover, "first-message-is-discover")
	}
	if offer == nil {
		verifAssert(lease == nil && err != nil, "no-lease-without-offer")
		verifAssert(len(sc.seen) == 1, "no-request-without-offer")
		c.Close()
		verifReach("end")
		return
	}
	verifAssert(len(sc.seen) == 2, "request-sent-after-offer")
	if len(sc.seen) == 2 {
		r := sc.seen[1]
		verifAssert(r.MessageType() == dhcpv4.MessageTypeRequest, "second-message-is-request")
		verifAssert(verifSame(r.ClientHWAddr, verifHW), "request-carries-client-hwaddr")
		verifAssert(verifSame(r.Options[50], offer.yi), "request-asks-for-the-offered-address")
		if offer.sidKind != 0 {
			verifAssert(verifSame(r.Options[54], offer.sid), "request-names-the-offering-server")
		} else {
			_, has := r.Options[54]
			verifAssert(!has, "no-server-id-when-offer-had-none")
		}
		verifAssert(sc.dests[1] == net.Addr(bcast), "request-broadcast-to-configured-address")
	}
	// completion: the first ACK/NAK with own xid whose server identifier (typed reading) equals the offer's
	var final *verifServerMsg
	want := verifTypedSID(offer)
	for _, m := range append(late, sc.replies[1]...) {
		if final != nil {
			continue
		}
		typeOK := verifOr(verifIs(m, dhcpv4.MessageTypeAck), verifIs(m, dhcpv4.MessageTypeNak))
		got := verifTypedSID(m)
		sidOK := len(got) == len(want) && verifSame(got, want)
		if verifAnd(m.ownXID, verifAnd(typeOK, sidOK)) {
			final = m
		}
	}
	if final == nil {
		verifAssert(lease == nil && err != nil, "no-lease-without-matching-ack")
	} else if final.mt == uint8(dhcpv4.MessageTypeNak) {
		_, isNak := err.(*ErrNak)
		verifAssert(lease == nil && isNak, "nak-yields-nak-error")
	} else {
		verifAssert(err == nil && lease != nil, "ack-yields-lease")
		if lease != nil {
			verifAssert(verifSame(lease.Offer.YourIPAddr, offer.yi), "lease-made-of-that-offer")
			verifAssert(verifSame(lease.Offer.Options[54], offer.sid) || offer.sidKind == 0, "lease-offer-server-id")
			verifAssert(verifSame(lease.ACK.YourIPAddr, final.yi), "lease-made-of-that-ack")
			verifAssert(lease.ACK.MessageType() == dhcpv4.MessageTypeAck, "lease-ack-is-an-ack")
		}
	}
	c.Close()
	verifReach("end")
}

// VerifC13RenewRelease: renewal and release of a lease with symbolic addresses.
func VerifC13RenewRelease(n int, sidKind int) {
	base := newVerifConn()
	sc := &verifScript{conn: base}
	conn := &verifServerConn{verifConn: base, script: sc}
	var l []*verifServerMsg
	for i := 0; i < n; i++ {
		l = append(l, sc.build("r", sidKind, 1))
	}
	sc.replies = [][]*verifServerMsg{l}
	bcast := &net.UDPAddr{IP: net.IP{255, 255, 255, 255}, Port: 67}
	c, err := NewWithConn(conn, verifHW, WithTimeout(time.Hour), WithRetry(1), WithServerAddr(bcast))
	verifAssert(err == nil, "client-created")
	leased := verifBytes("leased", 4)
	sid := verifBytes("lease.sid", 4)
	mk := func(t dhcpv4.MessageType, yi []byte, tag string) *dhcpv4.DHCPv4 {
		return &dhcpv4.DHCPv4{OpCode: dhcpv4.OpcodeBootReply, HWType: 1, TransactionID: dhcpv4.TransactionID{9, 9, 9, 9}, ClientHWAddr: verifHW,
			YourIPAddr: net.IP(yi), Flags: verifU16(tag + ".flags"), Options: dhcpv4.Options{53: []byte{byte(t)}, 54: sid}}
	}
	// the address the server finally acknowledged (the leased one) need not be the one it offered
	offered := verifBytes("offered", 4)
	lease := &Lease{Offer: mk(dhcpv4.MessageTypeOffer, offered, "offer"), ACK: mk(dhcpv4.MessageTypeAck, leased, "ack")}
	nl, err := c.Renew(newVerifCtx(), lease)
	verifAssert(len(sc.seen) == 1, "renew-sends-one-request")
	if len(sc.seen) == 1 {
		r := sc.seen[0]
		verifAssert(r.MessageType() == dhcpv4.MessageTypeRequest, "renew-is-a-request")
		verifAssert(verifSame(r.ClientIPAddr.To4(), leased), "renew-asks-for-leased-address-in-ciaddr")
		verifAssert(r.IsUnicast(), "renew-is-unicast")
		_, has50 := r.Options[50]
		_, has54 := r.Options[54]
		verifAssert(!has50, "renew-without-requested-address-option")
		verifAssert(!has54, "renew-without-server-identifier-option")
		verifAssert(verifSame(r.ClientHWAddr, verifHW), "renew-carries-client-hwaddr")
	}
	var final *verifServerMsg
	for _, m := range l {
		if final != nil {
			continue
		}
		typeOK := verifOr(verifIs(m, dhcpv4.MessageTypeAck), verifIs(m, dhcpv4.MessageTypeNak))
		got := verifTypedSID(m)
		sidOK := len(got) == 4 && verifSame(got, sid)
		if verifAnd(m.ownXID, verifAnd(typeOK, sidOK)) {
			final = m
		}
	}
	if final == nil {
		verifAssert(nl == nil && err != nil, "no-renewal-without-matching-ack")
	} else if final.mt == uint8(dhcpv4.MessageTypeNak) {
		_, isNak := err.(*ErrNak)
		verifAssert(nl == nil && isNak, "nak-yields-nak-error")
	} else {
		verifAssert(err == nil && nl != nil, "ack-renews")
		if nl != nil {
			verifAssert(nl.Offer == lease.Offer, "renewed-lease-keeps-the-offer")
			verifAssert(verifSame(nl.ACK.YourIPAddr, final.yi), "renewed-lease-has-the-new-ack")
		}
	}
	// release: exactly one RELEASE for the leased address to the lease's server, port 67
	before := len(base.log)
	rerr := c.Release(lease)
	verifAssert(rerr == nil, "release-ok")
	// the destination the client was configured with is still what it was (later exchanges on
	// this client go there)
	verifAssert(verifSame(bcast.IP.To4(), []byte{255, 255, 255, 255}) && bcast.Port == 67, "configured-server-address-unchanged-by-release")
	verifAssert(c.serverAddr == bcast, "configured-server-address-unchanged-by-release")
	verifAssert(len(base.log) == before+1, "release-emits-exactly-one-datagram")
	if len(base.log) == before+1 {
		w := base.log[before]
		rel, perr := dhcpv4.FromBytes(w.data)
		verifAssert(perr == nil, "release-decodes")
		if perr == nil {
			verifAssert(rel.MessageType() == dhcpv4.MessageTypeRelease, "release-message-type")
			verifAssert(verifSame(rel.ClientIPAddr.To4(), leased), "release-for-the-leased-address")
			verifAssert(verifSame(rel.ClientHWAddr, verifHW), "release-carries-client-hwaddr")
			verifAssert(verifSame(rel.Options[54], sid), "release-names-the-server")
		}
		ua, isUDP := w.dest.(*net.UDPAddr)
		verifAssert(isUDP, "release-destination-is-udp")
		if isUDP {
			verifAssert(verifSame(ua.IP.To4(), sid), "release-sent-to-the-lease-server")
			verifAssert(ua.Port == 67, "release-sent-to-port-67")
		}
	}
	c.Close()
	verifReach("end")
}

// VerifC13ReleaseFault: the one transmission Release makes fails in the socket. Release makes no
// further attempt, and in particular emits no RELEASE to any destination other than the lease's
// server ("one RELEASE ... to the lease's server").
func VerifC13ReleaseFault() {
	base := newVerifConn()
	bcast := &net.UDPAddr{IP: net.IP{255, 255, 255, 255}, Port: 67}
	c, err := NewWithConn(base, verifHW, WithTimeout(time.Hour), WithRetry(1), WithServerAddr(bcast))
	verifAssert(err == nil, "client-created")
	leased := verifBytes("leased", 4)
	sid := verifBytes("lease.sid", 4)
	mk := func(t dhcpv4.MessageType, tag string) *dhcpv4.DHCPv4 {
		return &dhcpv4.DHCPv4{OpCode: dhcpv4.OpcodeBootReply, HWType: 1, TransactionID: dhcpv4.TransactionID{9, 9, 9, 9}, ClientHWAddr: verifHW,
			YourIPAddr: net.IP(leased), Flags: verifU16(tag + ".flags"), Options: dhcpv4.Options{53: []byte{byte(t)}, 54: sid}}
	}
	lease := &Lease{Offer: mk(dhcpv4.MessageTypeOffer, "offer"), ACK: mk(dhcpv4.MessageTypeAck, "ack")}
	base.mu.Lock()
	attempts, sent := base.writes, len(base.log)
	base.failAt = base.writes
	base.mu.Unlock()
	_ = c.Release(lease) // what Release reports for the failed write is not part of the property
	base.mu.Lock()
	verifAssert(base.writes == attempts+1, "release-makes-exactly-one-transmission-attempt")
	verifAssert(len(base.log) == sent, "no-release-to-another-destination")
	base.mu.Unlock()
	c.Close()
	verifReach("end")
}

// VerifC13LongHW: a client whose hardware address is hwlen symbolic bytes (1..16; 8 is EUI-64, 16
// fills the chaddr field) gets one OFFER and one ACK from the same server: DISCOVER, REQUEST and
// the renewal REQUEST all carry that address whole, and the lease is made.
func VerifC13LongHW(hwlen int) {
	hw := net.HardwareAddr(verifBytes("hw", hwlen))
	base := newVerifConn()
	sc := &verifScript{conn: base, hw: hw}
	conn := &verifServerConn{verifConn: base, script: sc}
	offer, ack := sc.build("o", 1, 1), sc.build("a", 1, 1)
	verifAssume(offer.ownXID)
	verifAssume(ack.ownXID)
	verifAssume(offer.mt == uint8(dhcpv4.MessageTypeOffer))
	verifAssume(ack.mt == uint8(dhcpv4.MessageTypeAck))
	ack.sid = offer.sid
	renewAck := sc.build("r", 1, 1)
	verifAssume(renewAck.ownXID)
	verifAssume(renewAck.mt == uint8(dhcpv4.MessageTypeAck))
	renewAck.sid = offer.sid
	sc.replies = [][]*verifServerMsg{{offer}, {ack}, {renewAck}}
	bcast := &net.UDPAddr{IP: net.IP{255, 255, 255, 255}, Port: 67}
	c, err := NewWithConn(conn, hw, WithTimeout(time.Hour), WithRetry(1), WithServerAddr(bcast))
	verifAssert(err == nil, "client-created")
	lease, err := c.Request(newVerifCtx())
	verifAssert(err == nil && lease != nil, "ack-yields-lease")
	verifAssert(len(sc.seen) == 2, "request-follows-offer")
	for _, m := range sc.seen {
		verifAssert(verifSame(m.ClientHWAddr, hw), "request-carries-client-hwaddr")
	}
	if lease != nil {
		_, rerr := c.Renew(newVerifCtx(), lease)
		verifAssert(rerr == nil, "ack-renews")
		verifAssert(len(sc.seen) == 3, "renew-sends-one-request")
		if len(sc.seen) == 3 {
			verifAssert(verifSame(sc.seen[2].ClientHWAddr, hw), "renew-carries-client-hwaddr")
		}
	}
	c.Close()
	verifReach("end")
}
