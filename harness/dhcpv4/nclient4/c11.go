//go:build verif

package nclient4

import (
	"context"
	"net"
	"sync/atomic"
	"time"

	"github.com/insomniacslk/dhcp/dhcpv4"
)

var verifXID = dhcpv4.TransactionID{0xa1, 0xb2, 0xc3, 0xd4}

type verifMsg struct {
	at                 int64
	xid                dhcpv4.TransactionID
	op, hwLast, mt     uint8
	acceptable, routed bool // acceptable: own xid, BOOTREPLY, own hw, matcher accepts; routed: reaches the call's channel
}

type verifCall struct {
	conn       *verifConn
	c          *Client
	T          int64
	tries      int
	req        *dhcpv4.DHCPv4
	dest       *net.UDPAddr
	msgs       []verifMsg
	ctxAt      int64 // -1: never
	closeAt    int64 // -1: never
	start, end int64
	resp       *dhcpv4.DHCPv4
	err        error
	ctxErr     error
	budget     int64
}

func verifSameXID(a, b dhcpv4.TransactionID) bool {
	return (a[0]^b[0])|(a[1]^b[1])|(a[2]^b[2])|(a[3]^b[3]) == 0
}

// verifRunCall drives one SendAndRead against an environment with nmsgs datagrams at symbolic
// non-decreasing instants, optional context cancellation and optional Close at symbolic instants.
// The matcher accepts DHCPOFFER messages.
func verifRunCall(tries, nmsgs, ctxMode, closeMode int) *verifCall {
	return verifRunCallWith(tries, nmsgs, ctxMode, closeMode, -1)
}

func verifDest() *net.UDPAddr { return &net.UDPAddr{IP: net.IP{255, 255, 255, 255}, Port: 67} }

// WithTimeoutNs is WithTimeout for a nanosecond count.
func WithTimeoutNs(ns int64) ClientOpt { return WithTimeout(time.Duration(ns)) }

func verifRunCallWith(tries, nmsgs, ctxMode, closeMode, garbageLen int) *verifCall {
	k := &verifCall{conn: newVerifConn(), tries: tries, ctxAt: -1, closeAt: -1}
	k.T = int64(verifU32("T"))
	verifAssume(k.T >= 1)
	c, err := NewWithConn(k.conn, verifHW, WithTimeout(time.Duration(k.T)), WithRetry(tries))
	verifAssert(err == nil, "client-created")
	k.c = c
	k.req = &dhcpv4.DHCPv4{OpCode: dhcpv4.OpcodeBootRequest, HWType: 1, TransactionID: verifXID, ClientHWAddr: verifHW, Options: dhcpv4.Options{53: []byte{1}}}
	k.dest = verifDest()
	if garbageLen >= 0 {
		k.conn.deliver(0, verifBytes("garbage", garbageLen))
	}
	prev := int64(0)
	for i := 0; i < nmsgs; i++ {
		data, xid, op, hw, mt := verifReply("m")
		at := int64(verifU64("m.at"))
		verifAssume(at >= prev)
		verifAssume(at <= 1<<36)
		prev = at
		m := verifMsg{at: at, xid: xid, op: op, hwLast: hw, mt: mt}
		m.routed = verifAnd(verifSameXID(xid, verifXID), verifAnd(op == 2, hw == verifHW[5]))
		m.acceptable = verifAnd(m.routed, mt == 2)
		k.msgs = append(k.msgs, m)
		k.conn.deliver(at, data)
	}
	ctx := newVerifCtx()
	if ctxMode != 0 {
		k.ctxAt = int64(verifU64("ctx.at"))
		verifAssume(k.ctxAt >= 0)
		verifAssume(k.ctxAt <= 1<<36)
		// the context ends by cancellation or by its deadline (the two errors of package context),
		// or with an error of its own
		switch ctxMode {
		case 2:
			k.ctxErr = context.Canceled
		case 3:
			k.ctxErr = context.DeadlineExceeded
		default:
			k.ctxErr = errVerifCanceled
		}
		ctx.endAt(k.ctxAt, k.ctxErr)
	}
	if closeMode == 2 {
		k.conn.closeErr = errVerifCloseFailed
	}
	if closeMode != 0 {
		k.closeAt = int64(verifU64("close.at"))
		verifAssume(k.closeAt >= 0)
		verifAssume(k.closeAt <= 1<<36)
		verifAt(k.closeAt, func() { c.Close() })
	}
	w := k.T
	for i := 0; i < tries; i++ {
		k.budget += w
		w += w
	}
	k.start = verifNow()
	k.resp, k.err = c.SendAndRead(ctx, k.dest, k.req, IsMessageType(dhcpv4.MessageTypeOffer))
	k.end = verifNow()
	return k
}

// VerifC11Complete: timeout, cancellation, Close and cleanup.
func VerifC11Complete(tries, nmsgs, ctxMode, closeMode int) {
	k := verifRunCall(tries, nmsgs, ctxMode, closeMode)
	el := k.end - k.start
	verifObserveInt("elapsed", int(el))
	verifAssert(el <= k.budget, "returns-within-T-times-2^tries-1")
	if k.ctxAt >= 0 {
		verifAssert(k.end <= k.ctxAt, "returns-at-once-when-context-ends")
		if k.err == k.ctxErr {
			verifAssert(k.end == k.ctxAt, "context-error-at-cancellation-instant")
		}
	}
	if k.closeAt >= 0 {
		verifAssert(k.end <= k.closeAt, "returns-at-once-when-client-closed")
	}
	if k.ctxAt >= 0 {
		// the context ended strictly before anything else could end the call: its error is returned
		first := k.ctxAt < k.budget
		if k.closeAt >= 0 {
			first = verifAnd(first, k.ctxAt < k.closeAt)
		}
		for _, m := range k.msgs {
			first = verifAnd(first, verifOr(!m.acceptable, k.ctxAt < m.at))
		}
		verifAssert(verifOr(!first, k.err == k.ctxErr), "context-error-when-the-context-ends-first")
	}
	for _, m := range k.msgs {
		// an acceptable datagram ends the call when it arrives
		verifAssert(verifOr(!m.acceptable, k.end <= m.at), "returns-as-soon-as-acceptable-response-arrives")
	}
	if k.resp == nil {
		verifAssert(k.err != nil, "error-when-no-response")
		if k.err != k.ctxErr {
			verifAssert(k.err == ErrNoResponse, "no-response-error")
		}
	} else {
		verifAssert(k.err == nil, "no-error-with-response")
	}
	// cleanup: the transaction id is reusable immediately
	k.c.pendingMu.Lock()
	_, still := k.c.pending[verifXID]
	k.c.pendingMu.Unlock()
	verifAssert(!still, "transaction-id-released")
	if !k.c.isClosed() {
		_, cancel, err := k.c.send(k.dest, k.req)
		verifAssert(err == nil, "transaction-id-reusable")
		if err == nil {
			cancel()
		}
	}
	cerr := k.c.Close()
	verifAssert(cerr == nil || k.conn.closeErr != nil, "close-returns")
	verifSettle()
	verifAssert(verifGoroutines() == 0, "no-goroutine-left-after-close")
	verifReach("end")
}

// VerifC11Burst: a burst of n datagrams that are routed to the call (own transaction id,
// BOOTREPLY, own hardware address) but rejected by its matcher (DHCPACK for an OFFER matcher),
// more than the per-transaction buffer holds, at symbolic strictly increasing instants; optionally
// (last != 0) followed by an acceptable one. The call still ends on schedule (or with the
// acceptable response), the id is released and Close returns leaving no goroutine.
// same != 0: the n datagrams arrive at one and the same instant.
func VerifC11Burst(tries, n, last, same int) {
	k := &verifCall{conn: newVerifConn(), tries: tries, ctxAt: -1, closeAt: -1}
	k.T = int64(verifU32("T"))
	verifAssume(k.T >= 1)
	c, err := NewWithConn(k.conn, verifHW, WithTimeout(time.Duration(k.T)), WithRetry(tries))
	verifAssert(err == nil, "client-created")
	k.c = c
	k.req = &dhcpv4.DHCPv4{OpCode: dhcpv4.OpcodeBootRequest, HWType: 1, TransactionID: verifXID, ClientHWAddr: verifHW, Options: dhcpv4.Options{53: []byte{1}}}
	k.dest = verifDest()
	w := k.T
	for i := 0; i < tries; i++ {
		k.budget += w
		w += w
	}
	prev := int64(0)
	var burst [][]byte
	for i := 0; i < n; i++ {
		at := prev
		if same == 0 || i == 0 {
			at = int64(verifU64("m.at"))
			verifAssume(at > prev) // strictly later: the order of the datagrams among themselves is fixed
			verifAssume(at <= 1<<36)
		}
		// same != 0: the whole burst arrives at one instant, so that the receive loop finds the
		// per-transaction buffer full before the caller has consumed anything
		prev = at
		p := &dhcpv4.DHCPv4{OpCode: dhcpv4.OpcodeBootReply, HWType: 1, TransactionID: verifXID, ClientHWAddr: verifHW, Options: dhcpv4.Options{53: []byte{5}, 12: []byte{byte(i)}}}
		if same != 0 {
			burst = append(burst, p.ToBytes())
			if i == n-1 {
				from := &net.UDPAddr{IP: net.IP{192, 0, 2, 1}, Port: 67}
				verifAt(at, func() { // one event: the datagrams are queued back to back
					for _, d := range burst {
						select {
						case k.conn.in <- verifDgram{data: d, from: from}:
						default:
						}
					}
				})
			}
			continue
		}
		k.conn.deliver(at, p.ToBytes())
	}
	offerAt := int64(-1)
	if last != 0 {
		offerAt = int64(verifU64("offer.at"))
		verifAssume(offerAt > prev)
		verifAssume(offerAt <= 1<<36)
		p := &dhcpv4.DHCPv4{OpCode: dhcpv4.OpcodeBootReply, HWType: 1, TransactionID: verifXID, ClientHWAddr: verifHW, Options: dhcpv4.Options{53: []byte{2}}}
		k.conn.deliver(offerAt, p.ToBytes())
	}
	k.start = verifNow()
	k.resp, k.err = c.SendAndRead(newVerifCtx(), k.dest, k.req, IsMessageType(dhcpv4.MessageTypeOffer))
	k.end = verifNow()
	verifObserveInt("elapsed", int(k.end-k.start))
	verifAssert(k.end-k.start <= k.budget, "returns-within-T-times-2^tries-1")
	if k.resp != nil {
		verifAssert(k.err == nil, "no-error-with-response")
		verifAssert(k.resp.MessageType() == dhcpv4.MessageTypeOffer, "response-satisfies-matcher")
		verifAssert(last != 0 && k.end == offerAt, "returns-as-soon-as-acceptable-response-arrives")
	} else {
		verifAssert(k.err == ErrNoResponse, "no-response-error")
		verifAssert(k.end-k.start == k.budget, "fails-at-T-times-2^n-1")
		verifAssert(last == 0 || offerAt >= k.budget, "returns-as-soon-as-acceptable-response-arrives")
	}
	c.pendingMu.Lock()
	_, still := c.pending[verifXID]
	c.pendingMu.Unlock()
	verifAssert(!still, "transaction-id-released")
	// let the rest of the burst arrive while no call is pending, then close
	done := make(chan struct{})
	verifAt(1<<36+1, func() { close(done) })
	<-done
	cerr := c.Close()
	verifAssert(cerr == nil, "close-returns")
	verifSettle()
	verifAssert(verifGoroutines() == 0, "no-goroutine-left-after-close")
	verifReach("end")
}

// VerifC11ReadFault: the socket starts failing reads at a symbolic instant while a call is
// pending (matcher != 0: with a matcher; 0: without, any message with the id is acceptable). The
// call still ends within its schedule with an error (never with a nil response and a nil error),
// the id is released and Close returns leaving no goroutine.
func VerifC11ReadFault(tries, matcher int) {
	k := &verifCall{conn: newVerifConn(), tries: tries, ctxAt: -1, closeAt: -1}
	k.T = int64(verifU32("T"))
	verifAssume(k.T >= 1)
	c, err := NewWithConn(k.conn, verifHW, WithTimeout(time.Duration(k.T)), WithRetry(tries))
	verifAssert(err == nil, "client-created")
	k.c = c
	k.req = &dhcpv4.DHCPv4{OpCode: dhcpv4.OpcodeBootRequest, HWType: 1, TransactionID: verifXID, ClientHWAddr: verifHW, Options: dhcpv4.Options{53: []byte{1}}}
	k.dest = verifDest()
	w := k.T
	for i := 0; i < tries; i++ {
		k.budget += w
		w += w
	}
	at := int64(verifU64("fault.at"))
	verifAssume(at >= 0)
	verifAssume(at < k.budget)
	k.conn.failReadAt(at)
	var m Matcher
	if matcher != 0 {
		m = IsMessageType(dhcpv4.MessageTypeOffer)
	}
	k.start = verifNow()
	k.resp, k.err = c.SendAndRead(newVerifCtx(), k.dest, k.req, m)
	k.end = verifNow()
	verifAssert(k.resp == nil, "no-response")
	verifAssert(k.err != nil, "error-when-no-response")
	verifAssert(k.end-k.start <= k.budget, "returns-within-T-times-2^tries-1")
	c.pendingMu.Lock()
	_, still := c.pending[verifXID]
	c.pendingMu.Unlock()
	verifAssert(!still, "transaction-id-released")
	c.Close()
	verifSettle()
	verifAssert(verifGoroutines() == 0, "no-goroutine-left-after-close")
	verifReach("end")
}

// VerifC11CloseAtOnce: Close immediately after the client was created (the receive loop may not
// have run a single statement yet), and Close right after a call returned: when Close returns the
// receive loop has stopped — it does not start another read after that instant.
func VerifC11CloseAtOnce(callFirst int) {
	conn := newVerifConn()
	c, err := NewWithConn(conn, verifHW, WithTimeout(time.Duration(int64(verifU32("T"))+1)), WithRetry(1))
	verifAssert(err == nil, "client-created")
	if callFirst != 0 {
		req := &dhcpv4.DHCPv4{OpCode: dhcpv4.OpcodeBootRequest, HWType: 1, TransactionID: verifXID, ClientHWAddr: verifHW, Options: dhcpv4.Options{53: []byte{1}}}
		_, _ = c.SendAndRead(newVerifCtx(), verifDest(), req, nil)
	}
	cerr := c.Close()
	verifAssert(cerr == nil, "close-returns")
	atomic.StoreUint32(&conn.closeReturned, 1)
	verifSettle()
	verifAssert(atomic.LoadUint32(&conn.lateReads) == 0, "receive-loop-stopped-when-close-returns")
	verifAssert(verifGoroutines() == 0, "no-goroutine-left-after-close")
	verifReach("end")
}

// VerifC10SlowMatcher: a caller that is busy inside its matcher while a burst arrives. n datagrams
// routed to the call arrive in one instant during the second try; all are rejected by the matcher
// except the last, which is acceptable; the matcher's first invocation takes S (symbolic) of
// virtual time, so the receive loop finds the transaction's buffer full and has to wait for the
// caller. The call returns the acceptable datagram — the first one in arrival order — as soon as
// the matcher has got to it.
func VerifC10SlowMatcher(n, late int) {
	k := &verifCall{conn: newVerifConn(), tries: 2, ctxAt: -1, closeAt: -1}
	k.T = int64(verifU32("T"))
	verifAssume(k.T >= 1)
	c, err := NewWithConn(k.conn, verifHW, WithTimeout(time.Duration(k.T)), WithRetry(2))
	verifAssert(err == nil, "client-created")
	k.c = c
	k.req = &dhcpv4.DHCPv4{OpCode: dhcpv4.OpcodeBootRequest, HWType: 1, TransactionID: verifXID, ClientHWAddr: verifHW, Options: dhcpv4.Options{53: []byte{1}}}
	k.dest = verifDest()
	a := int64(verifU64("burst.at"))
	s := int64(verifU64("matcher.takes"))
	verifAssume(a > k.T) // during the second try
	verifAssume(a <= 1<<36)
	verifAssume(s > 0)
	verifAssume(s < 3*k.T)
	if late == 0 {
		verifAssume(a+s < 3*k.T) // the matcher is done before the call's schedule ends
	} else {
		// the matcher is still busy when the last deadline passes, with datagrams waiting
		verifAssume(a < 3*k.T)
		verifAssume(a+s > 3*k.T)
	}
	var burst [][]byte
	for i := 0; i < n; i++ {
		mt := byte(5) // DHCPACK: rejected by the OFFER matcher
		if i == n-1 && late == 0 {
			mt = 2
		}
		p := &dhcpv4.DHCPv4{OpCode: dhcpv4.OpcodeBootReply, HWType: 1, TransactionID: verifXID, ClientHWAddr: verifHW, Options: dhcpv4.Options{53: []byte{mt}, 12: []byte{byte(i)}}}
		burst = append(burst, p.ToBytes())
	}
	from := &net.UDPAddr{IP: net.IP{192, 0, 2, 1}, Port: 67}
	verifAt(a, func() {
		for _, d := range burst {
			select {
			case k.conn.in <- verifDgram{data: d, from: from}:
			default:
			}
		}
	})
	calls := 0
	var seen []byte
	matcher := func(p *dhcpv4.DHCPv4) bool {
		calls++
		if calls == 1 {
			<-time.After(time.Duration(s))
		}
		seen = append(seen, p.Options[12]...)
		return p.MessageType() == dhcpv4.MessageTypeOffer
	}
	k.start = verifNow()
	k.resp, k.err = c.SendAndRead(newVerifCtx(), k.dest, k.req, matcher)
	k.end = verifNow()
	if late != 0 {
		// nothing acceptable arrived: the call ends, without a response, as soon as its matcher
		// gives control back after the last deadline (which of the ready events the call looks at
		// first is the runtime's choice: every choice is explored)
		verifAssert(k.resp == nil && k.err == ErrNoResponse, "no-response-error")
		verifAssert(k.end == a+s, "returns-at-once-when-the-schedule-has-ended")
		c.Close()
		verifSettle()
		verifAssert(verifGoroutines() == 0, "no-goroutine-left-after-close")
		verifReach("end")
		return
	}
	verifAssert(k.err == nil && k.resp != nil, "first-acceptable-datagram-in-arrival-order-ends-the-call")
	if k.resp != nil {
		verifAssert(k.resp.MessageType() == dhcpv4.MessageTypeOffer, "response-satisfies-matcher")
		verifAssert(len(k.resp.Options[12]) == 1 && k.resp.Options[12][0] == byte(n-1), "response-is-a-datagram-that-arrived-during-the-call")
		verifAssert(k.end == a+s, "returns-as-soon-as-acceptable-response-arrives")
	}
	// the matcher saw every datagram of the burst, in arrival order, none dropped
	verifAssert(len(seen) == n, "no-routed-datagram-dropped")
	for i := range seen {
		verifAssert(seen[i] == byte(i), "datagrams-judged-in-arrival-order")
	}
	c.Close()
	verifSettle()
	verifAssert(verifGoroutines() == 0, "no-goroutine-left-after-close")
	verifReach("end")
}

// VerifC11CloseTwice: two goroutines close the same client at the same time (a deferred Close and
// a shutdown watcher), every interleaving at scheduling points (blocking operations and atomic
// reads) explored: both calls return, nothing panics, no goroutine is left.
func VerifC11CloseTwice(withCall int) {
	verifSchedule(true)
	verifScheduleAtomic(true)
	conn := newVerifConn()
	c, err := NewWithConn(conn, verifHW, WithTimeout(time.Duration(int64(verifU32("T"))+1)), WithRetry(1))
	verifAssert(err == nil, "client-created")
	if withCall != 0 {
		req := &dhcpv4.DHCPv4{OpCode: dhcpv4.OpcodeBootRequest, HWType: 1, TransactionID: verifXID, ClientHWAddr: verifHW, Options: dhcpv4.Options{53: []byte{1}}}
		_, _ = c.SendAndRead(newVerifCtx(), verifDest(), req, nil)
	}
	// the closers are released together (natively this makes them overlap as much as possible; the
	// schedule-dependent counterexample is repeated there until it shows)
	done := make(chan error, 2)
	var gate int32
	for i := 0; i < 2; i++ {
		go func() { verifGate(&gate, 2); done <- c.Close() }()
	}
	e1, e2 := <-done, <-done
	verifAssert(e1 == nil && e2 == nil, "close-returns")
	verifSettle()
	verifAssert(verifGoroutines() == 0, "no-goroutine-left-after-close")
	verifReach("end")
}


// VerifC10Large (C10): an OFFER bearing the call's transaction id and hardware address whose wire
// form is exactly `size` bytes (a long option 224, split per RFC 3396, ends right before End)
// arrives at a symbolic instant inside the schedule: the call returns that datagram, whole. Sizes up
// to MaxMessageSize (1500) are what the client announces it takes.
func VerifC10Large(size, tries int) {
	k := &verifCall{conn: newVerifConn(), tries: tries, ctxAt: -1, closeAt: -1}
	k.T = int64(verifU32("T"))
	verifAssume(k.T >= 1)
	c, err := NewWithConn(k.conn, verifHW, WithTimeout(time.Duration(k.T)), WithRetry(tries))
	verifAssert(err == nil, "client-created")
	k.c = c
	k.req = verifRequest()
	k.dest = verifDest()
	w := k.T
	for i := 0; i < tries; i++ {
		k.budget += w
		w += w
	}
	v := -1
	for cand := 0; cand <= size; cand++ {
		if 240+3+cand+2*((cand+254)/255)+1 == size {
			v = cand
		}
	}
	verifAssert(v >= 4, "harness-size-reachable")
	val := append(verifBytes("val.head", 2), make([]byte, v-4)...)
	val = append(val, verifBytes("val.tail", 2)...)
	offer := &dhcpv4.DHCPv4{OpCode: dhcpv4.OpcodeBootReply, HWType: 1, TransactionID: verifXID, ClientHWAddr: verifHW,
		Options: dhcpv4.Options{53: []byte{2}, 224: val}}
	want := offer.ToBytes()
	verifAssert(len(want) == size, "harness-size-reached")
	rat := int64(verifU64("reply.at"))
	verifAssume(rat >= 0)
	verifAssume(rat < k.budget)
	k.conn.deliver(rat, want)
	k.start = verifNow()
	k.resp, k.err = c.SendAndRead(newVerifCtx(), k.dest, k.req, IsMessageType(dhcpv4.MessageTypeOffer))
	k.end = verifNow()
	verifAssert(k.resp != nil && k.err == nil, "acceptable-datagram-ends-the-call")
	if k.resp != nil {
		verifAssert(k.end-k.start == rat, "returns-when-the-acceptable-datagram-arrives")
		verifAssert(verifSame(k.resp.ToBytes(), want), "response-is-the-datagram-that-arrived")
	}
	c.Close()
	verifReach("end")
}
