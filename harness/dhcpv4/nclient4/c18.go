//go:build verif

package nclient4

// C18: the raw UDP connection emits valid IPv4/UDP frames and reads only its own.

import (
	"errors"
	"net"
	"time"
)

// refOnesSum is RFC 1071 §4.1: 16-bit one's complement sum of the data (odd length padded with a
// zero byte), deferred carries folded at the end.
func refOnesSum(acc uint32, b []byte) uint32 {
	i := 0
	for ; i+1 < len(b); i += 2 {
		acc += uint32(b[i])<<8 | uint32(b[i+1])
	}
	if i < len(b) {
		acc += uint32(b[i]) << 8
	}
	return acc
}

func refFold(acc uint32) uint16 {
	acc = (acc & 0xffff) + (acc >> 16)
	acc = (acc & 0xffff) + (acc >> 16)
	return uint16(acc)
}

func verifAddr4(name string, form int) (ip net.IP, want []byte) {
	b := verifBytes(name, 4)
	if form == 0 {
		return net.IP(b), b
	}
	ip = make(net.IP, 16)
	ip[10], ip[11] = 0xff, 0xff
	copy(ip[12:], b)
	return ip, b
}

// VerifC18Write: udp4pkt / WriteTo with symbolic ports, addresses (4- or 16-byte form) and an
// n-byte symbolic payload; the frame is validated by the RFC 791 / 768 / 1071 reference.
func VerifC18Write(n, forms int) {
	payload := verifBytes("payload", n)
	srcIP, wsrc := verifAddr4("src", forms%2)
	dstIP, wdst := verifAddr4("dst", forms/2%2)
	sport, dport := verifU16("sport"), verifU16("dport")
	raw := &verifRawConn{}
	conn := NewBroadcastUDPConn(raw, &net.UDPAddr{IP: srcIP, Port: int(sport)})
	wn, err := conn.WriteTo(payload, &net.UDPAddr{IP: dstIP, Port: int(dport)})
	verifAssert(err == nil, "write-ok")
	verifAssert(len(raw.sent) == 1, "one-frame-per-datagram")
	if len(raw.sent) != 1 {
		return
	}
	_ = wn
	f := raw.sent[0]
	verifObserve("frame", f)
	verifAssert(len(f) == 28+n, "frame-length")
	if len(f) != 28+n {
		return
	}
	verifAssert(f[0] == 0x45, "version-4-header-20-bytes")
	verifAssert(int(f[2])<<8|int(f[3]) == 28+n, "ip-total-length")
	verifAssert(f[9] == 17, "protocol-udp")
	verifAssert(verifSame(f[12:16], wsrc), "source-address")
	verifAssert(verifSame(f[16:20], wdst), "destination-address")
	verifAssert(refFold(refOnesSum(0, f[:20])) == 0xffff, "ip-header-checksum-verifies")
	verifAssert(uint16(f[20])<<8|uint16(f[21]) == sport, "source-port")
	verifAssert(uint16(f[22])<<8|uint16(f[23]) == dport, "destination-port")
	verifAssert(int(f[24])<<8|int(f[25]) == 8+n, "udp-length")
	verifAssert(verifSame(f[28:], payload), "payload-unchanged")
	// the UDP checksum (RFC 768) is verified by VerifC18WriteContract with checksum() summarised by its
	// contract: the direct query is out of reach for every solver here, even for an empty payload
	verifReach("end")
}

type verifRawConn struct {
	sent   [][]byte
	frames [][]byte
	pos    int
	hold   chan struct{} // if set: the first WriteTo stays inside the socket until hold is closed
	inside chan struct{} // closed when that WriteTo has entered the socket
	held   bool
	short  int // if > 0: the first WriteTo reports that many bytes written (and no error)
}

var errVerifNoMoreFrames = errors.New("verif: no more frames")

func (c *verifRawConn) ReadFrom(b []byte) (int, net.Addr, error) {
	if c.pos >= len(c.frames) {
		return 0, nil, errVerifNoMoreFrames
	}
	f := c.frames[c.pos]
	c.pos++
	return copy(b, f), nil, nil
}
func (c *verifRawConn) WriteTo(b []byte, a net.Addr) (int, error) {
	if c.hold != nil && !c.held {
		c.held = true
		close(c.inside)
		<-c.hold // the frame is still the caller's while the socket works on it
	}
	c.sent = append(c.sent, append([]byte(nil), b...)) // what leaves is what b holds when the socket is done
	if c.short > 0 && len(c.sent) == 1 && c.short < len(b) {
		return c.short, nil
	}
	return len(b), nil
}
func (c *verifRawConn) Close() error                       { return nil }
func (c *verifRawConn) LocalAddr() net.Addr                { return nil }
func (c *verifRawConn) SetDeadline(t time.Time) error      { return nil }
func (c *verifRawConn) SetReadDeadline(t time.Time) error  { return nil }
func (c *verifRawConn) SetWriteDeadline(t time.Time) error { return nil }

// ---- assume-guarantee for the UDP checksum ----
//
// Contract of checksum(buf, initial) (RFC 1071 arithmetic): with S = initial + sum of the
// big-endian 16-bit words of buf (odd tail padded with a zero byte),
//     r ≡ S (mod 65535),  0 <= r <= 65535,  r == 0 iff S == 0.
// VerifC18ChecksumContract proves it on the real code for every buffer of n bytes;
// VerifC18WriteContract verifies the whole frame with every call of checksum replaced by it.

func verifWordSum(buf []byte) uint64 {
	var s uint64
	i := 0
	for ; i+1 < len(buf); i += 2 {
		s += uint64(buf[i])<<8 | uint64(buf[i+1])
	}
	if i < len(buf) {
		s += uint64(buf[i]) << 8
	}
	return s
}

func verifChecksumContract(buf []byte, initial uint16) uint16 {
	r := verifU16("cksum")
	s := uint64(initial) + verifWordSum(buf)
	verifAssume(uint64(r)%65535 == s%65535)
	verifAssume((r == 0) == (s == 0))
	return r
}

// VerifC18ChecksumContract: the real checksum() satisfies the contract for every n-byte buffer
// and every initial value.
func VerifC18ChecksumContract(n int) {
	buf := verifBytes("buf", n)
	initial := verifU16("initial")
	r := checksum(buf, initial)
	s := uint64(initial) + verifWordSum(buf)
	verifAssert(uint64(r)%65535 == s%65535, "checksum-congruent-to-word-sum-mod-65535")
	verifAssert((r == 0) == (s == 0), "checksum-zero-iff-sum-zero")
	verifObserveInt("checksum", int(r))
	verifReach("end")
}

// VerifC18WriteContract: UDP checksum of the emitted frame, n-byte payload, with checksum()
// replaced by its contract; the receiver's RFC 768 verification is the flat one's complement sum.
func VerifC18WriteContract(n, forms int) {
	payload := verifBytes("payload", n)
	srcIP, _ := verifAddr4("src", forms%2)
	dstIP, _ := verifAddr4("dst", forms/2%2)
	sport, dport := verifU16("sport"), verifU16("dport")
	verifOverride("github.com/insomniacslk/dhcp/dhcpv4/nclient4.checksum", verifChecksumContract)
	// through the exported connection (not the internal frame builder, whose signature is the
	// library's own business)
	raw := &verifRawConn{}
	conn := NewBroadcastUDPConn(raw, &net.UDPAddr{IP: srcIP, Port: int(sport)})
	_, werr := conn.WriteTo(payload, &net.UDPAddr{IP: dstIP, Port: int(dport)})
	verifOverride("github.com/insomniacslk/dhcp/dhcpv4/nclient4.checksum", nil)
	verifAssert(werr == nil && len(raw.sent) == 1, "one-frame-per-datagram")
	if len(raw.sent) != 1 {
		return
	}
	f := raw.sent[0]
	verifAssert(len(f) == 28+n, "frame-length")
	if len(f) != 28+n {
		return
	}
	ck := uint64(f[26])<<8 | uint64(f[27])
	// receiver: sum of pseudo header, UDP header (with the checksum field) and data must be
	// congruent to 0xffff in one's complement arithmetic, i.e. ≡ 0 (mod 65535) and non-zero
	total := verifWordSum(f[12:20]) + 17 + uint64(8+n) + verifWordSum(f[20:28]) + verifWordSum(f[28:])
	verifAssert(verifOr(ck == 0, verifAnd(total%65535 == 0, total != 0)), "udp-checksum-verifies")
	verifReach("end")
}

// ---- read side ----

// refFrame is the reference reading of a received link-layer payload: ok=false means "not a
// well-formed IPv4/UDP frame for the bound port/address": skipped.
func refFrame(f []byte, boundIP []byte, boundPort uint16) (payload []byte, srcIP []byte, srcPort uint16, ok bool) {
	if len(f) < 20 {
		return nil, nil, 0, false
	}
	if f[0]>>4 != 4 {
		return nil, nil, 0, false
	}
	ihl := int(f[0]&0x0f) * 4
	total := int(f[2])<<8 | int(f[3])
	if ihl < 20 || ihl > total || total > len(f) {
		return nil, nil, 0, false
	}
	if f[9] != 17 {
		return nil, nil, 0, false
	}
	if total-ihl < 8 {
		return nil, nil, 0, false
	}
	u := f[ihl:]
	dport := uint16(u[2])<<8 | uint16(u[3])
	if dport != boundPort {
		return nil, nil, 0, false
	}
	if boundIP != nil && !verifSame(f[16:20], boundIP) {
		return nil, nil, 0, false
	}
	return f[ihl+8 : total], f[12:16], uint16(u[0])<<8 | uint16(u[1]), true
}

// VerifC18Read: one received frame of flen symbolic bytes (IP header with any IHL, UDP header,
// payload, padding), bound port 68, bound address present when withAddr != 0; buffer of bufLen bytes.
func VerifC18Read(flen, withAddr, bufLen int) {
	f := verifBytes("frame", flen)
	raw := &verifRawConn{frames: [][]byte{f}}
	var boundIP []byte
	bound := &net.UDPAddr{Port: 68}
	if withAddr != 0 {
		boundIP = verifBytes("bound", 4)
		bound.IP = net.IP(boundIP)
		if withAddr == 2 {
			// the same address in its 16-byte form (what net.IPv4 and net.ParseIP return)
			bound.IP = make(net.IP, 16)
			bound.IP[10], bound.IP[11] = 0xff, 0xff
			copy(bound.IP[12:], boundIP)
		}
	}
	conn := NewBroadcastUDPConn(raw, bound)
	b := make([]byte, bufLen)
	n, addr, err := conn.ReadFrom(b)
	want, wsrc, wport, ok := refFrame(f, boundIP, 68)
	if ok {
		verifAssert(err == nil, "well-formed-frame-is-returned")
		if err == nil {
			m := len(want)
			if m > bufLen {
				m = bufLen
			}
			verifAssert(n == m, "payload-length-from-ip-total-length-never-padding")
			if n == m {
				verifAssert(verifSame(b[:n], want[:m]), "exactly-the-udp-payload")
			}
			ua, isUDP := addr.(*net.UDPAddr)
			verifAssert(isUDP, "source-is-udp-address")
			if isUDP {
				verifAssert(verifSame(ua.IP, wsrc), "source-address")
				verifAssert(ua.Port == int(wport), "source-port")
			}
			verifObserve("payload", b[:n])
		}
	} else {
		verifAssert(err == errVerifNoMoreFrames, "other-frames-are-skipped")
	}
	verifObserveInt("returned", verifB2I(err == nil))
	verifReach("end")
}

func verifB2I(b bool) int {
	if b {
		return 1
	}
	return 0
}

// VerifC18ReadSeq: two frames in a row; the reads return the well-formed ones in arrival order.
func VerifC18ReadSeq(l1, l2 int) {
	f1, f2 := verifBytes("frame", l1), verifBytes("frame", l2)
	raw := &verifRawConn{frames: [][]byte{f1, f2}}
	conn := NewBroadcastUDPConn(raw, &net.UDPAddr{Port: 68})
	var want, wantSrc [][]byte
	var wantPort []uint16
	for _, f := range [][]byte{f1, f2} {
		if p, src, sport, ok := refFrame(f, nil, 68); ok {
			want = append(want, p)
			wantSrc = append(wantSrc, src)
			wantPort = append(wantPort, sport)
		}
	}
	// what each call returned is kept and compared only after the last read: a caller may hold on
	// to an earlier payload or source address while it reads on
	var gotP [][]byte
	var gotA []net.Addr
	for i := 0; i <= len(want); i++ {
		b := make([]byte, 64)
		n, a, err := conn.ReadFrom(b)
		if i < len(want) {
			verifAssert(err == nil, "well-formed-frames-returned-in-order")
			if err == nil {
				verifAssert(verifSame(b[:n], want[i]), "payload-of-the-ith-well-formed-frame")
				gotP = append(gotP, b[:n])
				gotA = append(gotA, a)
			}
		} else {
			verifAssert(err == errVerifNoMoreFrames, "nothing-else-returned")
		}
	}
	for i := range gotP {
		verifAssert(verifSame(gotP[i], want[i]), "earlier-payload-unchanged-by-later-reads")
		ua, isUDP := gotA[i].(*net.UDPAddr)
		verifAssert(isUDP, "source-is-a-udp-address")
		if isUDP {
			verifAssert(verifSame(ua.IP.To4(), wantSrc[i]) && ua.Port == int(wantPort[i]), "source-address-of-the-ith-frame-also-after-later-reads")
		}
	}
	verifReach("end")
}

// verifC18FrameOK: layout and IP header checksum of one emitted frame (see VerifC18Write).
func verifC18FrameOK(f, payload, wsrc, wdst []byte, sport, dport uint16) {
	n := len(payload)
	verifAssert(len(f) == 28+n, "frame-length")
	if len(f) != 28+n {
		return
	}
	verifAssert(f[0] == 0x45, "version-4-header-20-bytes")
	verifAssert(int(f[2])<<8|int(f[3]) == 28+n, "ip-total-length")
	verifAssert(f[9] == 17, "protocol-udp")
	verifAssert(verifSame(f[12:16], wsrc), "source-address")
	verifAssert(verifSame(f[16:20], wdst), "destination-address")
	verifAssert(refFold(refOnesSum(0, f[:20])) == 0xffff, "ip-header-checksum-verifies")
	verifAssert(uint16(f[20])<<8|uint16(f[21]) == sport, "source-port")
	verifAssert(uint16(f[22])<<8|uint16(f[23]) == dport, "destination-port")
	verifAssert(int(f[24])<<8|int(f[25]) == 8+n, "udp-length")
	verifAssert(verifSame(f[28:], payload), "payload-unchanged")
}

// VerifC18WriteSeq: two datagrams written through ONE connection, one after the other
// (concurrent = 0) or by two goroutines with the first frame still inside the socket while the
// second is written (concurrent = 1): each leaves as a well-formed frame of its own.
func VerifC18WriteSeq(n1, n2, concurrent int) {
	p1, p2 := verifBytes("payload", n1), verifBytes("payload", n2)
	srcIP, wsrc := verifAddr4("src", 0)
	d1, wd1 := verifAddr4("dst", 0)
	d2, wd2 := verifAddr4("dst", 1)
	sport, dp1, dp2 := verifU16("sport"), verifU16("dport"), verifU16("dport")
	raw := &verifRawConn{}
	conn := NewBroadcastUDPConn(raw, &net.UDPAddr{IP: srcIP, Port: int(sport)})
	if concurrent == 0 {
		_, e1 := conn.WriteTo(p1, &net.UDPAddr{IP: d1, Port: int(dp1)})
		_, e2 := conn.WriteTo(p2, &net.UDPAddr{IP: d2, Port: int(dp2)})
		verifAssert(e1 == nil && e2 == nil, "write-ok")
	} else {
		raw.hold, raw.inside = make(chan struct{}), make(chan struct{})
		done := make(chan error, 1)
		go func() {
			_, e := conn.WriteTo(p1, &net.UDPAddr{IP: d1, Port: int(dp1)})
			done <- e
		}()
		<-raw.inside // the first writer is inside the socket now
		_, e2 := conn.WriteTo(p2, &net.UDPAddr{IP: d2, Port: int(dp2)})
		close(raw.hold)
		e1 := <-done
		verifAssert(e1 == nil && e2 == nil, "write-ok")
	}
	verifAssert(len(raw.sent) == 2, "one-frame-per-datagram")
	if len(raw.sent) != 2 {
		return
	}
	f1, f2 := raw.sent[0], raw.sent[1]
	if concurrent != 0 {
		f1, f2 = f2, f1 // the held frame is recorded last
	}
	verifC18FrameOK(f1, p1, wsrc, wd1, sport, dp1)
	verifC18FrameOK(f2, p2, wsrc, wd2, sport, dp2)
	verifReach("end")
}


// VerifC18WriteRetarget: two datagrams written through one connection with ONE destination object
// whose address is changed between the writes (callers reuse address objects); the UDP checksum of
// each frame (checksum() summarised by its contract, as in VerifC18WriteContract) verifies against
// the addresses that frame carries.
func VerifC18WriteRetarget(n int) {
	p1, p2 := verifBytes("payload", n), verifBytes("payload", n)
	srcIP, _ := verifAddr4("src", 0)
	d1, _ := verifAddr4("dst", 0)
	d2, _ := verifAddr4("dst", 0)
	sport, dport := verifU16("sport"), verifU16("dport")
	raw := &verifRawConn{}
	conn := NewBroadcastUDPConn(raw, &net.UDPAddr{IP: srcIP, Port: int(sport)})
	dest := &net.UDPAddr{IP: d1, Port: int(dport)}
	verifOverride("github.com/insomniacslk/dhcp/dhcpv4/nclient4.checksum", verifChecksumContract)
	_, e1 := conn.WriteTo(p1, dest)
	dest.IP = d2
	_, e2 := conn.WriteTo(p2, dest)
	verifOverride("github.com/insomniacslk/dhcp/dhcpv4/nclient4.checksum", nil)
	verifAssert(e1 == nil && e2 == nil, "write-ok")
	verifAssert(len(raw.sent) == 2, "one-frame-per-datagram")
	if len(raw.sent) != 2 {
		return
	}
	for i, f := range raw.sent {
		verifAssert(len(f) == 28+n, "frame-length")
		if len(f) != 28+n {
			return
		}
		want := d1
		if i == 1 {
			want = d2
		}
		verifAssert(verifSame(f[16:20], want), "destination-address")
		ck := uint64(f[26])<<8 | uint64(f[27])
		total := verifWordSum(f[12:20]) + 17 + uint64(8+n) + verifWordSum(f[20:28]) + verifWordSum(f[28:])
		verifAssert(verifOr(ck == 0, verifAnd(total%65535 == 0, total != 0)), "udp-checksum-verifies")
	}
	verifReach("end")
}

// VerifC18WriteShort: the raw socket reports a short count (short bytes, no error) for the first
// frame — a packet socket sends a frame whole or not at all, the count is only a report. Two
// datagrams are written: exactly two frames reach the socket, each of them well formed (a writer
// that "finished" the first frame by sending its remainder would emit a third thing that is no
// IPv4 frame at all).
func VerifC18WriteShort(n, short int) {
	p1, p2 := verifBytes("payload", n), verifBytes("payload", n)
	srcIP, wsrc := verifAddr4("src", 0)
	dstIP, wdst := verifAddr4("dst", 0)
	sport, dport := verifU16("sport"), verifU16("dport")
	raw := &verifRawConn{short: short}
	conn := NewBroadcastUDPConn(raw, &net.UDPAddr{IP: srcIP, Port: int(sport)})
	dest := &net.UDPAddr{IP: dstIP, Port: int(dport)}
	verifOverride("github.com/insomniacslk/dhcp/dhcpv4/nclient4.checksum", verifChecksumContract)
	_, e1 := conn.WriteTo(p1, dest)
	_, e2 := conn.WriteTo(p2, dest)
	verifOverride("github.com/insomniacslk/dhcp/dhcpv4/nclient4.checksum", nil)
	verifAssert(e2 == nil, "write-ok")
	_ = e1 // what the writer reports for the short count is not specified
	verifAssert(len(raw.sent) == 2, "one-frame-per-datagram")
	if len(raw.sent) == 2 {
		verifC18FrameOK(raw.sent[0], p1, wsrc, wdst, sport, dport)
		verifC18FrameOK(raw.sent[1], p2, wsrc, wdst, sport, dport)
	}
	verifReach("end")
}

// VerifC18ReadThenWrite: a connection bound to a port only (no address) first receives a
// well-formed frame addressed to a symbolic unicast address and its port, then writes a datagram:
// the frame written carries the bound address (0.0.0.0) and port as its source, exactly as a write
// made before any read does (nothing learned from what was received takes their place).
func VerifC18ReadThenWrite(n int) {
	in, out := verifBytes("payload", n), verifBytes("payload", n)
	srvIP, _ := verifAddr4("server", 0)
	myIP, _ := verifAddr4("mine", 0)
	verifAssume(myIP[0] >= 1 && myIP[0] <= 223 && myIP[0] != 127) // a unicast address
	dstIP, wdst := verifAddr4("dst", 0)
	dport := verifU16("dport")
	verifOverride("github.com/insomniacslk/dhcp/dhcpv4/nclient4.checksum", verifChecksumContract)
	srvRaw := &verifRawConn{}
	srv := NewBroadcastUDPConn(srvRaw, &net.UDPAddr{IP: srvIP, Port: 67})
	_, werr := srv.WriteTo(in, &net.UDPAddr{IP: myIP, Port: 68})
	verifAssert(werr == nil && len(srvRaw.sent) == 1, "write-ok")
	if werr != nil || len(srvRaw.sent) != 1 {
		return
	}
	raw := &verifRawConn{frames: [][]byte{srvRaw.sent[0]}}
	conn := NewBroadcastUDPConn(raw, &net.UDPAddr{Port: 68})
	buf := make([]byte, n+8)
	rn, _, rerr := conn.ReadFrom(buf)
	verifAssert(rerr == nil && rn == n, "well-formed-frame-is-returned")
	_, e2 := conn.WriteTo(out, &net.UDPAddr{IP: dstIP, Port: int(dport)})
	verifOverride("github.com/insomniacslk/dhcp/dhcpv4/nclient4.checksum", nil)
	verifAssert(e2 == nil, "write-ok")
	verifAssert(len(raw.sent) == 1, "one-frame-per-datagram")
	if len(raw.sent) == 1 {
		verifC18FrameOK(raw.sent[0], out, []byte{0, 0, 0, 0}, wdst, 68, dport)
	}
	verifReach("end")
}
