//go:build verif

package nclient4

import (
	"time"

	"github.com/insomniacslk/dhcp/dhcpv4"
)

// C12: retransmission follows the configured schedule exactly.

func verifSame(a, b []byte) bool {
	if len(a) != len(b) {
		return false
	}
	var d byte
	for i := range a {
		d |= a[i] ^ b[i]
	}
	return d == 0
}

// verifRequest builds a request with symbolic header fields and one symbolic option, so that
// "the transmitted bytes equal the request's encoding" ranges over request packets.
func verifRequest() *dhcpv4.DHCPv4 {
	p := &dhcpv4.DHCPv4{OpCode: dhcpv4.OpcodeBootRequest, HWType: 1, TransactionID: verifXID, ClientHWAddr: verifHW,
		HopCount: verifU8("req.hops"), NumSeconds: verifU16("req.secs"), Flags: verifU16("req.flags"),
		Options: dhcpv4.Options{53: []byte{1}, 61: verifBytes("req.clientid", 3)}}
	return p
}

func verifCheckSchedule(k *verifCall, want []byte, n int) {
	verifAssert(len(k.conn.log) == n, "exact-number-of-transmissions")
	off := int64(0)
	w := k.T
	for i, e := range k.conn.log {
		if i >= n {
			break
		}
		verifAssert(e.at-k.start == off, "transmission-at-scheduled-offset")
		verifAssert(verifSame(e.data, want), "transmitted-bytes-equal-request-encoding")
		verifAssert(e.dest == k.dest, "transmitted-to-requested-destination")
		off += w
		w += w
	}
}

// VerifC12Silence: no acceptable response (silence or only rejected/foreign datagrams, nmsgs of them):
// exactly n transmissions at 0, T, 3T, ... and ErrNoResponse at T*(2^n-1).
func VerifC12Silence(tries, nmsgs int) {
	k := &verifCall{conn: newVerifConn(), tries: tries, ctxAt: -1, closeAt: -1}
	k.T = int64(verifU64("T")) // up to 2^38 ns (4.6 minutes) per first wait
	verifAssume(k.T >= 1)
	verifAssume(k.T < 1<<38)
	c, err := NewWithConn(k.conn, verifHW, WithTimeout(time.Duration(k.T)), WithRetry(tries), WithServerAddr(verifOtherDest()))
	verifAssert(err == nil, "client-created")
	k.c = c
	k.req = verifRequest()
	want := k.req.ToBytes()
	k.dest = verifDest()
	prev := int64(0)
	for i := 0; i < nmsgs; i++ {
		data, xid, op, hw, mt := verifReply("m")
		at := int64(verifU64("m.at"))
		verifAssume(at >= prev)
		verifAssume(at <= 1<<36)
		prev = at
		acceptable := verifAnd(verifAnd(verifSameXID(xid, verifXID), verifAnd(op == 2, hw == verifHW[5])), mt == 2)
		verifAssume(!acceptable)
		k.conn.deliver(at, data)
	}
	w := k.T
	for i := 0; i < tries; i++ {
		k.budget += w
		w += w
	}
	k.start = verifNow()
	k.resp, k.err = c.SendAndRead(newVerifCtx(), k.dest, k.req, IsMessageType(dhcpv4.MessageTypeOffer))
	k.end = verifNow()
	verifAssert(k.resp == nil, "no-response")
	verifAssert(k.err == ErrNoResponse, "no-response-error")
	verifAssert(k.end-k.start == k.budget, "fails-at-T-times-2^n-1")
	verifCheckSchedule(k, want, tries)
	verifAssert(verifSame(k.req.ToBytes(), want), "request-unmodified")
	verifObserveInt("writes", len(k.conn.log))
	c.Close()
	verifReach("end")
}

// VerifC12Accepted: an acceptable response arrives at a symbolic offset; the call ends with it,
// k transmissions were made on schedule (k determined by the offset), and nothing follows.
func VerifC12Accepted(tries int) {
	k := &verifCall{conn: newVerifConn(), tries: tries, ctxAt: -1, closeAt: -1}
	k.T = int64(verifU32("T"))
	verifAssume(k.T >= 1)
	c, err := NewWithConn(k.conn, verifHW, WithTimeout(time.Duration(k.T)), WithRetry(tries), WithServerAddr(verifOtherDest()))
	verifAssert(err == nil, "client-created")
	k.c = c
	k.req = verifRequest()
	want := k.req.ToBytes()
	k.dest = verifDest()
	w := k.T
	for i := 0; i < tries; i++ {
		k.budget += w
		w += w
	}
	offer := &dhcpv4.DHCPv4{OpCode: dhcpv4.OpcodeBootReply, HWType: 1, TransactionID: verifXID, ClientHWAddr: verifHW, Options: dhcpv4.Options{53: []byte{2}}}
	at := int64(verifU64("offer.at"))
	verifAssume(at >= 0)
	verifAssume(at < k.budget)
	k.conn.deliver(at, offer.ToBytes())
	k.start = verifNow()
	k.resp, k.err = c.SendAndRead(newVerifCtx(), k.dest, k.req, IsMessageType(dhcpv4.MessageTypeOffer))
	k.end = verifNow()
	verifAssert(k.err == nil, "accepted")
	verifAssert(k.resp != nil, "response-returned")
	verifAssert(k.end == at, "ends-when-the-response-arrives")
	n := len(k.conn.log)
	verifAssert(n >= 1 && n <= tries, "between-1-and-n-transmissions")
	verifCheckSchedule(k, want, n)
	// the response arrived within try n: not before that try started, not after its deadline
	startN, endN := int64(0), k.T
	w = k.T
	for i := 1; i < n; i++ {
		startN += w
		w += w
		endN = startN + w
	}
	verifAssert(startN <= at, "last-transmission-not-after-the-response")
	verifAssert(at <= endN, "response-within-the-last-try")
	// nothing follows: let virtual time run past the whole schedule
	verifAt(k.budget+k.budget+1, func() {})
	done := make(chan struct{})
	verifAt(k.budget+k.budget+2, func() { close(done) })
	<-done
	verifAssert(len(k.conn.log) == n, "no-transmission-after-the-call-ended")
	c.Close()
	verifReach("end")
}

// VerifC12Forever: a negative try count retries until cancelled; cancellation arrives after at most
// maxTries timeouts (bound of the unwinding).
func VerifC12Forever(maxTries int) {
	k := &verifCall{conn: newVerifConn(), tries: -1, ctxAt: -1, closeAt: -1}
	k.T = int64(verifU32("T"))
	verifAssume(k.T >= 1)
	c, err := NewWithConn(k.conn, verifHW, WithTimeout(time.Duration(k.T)), WithRetry(-1))
	verifAssert(err == nil, "client-created")
	k.c = c
	k.req = verifRequest()
	want := k.req.ToBytes()
	k.dest = verifDest()
	w := k.T
	for i := 0; i < maxTries; i++ {
		k.budget += w
		w += w
	}
	ctx := newVerifCtx()
	k.ctxAt = int64(verifU64("ctx.at"))
	verifAssume(k.ctxAt >= 0)
	verifAssume(k.ctxAt < k.budget)
	ctx.cancelAt(k.ctxAt)
	k.start = verifNow()
	k.resp, k.err = c.SendAndRead(ctx, k.dest, k.req, nil)
	k.end = verifNow()
	verifAssert(k.resp == nil, "no-response")
	verifAssert(k.err == errVerifCanceled, "ends-only-by-cancellation")
	verifAssert(k.end == k.ctxAt, "ends-at-cancellation")
	n := len(k.conn.log)
	verifCheckSchedule(k, want, n)
	verifObserveInt("writes", n)
	c.Close()
	verifReach("end")
}
