//go:build verif

package dhcpv4

// Reference DHCPv4 codec written from RFC 2131 §2, RFC 2132 §2 and RFC 3396.
// It shares no code with the library (no uio, no Options methods).

// refOptions parses an options area.  ok=false: malformed.
func refOptions(a []byte) (vals map[uint8][]byte, order []uint8, ok bool) {
	vals = map[uint8][]byte{}
	if len(a) == 0 {
		return vals, nil, true
	}
	i := 0
	for {
		if i >= len(a) {
			return nil, nil, false // no End option
		}
		c := a[i]
		if c == 0 {
			i++
			continue
		}
		if c == 255 {
			return vals, order, true
		}
		if i+1 >= len(a) {
			return nil, nil, false
		}
		l := int(a[i+1])
		if i+2+l > len(a) {
			return nil, nil, false
		}
		old, seen := vals[c]
		if !seen {
			order = append(order, c)
		}
		nv := make([]byte, 0, len(old)+l)
		nv = append(nv, old...)
		nv = append(nv, a[i+2:i+2+l]...)
		vals[c] = nv
		i += 2 + l
	}
}

// verifSame reports whether two byte strings are equal, without data-dependent control flow
// beyond the (concrete) lengths.
func verifSame(a, b []byte) bool {
	if len(a) != len(b) {
		return false
	}
	var d byte
	for i := range a {
		d |= a[i] ^ b[i]
	}
	return d == 0
}

func verifSameStr(a, b string) bool { return verifSame([]byte(a), []byte(b)) }

// refHeader holds the RFC reading of the fixed BOOTP header.
type refHeader struct {
	op, htype, hlen, hops  byte
	xid                    [4]byte
	secs, flags            uint16
	ci, yi, si, gi         [4]byte
	chaddr                 []byte
	sname, file            []byte
	cookieOK               bool
}

func refParseHeader(b []byte) (h refHeader, ok bool) {
	if len(b) < 240 {
		return h, false
	}
	h.op, h.htype, h.hlen, h.hops = b[0], b[1], b[2], b[3]
	copy(h.xid[:], b[4:8])
	h.secs = uint16(b[8])<<8 | uint16(b[9])
	h.flags = uint16(b[10])<<8 | uint16(b[11])
	copy(h.ci[:], b[12:16])
	copy(h.yi[:], b[16:20])
	copy(h.si[:], b[20:24])
	copy(h.gi[:], b[24:28])
	n := int(h.hlen)
	if n > 16 {
		n = 16
	}
	h.chaddr = b[28 : 28+n]
	h.sname = refCutNul(b[44:108])
	h.file = refCutNul(b[108:236])
	h.cookieOK = b[236] == 99 && b[237] == 130 && b[238] == 83 && b[239] == 99
	return h, true
}

func refCutNul(b []byte) []byte {
	for i := range b {
		if b[i] == 0 {
			return b[:i]
		}
	}
	return b
}

func verifB2I(b bool) int {
	if b {
		return 1
	}
	return 0
}
