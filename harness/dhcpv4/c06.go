//go:build verif

package dhcpv4

// C06 (DHCPv4 part): decode -> encode -> decode is a fixpoint.

// verifC06Fixpoint: for an accepted b: b1 = enc(dec(b)) decodes, re-encodes to b1, and the second
// message equals the first up to the normalisations the property lists.
func verifC06Fixpoint(b []byte) {
	m1, err := FromBytes(b)
	if err != nil {
		verifReach("rejected")
		verifReach("end")
		return
	}
	b1 := m1.ToBytes()
	verifObserveInt("reencoded-len", len(b1))
	m2, err := FromBytes(b1)
	verifAssert(err == nil, "reencoded-decodes")
	if err != nil {
		verifReach("end")
		return
	}
	verifAssert(verifSame(m2.ToBytes(), b1), "second-encoding-equals-first")
	// m2 ≅ norm(m1): header fields
	verifAssert(m2.OpCode == m1.OpCode, "eq-opcode")
	verifAssert(m2.HWType == m1.HWType, "eq-htype")
	verifAssert(m2.HopCount == m1.HopCount, "eq-hops")
	verifAssert(verifSame(m2.TransactionID[:], m1.TransactionID[:]), "eq-xid")
	verifAssert(m2.NumSeconds == m1.NumSeconds, "eq-secs")
	verifAssert(m2.Flags == m1.Flags, "eq-flags")
	verifAssert(verifSame(m2.ClientIPAddr, m1.ClientIPAddr), "eq-ciaddr")
	verifAssert(verifSame(m2.YourIPAddr, m1.YourIPAddr), "eq-yiaddr")
	verifAssert(verifSame(m2.ServerIPAddr, m1.ServerIPAddr), "eq-siaddr")
	verifAssert(verifSame(m2.GatewayIPAddr, m1.GatewayIPAddr), "eq-giaddr")
	verifAssert(verifSame(m2.ClientHWAddr, m1.ClientHWAddr), "eq-chaddr")
	// names: cut to their NUL-terminated capacity (63 / 127 bytes)
	sn, fn := []byte(m1.ServerHostName), []byte(m1.BootFileName)
	if len(sn) > 63 {
		sn = sn[:63]
	}
	if len(fn) > 127 {
		fn = fn[:127]
	}
	verifAssert(verifSame([]byte(m2.ServerHostName), sn), "eq-sname-up-to-capacity")
	verifAssert(verifSame([]byte(m2.BootFileName), fn), "eq-file-up-to-capacity")
	// options: same codes, same values
	verifAssert(len(m2.Options) == len(m1.Options), "eq-number-of-options")
	for code, v1 := range m1.Options {
		v2, has := m2.Options[code]
		verifAssert(has, "eq-option-present")
		if has {
			verifAssert(verifSame(v2, v1), "eq-option-value")
		}
	}
	verifReach("accepted")
	verifReach("end")
}

// VerifC06Options: every options area of n symbolic bytes behind a concrete valid header
// (unsorted, split, padded areas included).
func VerifC06Options(n int) {
	verifC06Fixpoint(append(verifValidPrefix(), verifBytes("opt", n)...))
}

// VerifC06Shaped: areas of up to four option instances with symbolic codes and values (see
// verifShapedArea).
func VerifC06Shaped(l1, l2, l3, l4, pad int) {
	verifC06Fixpoint(append(verifValidPrefix(), verifShapedArea([]int{l1, l2, l3, l4}, pad)...))
}

// VerifC06Header: symbolic header; which selects the part left symbolic with possible NULs:
// 0: scalar fields, addresses, hlen (any value 0..255) and chaddr; 1: server name of 64 symbolic
// bytes; 2: boot file of 128 symbolic bytes.
func VerifC06Header(which int) {
	b := verifValidPrefix()
	switch which {
	case 0:
		copy(b[0:44], verifBytes("hdr", 44))
	case 1:
		copy(b[44:108], verifBytes("sname", 64))
	default:
		copy(b[108:236], verifBytes("file", 128))
	}
	verifC06Fixpoint(append(b, 255))
}
