//go:build verif

package ztpv4

// C03 (zero-touch provisioning, DHCPv4): ParseVendorData never panics on decoded packets.

import "github.com/insomniacslk/dhcp/dhcpv4"

var verifPrefixes = []string{"", "Arista;", "ZPESystems:", "Juniper-", "Juniper:", "1271", "FPR4100"}

// VerifC03VendorData: decoded packet whose class identifier (option 60) is known prefix #kind
// followed by l symbolic bytes; extra selects further options: 1 host name, 2 client identifier,
// 3 a VIVC option (124) with symbolic enterprise number and l data bytes instead of option 60.
func VerifC03VendorData(kind, l, extra int) {
	b := make([]byte, 240)
	b[0], b[1], b[2] = 1, 1, 6
	b[236], b[237], b[238], b[239] = 99, 130, 83, 99
	if extra == 3 {
		d := verifBytes("vivc", l)
		b = append(b, 124, byte(5+l), verifU8("en"), verifU8("en"), verifU8("en"), verifU8("en"), byte(l))
		b = append(b, d...)
	} else {
		s := append([]byte(verifPrefixes[kind]), verifBytes("tail", l)...)
		b = append(b, 60, byte(len(s)))
		b = append(b, s...)
	}
	switch extra {
	case 1:
		b = append(b, 12, 2)
		b = append(b, verifBytes("host", 2)...)
	case 2:
		b = append(b, 61, 2)
		b = append(b, verifBytes("cid", 2)...)
	}
	b = append(b, 255)
	p, err := dhcpv4.FromBytes(b)
	if err != nil {
		verifReach("rejected")
		verifReach("end")
		return
	}
	_, _ = ParseVendorData(p)
	verifReach("end")
}
