//go:build verif

package server4

// C14 (DHCPv4 server): dispatch each valid datagram exactly once, survive bad ones.

import (
	"errors"
	"net"
	"sync"
	"time"

	"github.com/insomniacslk/dhcp/dhcpv4"
)

type verifRead struct {
	data       []byte
	peer       net.Addr
	err        error
	closeFirst bool // the server's Close lands while this read is in flight; the datagram is still delivered
}

type verifConn struct {
	script []verifRead
	pos    int
	closes int
	srv    *Server
}

var errVerifRead = errors.New("verif: read failed")
var errVerifClosed = errors.New("verif: use of closed network connection")

func (c *verifConn) ReadFrom(b []byte) (int, net.Addr, error) {
	if c.closes > 0 {
		return 0, nil, errVerifClosed
	}
	if c.pos >= len(c.script) {
		return 0, nil, errVerifRead
	}
	r := c.script[c.pos]
	c.pos++
	if r.err != nil {
		return 0, nil, r.err
	}
	if r.closeFirst && c.srv != nil {
		c.srv.Close()
	}
	n := copy(b, r.data)
	return n, r.peer, nil
}
func (c *verifConn) WriteTo(b []byte, a net.Addr) (int, error) { return len(b), nil }
func (c *verifConn) Close() error                              { c.closes++; return nil }
func (c *verifConn) LocalAddr() net.Addr                       { return &net.UDPAddr{Port: 67} }
func (c *verifConn) SetDeadline(t time.Time) error             { return nil }
func (c *verifConn) SetReadDeadline(t time.Time) error         { return nil }
func (c *verifConn) SetWriteDeadline(t time.Time) error        { return nil }

type verifCallRec struct {
	conn net.PacketConn
	peer net.Addr
	m    *dhcpv4.DHCPv4
}

type verifExpect struct {
	valid    bool
	xid      [4]byte
	op       uint8
	code     uint8
	val      []byte
	peerIP   []byte // expected peer IP (4 bytes)
	peerPort int
}

func verifSame(a, b []byte) bool {
	if len(a) != len(b) {
		return false
	}
	var d byte
	for i := range a {
		d |= a[i] ^ b[i]
	}
	return d == 0
}

// verifPeer builds the sender address: 0 nil IP, 1 0.0.0.0, 2 symbolic 4-byte IP, 3 16-byte zero v4-mapped.
func verifPeer(kind int) (a *net.UDPAddr, wantIP []byte) {
	port := int(verifU16("peer.port"))
	bcast := []byte{255, 255, 255, 255}
	switch kind {
	case 0:
		return &net.UDPAddr{Port: port}, bcast
	case 1:
		return &net.UDPAddr{IP: net.IP{0, 0, 0, 0}, Port: port}, bcast
	case 3:
		ip := make(net.IP, 16)
		ip[10], ip[11] = 0xff, 0xff
		return &net.UDPAddr{IP: ip, Port: port}, bcast
	default:
		ip := verifBytes("peer.ip", 4)
		if (ip[0] | ip[1] | ip[2] | ip[3]) == 0 {
			return &net.UDPAddr{IP: net.IP(ip), Port: port}, bcast
		}
		return &net.UDPAddr{IP: net.IP(ip), Port: port}, ip
	}
}

// VerifC14Serve: a script of up to three reads; kinds (one digit per slot, 9 = no slot):
// 0 valid packet, 1 undecodable bytes, 2 empty read, 4 connection closed concurrently, 7 valid
// packet during whose read the server is closed, 8 valid packet of more than 576 bytes.
// peers: one digit per slot (see verifPeer).
func VerifC14Serve(k1, k2, k3, peers int) {
	conn := &verifConn{}
	var exp []verifExpect
	kinds := []int{k1, k2, k3}
	pk := peers
	closedAt := -1
	for i, kind := range kinds {
		if kind == 9 {
			continue
		}
		peer, wantIP := verifPeer(pk % 10)
		pk /= 10
		switch kind {
		case 0, 3, 7, 8:
			var e verifExpect
			e.valid = true
			copy(e.xid[:], verifBytes("xid", 4))
			e.op = verifU8("op")
			e.code = verifU8("code")
			verifAssume(e.code >= 1)
			verifAssume(e.code <= 254)
			e.val = verifBytes("val", 3)
			if kind == 8 {
				e.val = verifBytes("val", 400) // a large datagram: more than 576 bytes on the wire
			}
			e.peerIP, e.peerPort = wantIP, peer.Port
			p := &dhcpv4.DHCPv4{OpCode: dhcpv4.OpcodeType(e.op), HWType: 1, TransactionID: e.xid, ClientHWAddr: net.HardwareAddr{2, 0, 0, 0, 0, 1}, Options: dhcpv4.Options{e.code: e.val}}
			data := p.ToBytes()
			if kind == 3 {
				// a datagram that fills the server's read buffer exactly (pad bytes after End)
				data = append(data, make([]byte, 4096-len(data))...)
			}
			conn.script = append(conn.script, verifRead{data: data, peer: peer, closeFirst: kind == 7})
			exp = append(exp, e)
			if kind == 7 && closedAt < 0 {
				closedAt = i + 1 // Close landed during this read: nothing after it is read
			}
		case 1:
			conn.script = append(conn.script, verifRead{data: verifBytes("junk", 7), peer: peer})
		case 2:
			conn.script = append(conn.script, verifRead{data: nil, peer: peer})
		case 4:
			conn.script = append(conn.script, verifRead{err: errVerifClosed})
			if closedAt < 0 {
				closedAt = i
			}
		}
	}
	var calls []verifCallRec
	var mu sync.Mutex
	s := &Server{conn: conn, logger: EmptyLogger{}, Handler: func(c net.PacketConn, peer net.Addr, m *dhcpv4.DHCPv4) {
		mu.Lock() // handlers run concurrently
		calls = append(calls, verifCallRec{c, peer, m})
		mu.Unlock()
	}}
	conn.srv = s
	err := s.Serve()
	verifSettle() // let every handler goroutine run
	// handlers may outlive later reads: messages are inspected only now, after every read
	// Serve returns only when reading fails or the server is closed
	verifAssert(err != nil, "serve-returns-the-read-error")
	if closedAt >= 0 {
		verifAssert(err == errVerifClosed, "serve-returns-close-error")
	} else {
		verifAssert(err == errVerifRead, "serve-returns-read-error")
		verifAssert(conn.pos == len(conn.script), "every-datagram-was-read")
	}
	verifAssert(conn.closes >= 1, "connection-closed-on-exit")
	// expected dispatches: the valid datagrams before the close point
	var want []verifExpect
	idx := 0
	for i, kind := range kinds {
		if closedAt >= 0 && i >= closedAt {
			break
		}
		if kind == 0 || kind == 3 || kind == 7 || kind == 8 {
			want = append(want, exp[idx])
			idx++
		}
	}
	verifAssert(len(calls) == len(want), "handler-invoked-exactly-once-per-valid-datagram")
	verifObserveInt("dispatched", len(calls))
	if len(calls) == len(want) {
		// handlers run concurrently: match each expected datagram to one call by content (the
		// executor runs them in spawn order, the native scheduler in any order)
		used := make([]bool, len(calls))
		for _, e := range want {
			found := false
			for j, c := range calls {
				if used[j] || found {
					continue
				}
				v, has := c.m.Options[e.code]
				up, isUDP := c.peer.(*net.UDPAddr)
				ok := c.conn == net.PacketConn(conn) && isUDP && has
				if ok {
					same := verifAnd(verifSame(c.m.TransactionID[:], e.xid[:]), verifAnd(uint8(c.m.OpCode) == e.op, verifSame(v, e.val)))
					same = verifAnd(same, verifAnd(verifSame(up.IP.To4(), e.peerIP), up.Port == e.peerPort))
					if same {
						used[j] = true
						found = true
					}
				}
			}
			verifAssert(found, "handler-got-the-decoded-message-and-the-sender-as-peer")
		}
	}
	// every datagram is decoded on its own: no two handler calls are given the same message
	// object, nor messages that share memory (byte-identical datagrams included)
	for i := range calls {
		for j := i + 1; j < len(calls); j++ {
			verifAssert(calls[i].m != calls[j].m, "each-datagram-gets-a-message-of-its-own")
			verifAssert(!verifShares(calls[i].m, calls[j].m), "each-datagram-gets-a-message-of-its-own")
		}
	}
	verifReach("end")
}

// verifManyConn: n datagrams, then (all reads done) the handlers are released and reading fails.
type verifManyConn struct {
	verifConn
	release chan struct{}
}

func (c *verifManyConn) ReadFrom(b []byte) (int, net.Addr, error) {
	if c.closes == 0 && c.pos >= len(c.script) {
		close(c.release)
	}
	return c.verifConn.ReadFrom(b)
}

// VerifC14Many: a long sequence: n valid packets from senders without IP address on distinct ports
// (identified by a concrete transaction id, option value symbolic), whose handlers all block until
// every datagram has been read; each must be dispatched exactly once with its own message and
// with the limited broadcast address and the sender's port as peer, and Serve must return.
func VerifC14Many(n int) {
	conn := &verifManyConn{release: make(chan struct{})}
	vals := make([][]byte, n)
	for i := 0; i < n; i++ {
		peer := &net.UDPAddr{Port: 1000 + i}
		if i%2 == 1 {
			peer.IP = net.IP{0, 0, 0, 0}
		}
		vals[i] = verifBytes("val", 2)
		p := &dhcpv4.DHCPv4{OpCode: dhcpv4.OpcodeBootRequest, HWType: 1, TransactionID: dhcpv4.TransactionID{0, 0, byte(i >> 8), byte(i)},
			ClientHWAddr: net.HardwareAddr{2, 0, 0, 0, 0, 1}, Options: dhcpv4.Options{53: []byte{1}, 61: vals[i]}}
		conn.script = append(conn.script, verifRead{data: p.ToBytes(), peer: peer})
	}
	var calls []verifCallRec
	var mu sync.Mutex
	s := &Server{conn: conn, logger: EmptyLogger{}, Handler: func(c net.PacketConn, peer net.Addr, m *dhcpv4.DHCPv4) {
		<-conn.release
		mu.Lock() // handlers run concurrently
		calls = append(calls, verifCallRec{c, peer, m})
		mu.Unlock()
	}}
	err := s.Serve()
	verifSettle()
	verifAssert(err == errVerifRead, "serve-returns-read-error")
	verifAssert(conn.pos == len(conn.script), "every-datagram-was-read")
	verifAssert(len(calls) == n, "handler-invoked-exactly-once-per-valid-datagram")
	verifObserveInt("dispatched", len(calls))
	seen := make([]bool, n)
	for _, c := range calls {
		i := int(c.m.TransactionID[2])<<8 | int(c.m.TransactionID[3])
		if i >= n || seen[i] {
			verifAssert(false, "handler-invoked-exactly-once-per-valid-datagram")
			continue
		}
		seen[i] = true
		up, isUDP := c.peer.(*net.UDPAddr)
		verifAssert(isUDP, "peer-is-a-udp-address")
		if isUDP {
			verifAssert(verifSame(up.IP.To4(), []byte{255, 255, 255, 255}) && up.Port == 1000+i, "handler-got-the-decoded-message-and-the-sender-as-peer")
		}
		verifAssert(verifSame(c.m.Options[61], vals[i]), "handler-got-the-decoded-message-and-the-sender-as-peer")
	}
	verifReach("end")
}
