//go:build verif

package dhcpv4

import (
	"net"

	"github.com/insomniacslk/dhcp/iana"
)

// C01: DHCPv4 encode -> decode preserves every header field and option value.

// verifIP builds an address in one of the encodable forms:
// 0 nil (== 0.0.0.0), 1 four bytes, 2 sixteen bytes IPv4-mapped.
func verifIP(name string, form int) (ip net.IP, want []byte) {
	switch form {
	case 0:
		return nil, []byte{0, 0, 0, 0}
	case 1:
		b := verifBytes(name, 4)
		return net.IP(b), b
	default:
		b := verifBytes(name, 4)
		ip = make(net.IP, 16)
		ip[10], ip[11] = 0xff, 0xff
		copy(ip[12:], b)
		return ip, b
	}
}

func verifNonZeroBytes(name string, n int) []byte {
	b := verifBytes(name, n)
	for i := range b {
		verifAssume(b[i] != 0)
	}
	return b
}

// VerifC01Header: all header fields symbolic; hardware address of hlen bytes; names of
// snl / fl non-NUL bytes; forms = base-3 digits selecting the form of the four addresses.
func VerifC01Header(hlen, snl, fl, forms int) {
	p := &DHCPv4{
		OpCode:     OpcodeType(verifU8("op")),
		HWType:     iana.HWType(verifU8("htype")),
		HopCount:   verifU8("hops"),
		NumSeconds: verifU16("secs"),
		Flags:      verifU16("flags"),
	}
	xid := verifBytes("xid", 4)
	copy(p.TransactionID[:], xid)
	var wci, wyi, wsi, wgi []byte
	p.ClientIPAddr, wci = verifIP("ciaddr", forms%3)
	p.YourIPAddr, wyi = verifIP("yiaddr", forms/3%3)
	p.ServerIPAddr, wsi = verifIP("siaddr", forms/9%3)
	p.GatewayIPAddr, wgi = verifIP("giaddr", forms/27%3)
	hw := verifBytes("chaddr", hlen)
	p.ClientHWAddr = net.HardwareAddr(hw)
	sn := verifNonZeroBytes("sname", snl)
	fn := verifNonZeroBytes("file", fl)
	p.ServerHostName = string(sn)
	p.BootFileName = string(fn)
	p.Options = Options{}

	b := p.ToBytes()
	verifObserve("encoded", b)
	q, err := FromBytes(b)
	verifAssert(err == nil, "decode-ok")
	if err != nil {
		return
	}
	verifAssert(q.OpCode == p.OpCode, "opcode")
	verifAssert(q.HWType == p.HWType, "htype")
	verifAssert(q.HopCount == p.HopCount, "hops")
	verifAssert(verifSame(q.TransactionID[:], xid), "xid")
	verifAssert(q.NumSeconds == p.NumSeconds, "secs")
	verifAssert(q.Flags == p.Flags, "flags")
	verifAssert(verifSame(q.ClientIPAddr, wci), "ciaddr")
	verifAssert(verifSame(q.YourIPAddr, wyi), "yiaddr")
	verifAssert(verifSame(q.ServerIPAddr, wsi), "siaddr")
	verifAssert(verifSame(q.GatewayIPAddr, wgi), "giaddr")
	verifAssert(verifSame(q.ClientHWAddr, hw), "chaddr")
	verifAssert(verifSameStr(q.ServerHostName, string(sn)), "sname")
	verifAssert(verifSameStr(q.BootFileName, string(fn)), "file")
	verifAssert(len(q.Options) == 0, "no-options")
	verifReach("end")
}

// VerifC01Options: k options (k = number of lengths >= 0) with symbolic pairwise distinct
// codes in 1..254 and symbolic values of the given lengths.
func VerifC01Options(l1, l2, l3 int) {
	lens := []int{}
	for _, l := range []int{l1, l2, l3} {
		if l >= 0 || l == -2 { // -2: present with a nil value
			lens = append(lens, l)
		}
	}
	k := len(lens)
	codes := make([]uint8, k)
	vals := make([][]byte, k)
	for i := 0; i < k; i++ {
		codes[i] = verifU8("code")
		verifAssume(codes[i] >= 1)
		verifAssume(codes[i] <= 254)
		for j := 0; j < i; j++ {
			verifAssume(codes[i] != codes[j])
		}
		if lens[i] >= 0 {
			vals[i] = verifBytes("val", lens[i])
		}
	}
	p := &DHCPv4{OpCode: OpcodeBootRequest, HWType: iana.HWTypeEthernet, Options: Options{}}
	for i := 0; i < k; i++ {
		p.Options[codes[i]] = vals[i]
	}
	b := p.ToBytes()
	q, err := FromBytes(b)
	verifAssert(err == nil, "decode-ok")
	if err != nil {
		return
	}
	verifAssert(len(q.Options) == k, "same-number-of-options")
	for i := 0; i < k; i++ {
		v, ok := q.Options[codes[i]]
		verifAssert(ok, "option-present")
		verifAssert(verifSame(v, vals[i]), "option-value")
	}
	verifObserveInt("encoded-len", len(b))
	verifReach("end")
}

// VerifSmokeNew: the transaction id of New() is an environment value (arbitrary bytes).
func VerifSmokeNew() {
	p, err := New()
	verifAssert(err == nil, "new-ok")
	verifAssert(p != nil, "packet")
	verifReach("end")
}

// VerifC01TwoEncodes: two different packets are encoded one after the other and only then decoded:
// each decoding yields its own packet (an encoder that hands out recycled memory would not).
// l1, l2: length of one option value per packet (the wire forms straddle the 300- and 576-byte marks).
func VerifC01TwoEncodes(l1, l2 int) {
	mk := func(tag string, l int) (*DHCPv4, []byte, []byte, uint8) {
		xid := verifBytes(tag+".xid", 4)
		val := verifBytes(tag+".val", l)
		code := verifU8(tag + ".code")
		verifAssume(code >= 1)
		verifAssume(code <= 254)
		p := &DHCPv4{OpCode: OpcodeBootRequest, HWType: iana.HWTypeEthernet, ClientHWAddr: verifBytes(tag+".chaddr", 6), Options: Options{code: val}}
		copy(p.TransactionID[:], xid)
		return p, xid, val, code
	}
	p1, x1, v1, c1 := mk("a", l1)
	p2, x2, v2, c2 := mk("b", l2)
	b1 := p1.ToBytes()
	b2 := p2.ToBytes()
	b1again := p1.ToBytes()
	for i, tc := range []struct {
		b, xid, val []byte
		code     uint8
		hw       []byte
	}{{b1, x1, v1, c1, p1.ClientHWAddr}, {b2, x2, v2, c2, p2.ClientHWAddr}, {b1again, x1, v1, c1, p1.ClientHWAddr}} {
		q, err := FromBytes(tc.b)
		verifAssert(err == nil, "decode-ok")
		if err != nil {
			continue
		}
		_ = i
		verifAssert(verifSame(q.TransactionID[:], tc.xid), "xid")
		verifAssert(verifSame(q.ClientHWAddr, tc.hw), "chaddr")
		verifAssert(len(q.Options) == 1, "same-number-of-options")
		verifAssert(verifSame(q.Options[tc.code], tc.val), "option-value")
	}
	verifReach("end")
}

// VerifC01NamesAndOptions: server name of snl and boot file name of fl non-NUL bytes TOGETHER WITH
// options of symbolic codes (1..254, distinct) and symbolic values of l1, l2 bytes (a negative
// length leaves that option out): header names and options do not depend on each other, whatever
// the codes and values are (an option that redirected how the name fields are read would show here).
func VerifC01NamesAndOptions(snl, fl, l1, l2 int) {
	p := &DHCPv4{OpCode: OpcodeBootReply, HWType: iana.HWTypeEthernet, Options: Options{}}
	sn := verifNonZeroBytes("sname", snl)
	fn := verifNonZeroBytes("file", fl)
	p.ServerHostName = string(sn)
	p.BootFileName = string(fn)
	var codes []uint8
	var vals [][]byte
	for _, l := range []int{l1, l2} {
		if l < 0 {
			continue
		}
		c := verifU8("code")
		verifAssume(c >= 1)
		verifAssume(c <= 254)
		for _, o := range codes {
			verifAssume(c != o)
		}
		codes = append(codes, c)
		vals = append(vals, verifBytes("val", l))
		p.Options[c] = vals[len(vals)-1]
	}
	q, err := FromBytes(p.ToBytes())
	verifAssert(err == nil, "decode-ok")
	if err != nil {
		return
	}
	verifAssert(verifSameStr(q.ServerHostName, string(sn)), "sname")
	verifAssert(verifSameStr(q.BootFileName, string(fn)), "file")
	verifAssert(len(q.Options) == len(codes), "same-number-of-options")
	for i := range codes {
		v, ok := q.Options[codes[i]]
		verifAssert(ok, "option-present")
		verifAssert(verifSame(v, vals[i]), "option-value")
	}
	verifReach("end")
}
