//go:build verif

package dhcpv4

import "github.com/insomniacslk/dhcp/iana"

// C07: DHCPv4 encoding is deterministic, canonical and readable by any RFC decoder.

// verifOptionSet builds k = #(l >= 0) options with pairwise distinct symbolic codes in 1..254.
// with82 != 0 forces the first code to be 82.
func verifOptionSet(with82 int, ls ...int) (codes []uint8, vals [][]byte) {
	for _, l := range ls {
		if l < 0 && l != -2 {
			continue
		}
		c := verifU8("code")
		verifAssume(c >= 1)
		verifAssume(c <= 254)
		if with82 != 0 && len(codes) == 0 {
			verifAssume(c == 82)
		}
		for _, o := range codes {
			verifAssume(c != o)
		}
		codes = append(codes, c)
		if l == -2 {
			vals = append(vals, nil) // present with a nil value (what the decoder stores for a zero-length option)
		} else {
			vals = append(vals, verifBytes("val", l))
		}
	}
	return
}

// refValidateEncoding checks the layout rules of the property on encoded bytes b and returns
// the options the RFC decoder reads from it.
func refValidateEncoding(b []byte) (vals map[uint8][]byte, ok bool) {
	verifAssert(len(b) >= 300, "at-least-300-bytes")
	if len(b) < 240 {
		return nil, false
	}
	a := b[240:]
	vals = map[uint8][]byte{}
	i := 0
	first := true
	var prev uint8
	prevLen := 0
	for {
		if i >= len(a) {
			verifAssert(false, "end-option-present")
			return nil, false
		}
		c := a[i]
		if c == 255 {
			break
		}
		if c == 0 {
			verifAssert(false, "no-pad-before-end")
			return nil, false
		}
		if i+1 >= len(a) {
			verifAssert(false, "length-byte-present")
			return nil, false
		}
		l := int(a[i+1])
		if i+2+l > len(a) {
			verifAssert(false, "option-within-buffer")
			return nil, false
		}
		if !first {
			same := verifAnd(prev == c, prevLen == 255)
			asc := verifAnd(prev != c, verifAnd(prev != 82, verifOr(c == 82, prev < c)))
			verifAssert(verifOr(same, asc), "ascending-codes-82-last-split-instances-full")
		}
		old := vals[c]
		nv := make([]byte, 0, len(old)+l)
		nv = append(nv, old...)
		nv = append(nv, a[i+2:i+2+l]...)
		vals[c] = nv
		prev, prevLen, first = c, l, false
		i += 2 + l
	}
	// after End: only zero padding
	var d byte
	for j := i + 1; j < len(a); j++ {
		d |= a[j]
	}
	verifAssert(d == 0, "only-padding-after-end")
	return vals, true
}

// VerifC07Canonical: any set of up to four options under every map iteration order.
func VerifC07Canonical(with82, l1, l2, l3, l4 int) {
	codes, vals := verifOptionSet(with82, l1, l2, l3, l4)
	p := &DHCPv4{OpCode: OpcodeType(verifU8("op")), HWType: iana.HWTypeEthernet, HopCount: verifU8("hops"), Options: Options{}}
	for i := range codes {
		p.Options[codes[i]] = vals[i]
	}
	verifMapOrder(true)
	b := p.ToBytes()
	verifMapOrder(false)
	got, ok := refValidateEncoding(b)
	if !ok {
		return
	}
	h, hok := refParseHeader(b)
	verifAssert(hok, "header-complete")
	verifAssert(h.cookieOK, "magic-cookie")
	verifAssert(h.op == byte(p.OpCode), "opcode-readable")
	verifAssert(h.hops == p.HopCount, "hops-readable")
	verifAssert(len(got) == len(codes), "decoder-recovers-exactly-the-options")
	for i := range codes {
		v, has := got[codes[i]]
		verifAssert(has, "decoder-recovers-code")
		verifAssert(verifSame(v, vals[i]), "decoder-recovers-value")
	}
	verifReach("end")
}

// VerifC07Deterministic: two encodings of the same packet under independent iteration orders agree.
func VerifC07Deterministic(with82, l1, l2, l3 int) {
	codes, vals := verifOptionSet(with82, l1, l2, l3)
	p := &DHCPv4{OpCode: OpcodeBootRequest, HWType: iana.HWTypeEthernet, Options: Options{}}
	for i := range codes {
		p.Options[codes[i]] = vals[i]
	}
	verifMapOrder(true)
	b1 := p.ToBytes()
	b2 := p.ToBytes()
	verifMapOrder(false)
	verifAssert(verifSame(b1, b2), "same-bytes-under-any-iteration-order")
	verifReach("end")
}

// VerifC07BuildOrder: the same set of updates/deletions applied in two different orders
// gives identical bytes.  perm selects the permutation of three operations.
func VerifC07BuildOrder(perm, l1, l2, l3 int) {
	codes, vals := verifOptionSet(0, l1, l2, l3)
	k := len(codes)
	// operation i: update codes[i] := vals[i]; the last operation is a deletion of an option
	// that is present beforehand under a fourth distinct code.
	extra := verifU8("extra")
	verifAssume(extra >= 1)
	verifAssume(extra <= 254)
	for _, c := range codes {
		verifAssume(extra != c)
	}
	build := func(order []int) []byte {
		p := &DHCPv4{OpCode: OpcodeBootRequest, HWType: iana.HWTypeEthernet}
		p.UpdateOption(OptGeneric(GenericOptionCode(extra), []byte{1, 2, 3}))
		for _, i := range order {
			if i == k {
				p.DeleteOption(GenericOptionCode(extra))
			} else {
				p.UpdateOption(OptGeneric(GenericOptionCode(codes[i]), vals[i]))
			}
		}
		return p.ToBytes()
	}
	ident := []int{}
	for i := 0; i <= k; i++ {
		ident = append(ident, i)
	}
	// perm-th permutation of 0..k (factorial number system)
	pool := append([]int(nil), ident...)
	var order []int
	n := perm
	for len(pool) > 0 {
		j := n % len(pool)
		n /= len(pool)
		order = append(order, pool[j])
		pool = append(pool[:j], pool[j+1:]...)
	}
	verifMapOrder(true)
	b1 := build(ident)
	b2 := build(order)
	verifMapOrder(false)
	verifAssert(verifSame(b1, b2), "same-bytes-whatever-construction-order")
	verifReach("end")
}

// VerifC07SpecialKeys: an Options map that (also) holds the keys 0 (pad) and/or 255 (End), which
// callers can create with OptGeneric/Update.  Those keys are outside the C01 value domain, so no
// recovery of their values is claimed; the layout rules still hold for the packet: exactly one End
// option outside option values, followed only by padding, and the other options recoverable.
// keys: bit 0 = key 0 present, bit 1 = key 255 present; l = length of one ordinary option's value (-1: none).
func VerifC07SpecialKeys(keys, l int) {
	p := &DHCPv4{OpCode: OpcodeBootRequest, HWType: iana.HWTypeEthernet, Options: Options{}}
	if keys&1 != 0 {
		p.Options[0] = verifBytes("padval", 1)
	}
	if keys&2 != 0 {
		p.Options[255] = verifBytes("endval", 2)
	}
	var code uint8
	var val []byte
	if l >= 0 {
		code = verifU8("code")
		verifAssume(code >= 1)
		verifAssume(code <= 254)
		val = verifBytes("val", l)
		p.Options[code] = val
	}
	verifMapOrder(true)
	b := p.ToBytes()
	verifMapOrder(false)
	got, ok := refValidateEncoding(b)
	if !ok {
		return
	}
	if l >= 0 {
		verifAssert(len(got) == 1, "only-the-ordinary-option-is-emitted")
		v, has := got[code]
		verifAssert(has, "decoder-recovers-code")
		verifAssert(verifSame(v, val), "decoder-recovers-value")
	} else {
		verifAssert(len(got) == 0, "pad-and-end-keys-are-not-emitted-as-options")
	}
	verifReach("end")
}

// VerifC07Header: the fixed header of the encoding as an independent RFC 2131 decoder reads it:
// every field symbolic, hardware address of hlen bytes (0..16), names of snl / fl non-NUL bytes,
// addresses in the forms selected by forms (base-3 digits, see verifIP); one option so that the
// options area is not empty.
func VerifC07Header(hlen, snl, fl, forms int) {
	p := &DHCPv4{
		OpCode:     OpcodeType(verifU8("op")),
		HWType:     iana.HWType(verifU8("htype")),
		HopCount:   verifU8("hops"),
		NumSeconds: verifU16("secs"),
		Flags:      verifU16("flags"),
	}
	xid := verifBytes("xid", 4)
	copy(p.TransactionID[:], xid)
	var wci, wyi, wsi, wgi []byte
	p.ClientIPAddr, wci = verifIP("ciaddr", forms%3)
	p.YourIPAddr, wyi = verifIP("yiaddr", forms/3%3)
	p.ServerIPAddr, wsi = verifIP("siaddr", forms/9%3)
	p.GatewayIPAddr, wgi = verifIP("giaddr", forms/27%3)
	hw := verifBytes("chaddr", hlen)
	p.ClientHWAddr = hw
	sn := verifNonZeroBytes("sname", snl)
	fn := verifNonZeroBytes("file", fl)
	p.ServerHostName = string(sn)
	p.BootFileName = string(fn)
	p.Options = Options{53: []byte{verifU8("msgtype")}}
	b := p.ToBytes()
	verifObserve("encoded", b)
	got, ok := refValidateEncoding(b)
	if !ok {
		return
	}
	verifAssert(len(got) == 1, "decoder-recovers-exactly-the-options")
	h, hok := refParseHeader(b)
	verifAssert(hok, "header-complete")
	if !hok {
		return
	}
	verifAssert(h.cookieOK, "magic-cookie")
	verifAssert(h.op == byte(p.OpCode), "opcode-readable")
	verifAssert(h.htype == byte(p.HWType), "htype-readable")
	verifAssert(int(h.hlen) == hlen, "hlen-is-the-length-of-the-hardware-address")
	verifAssert(verifSame(h.chaddr, hw), "chaddr-readable")
	for i := 28 + hlen; i < 44; i++ {
		verifAssert(b[i] == 0, "chaddr-padding-is-zero")
	}
	verifAssert(h.hops == p.HopCount, "hops-readable")
	verifAssert(verifSame(h.xid[:], xid), "xid-readable")
	verifAssert(h.secs == p.NumSeconds, "secs-readable")
	verifAssert(h.flags == p.Flags, "flags-readable")
	verifAssert(verifSame(h.ci[:], wci), "ciaddr-readable")
	verifAssert(verifSame(h.yi[:], wyi), "yiaddr-readable")
	verifAssert(verifSame(h.si[:], wsi), "siaddr-readable")
	verifAssert(verifSame(h.gi[:], wgi), "giaddr-readable")
	verifAssert(verifSame(h.sname, sn), "sname-readable")
	verifAssert(verifSame(h.file, fn), "file-readable")
	verifReach("end")
}

// VerifC07SharedValue: two options are given ONE value slice (callers reuse buffers: a server's
// address, an identifier), then the first is updated again with another value of the same length
// (sameLen != 0) or of another length; the second option keeps its value, the caller's slice is
// untouched, and the encoding equals that of a packet built from scratch with these contents.
func VerifC07SharedValue(n, sameLen int) {
	c1, c2 := verifU8("code"), verifU8("code")
	verifAssume(c1 >= 1 && c1 <= 254)
	verifAssume(c2 >= 1 && c2 <= 254)
	verifAssume(c1 != c2)
	shared := verifBytes("shared", n)
	keep := append([]byte(nil), shared...)
	m := n
	if sameLen == 0 {
		m = n + 1
	}
	newer := verifBytes("newer", m)
	p := &DHCPv4{OpCode: OpcodeBootRequest, HWType: iana.HWTypeEthernet, Options: Options{}}
	p.UpdateOption(OptGeneric(GenericOptionCode(c1), shared))
	p.UpdateOption(OptGeneric(GenericOptionCode(c2), shared))
	p.UpdateOption(OptGeneric(GenericOptionCode(c1), newer))
	verifAssert(verifSame(shared, keep), "callers-value-unchanged-by-later-updates")
	b := p.ToBytes()
	got, ok := refValidateEncoding(b)
	if !ok {
		return
	}
	verifAssert(len(got) == 2, "decoder-recovers-exactly-the-options")
	verifAssert(verifSame(got[c1], newer), "decoder-recovers-value")
	verifAssert(verifSame(got[c2], keep), "decoder-recovers-value")
	fresh := &DHCPv4{OpCode: OpcodeBootRequest, HWType: iana.HWTypeEthernet, Options: Options{c1: append([]byte(nil), newer...), c2: append([]byte(nil), keep...)}}
	verifAssert(verifSame(fresh.ToBytes(), b), "equal-contents-encode-to-identical-bytes")
	verifReach("end")
}
