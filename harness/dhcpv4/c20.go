//go:build verif

package dhcpv4

// C20: reading or printing a message never changes it (DHCPv4 part).  The lists of read-only
// methods and of option constructors come from zz_verif_generated.go, produced by gosym from the
// package's types on every run.

import (
	"net"

	"github.com/insomniacslk/dhcp/iana"
)

// verifC20CheckOption: a standalone option value built by an exported constructor encodes the same
// before and after being printed / read, and repeated reads agree.
func verifC20CheckOption(o Option) {
	b0 := o.Value.ToBytes()
	verifObserve("encoding", b0)
	_ = o.Value.String()
	verifAssert(verifSame(o.Value.ToBytes(), b0), "value-String-leaves-encoding-unchanged")
	_ = o.String()
	verifAssert(verifSame(o.Value.ToBytes(), b0), "option-String-leaves-encoding-unchanged")
	_ = o.Value.String()
	b1 := o.Value.ToBytes()
	verifAssert(verifSame(b1, b0), "repeated-reads-agree")
	// the value inside a packet is equally unaffected
	p := &DHCPv4{OpCode: OpcodeBootRequest, HWType: iana.HWTypeEthernet, Options: Options{}}
	p.UpdateOption(o)
	e0 := p.ToBytes()
	_ = p.Summary()
	_ = o.String()
	verifAssert(verifSame(p.ToBytes(), e0), "packet-encoding-unchanged-after-printing")
	verifReach("end")
}

// VerifC20Packet: a packet with symbolic header fields and one option with symbolic code and an
// n-byte symbolic value (plus a message type option); every read-only method, twice, in order k1 then k2
// (k2 = -1: all of them in sequence); the encoding must stay the same throughout.
func VerifC20Packet(n, k1, k2 int) {
	p := &DHCPv4{
		OpCode: OpcodeBootReply, HWType: iana.HWTypeEthernet, HopCount: verifU8("hops"),
		NumSeconds: verifU16("secs"), Flags: 0x8000,
		ClientIPAddr: verifBytes("ciaddr", 4), YourIPAddr: verifBytes("yiaddr", 4),
		ClientHWAddr: verifBytes("chaddr", 6), Options: Options{},
	}
	code := verifU8("code")
	verifAssume(code >= 1)
	verifAssume(code <= 254)
	verifAssume(code != 53)
	if k2 >= 0 {
		// single readers and pairs: everything the printers branch on is symbolic
		p.OpCode = OpcodeType(verifU8("op"))
		p.Flags = verifU16("flags")
		p.Options[53] = []byte{verifU8("msgtype")}
	} else {
		// the whole sequence of readers: header concrete, option code and value symbolic
		p.Options[53] = []byte{byte(MessageTypeAck)}
	}
	p.Options[code] = verifBytes("val", n)
	e0 := p.ToBytes()
	if k2 >= 0 {
		d1 := verifPacketReader(p, k1)
		verifAssert(verifSame(p.ToBytes(), e0), "reader-leaves-encoding-unchanged")
		verifPacketReader(p, k2)
		verifAssert(verifSame(p.ToBytes(), e0), "second-reader-leaves-encoding-unchanged")
		d2 := verifPacketReader(p, k1)
		verifAssert(verifSame(p.ToBytes(), e0), "repeated-reader-leaves-encoding-unchanged")
		verifAssert(verifSame(d1, d2), "repeated-calls-return-equal-results")
	} else {
		// every reader once (results folded into a digest), then every reader again in the
		// opposite order: each result must equal the first one whatever was called in between
		np, no := len(verifPacketReaderNames), len(verifOptionsReaderNames)
		dp, do := make([][]byte, np), make([][]byte, no)
		var keep verifKeep
		for k := 0; k < np; k++ {
			dp[k] = verifPacketReaderK(p, k, &keep.refs)
			keep.snapshot()
			verifAssert(verifSame(p.ToBytes(), e0), "reader-leaves-encoding-unchanged")
		}
		for k := 0; k < no; k++ {
			do[k] = verifOptionsReaderK(p.Options, k, &keep.refs)
			keep.snapshot()
			verifAssert(verifSame(p.ToBytes(), e0), "options-reader-leaves-encoding-unchanged")
		}
		for k := no - 1; k >= 0; k-- {
			verifAssert(verifSame(verifOptionsReader(p.Options, k), do[k]), "repeated-calls-return-equal-results")
			keep.check()
		}
		for k := np - 1; k >= 0; k-- {
			verifAssert(verifSame(verifPacketReader(p, k), dp[k]), "repeated-calls-return-equal-results")
			keep.check()
		}
		verifAssert(verifSame(p.ToBytes(), e0), "reader-leaves-encoding-unchanged")
		keep.check()
	}
	verifReach("end")
}

// VerifC20Order: a packet holding the relay agent information option and one more option with a
// symbolic code; every iteration over the option map may take any order (explored). Encoding
// several times, with accessors in between, must give the same bytes: repeated calls return equal
// results whatever order the runtime walks the map in.
func VerifC20Order(n int) {
	code := verifU8("code")
	verifAssume(code >= 1)
	verifAssume(code <= 254)
	verifAssume(code != 82)
	p := &DHCPv4{OpCode: OpcodeBootReply, HWType: iana.HWTypeEthernet, ClientHWAddr: verifBytes("chaddr", 6),
		Options: Options{82: verifBytes("rai", 3), code: verifBytes("val", n)}}
	verifMapOrder(true)
	b1 := p.ToBytes()
	b2 := p.ToBytes()
	_ = p.RelayAgentInfo()
	_ = p.Options.ToBytes()
	b3 := p.ToBytes()
	verifMapOrder(false)
	verifAssert(verifSame(b1, b2), "repeated-calls-return-equal-results")
	verifAssert(verifSame(b1, b3), "reader-leaves-encoding-unchanged")
	verifReach("end")
}

// verifKeep holds the byte slices readers handed out (the slices themselves) beside copies taken
// at that moment: a later read-only call must not rewrite what an earlier one returned.
type verifKeep struct {
	refs, copies [][]byte
}

func (k *verifKeep) snapshot() {
	k.check() // after every call: a buffer that is rewritten and later restored must not go unseen
	for i := len(k.copies); i < len(k.refs); i++ {
		k.copies = append(k.copies, append([]byte(nil), k.refs[i]...))
	}
}

func (k *verifKeep) check() {
	for i := range k.copies {
		verifAssert(verifSame(k.refs[i], k.copies[i]), "results-handed-out-earlier-are-not-rewritten-by-later-calls")
	}
}

// VerifC20Fields: a packet built by hand (hardware address of hwlen bytes, also longer than the
// 16-byte wire field; names; addresses): every read-only method and every encoding leaves the
// packet's exported fields exactly as they were.
func VerifC20Fields(hwlen int) {
	hw := verifBytes("chaddr", hwlen)
	p := &DHCPv4{OpCode: OpcodeBootRequest, HWType: iana.HWTypeEthernet, ClientHWAddr: hw,
		ClientIPAddr: verifBytes("ciaddr", 4), YourIPAddr: verifBytes("yiaddr", 4), ServerIPAddr: verifBytes("siaddr", 4), GatewayIPAddr: verifBytes("giaddr", 4),
		ServerHostName: string(verifNonZeroBytes("sname", 3)), BootFileName: string(verifNonZeroBytes("file", 3)),
		Options: Options{53: []byte{1}}}
	hw0 := append([]byte(nil), hw...)
	ci0, yi0 := append([]byte(nil), p.ClientIPAddr...), append([]byte(nil), p.YourIPAddr...)
	sn0, fn0 := p.ServerHostName, p.BootFileName
	b0 := p.ToBytes()
	for k := range verifPacketReaderNames {
		verifPacketReader(p, k)
		verifAssert(len(p.ClientHWAddr) == hwlen && verifSame(p.ClientHWAddr, hw0), "reader-leaves-the-packets-fields-unchanged")
	}
	verifAssert(verifSame(p.ClientIPAddr, ci0) && verifSame(p.YourIPAddr, yi0), "reader-leaves-the-packets-fields-unchanged")
	verifAssert(verifSameStr(p.ServerHostName, sn0) && verifSameStr(p.BootFileName, fn0), "reader-leaves-the-packets-fields-unchanged")
	verifAssert(verifSame(p.ToBytes(), b0), "reader-leaves-encoding-unchanged")
	verifReach("end")
}

// VerifC20Routes: a classless static route whose destination has a prefix of `ones` bits and
// symbolic address bytes (also bits beyond the prefix; form16 != 0: the address in its 16-byte
// form) is made into an option and put into a packet: printing the option, encoding it, encoding
// and printing the packet leave the caller's Route exactly as it was, and every encoding equals
// the first one.
func VerifC20Routes(ones, form16 int) {
	dst := verifBytes("dst", 4)
	ip := net.IP(dst)
	if form16 != 0 {
		ip = make(net.IP, 16)
		ip[10], ip[11] = 0xff, 0xff
		copy(ip[12:], dst)
	}
	r := &Route{Dest: &net.IPNet{IP: ip, Mask: net.CIDRMask(ones, 32)}, Router: net.IP(verifBytes("gw", 4))}
	ip0 := append([]byte(nil), r.Dest.IP...)
	mask0 := append([]byte(nil), r.Dest.Mask...)
	gw0 := append([]byte(nil), r.Router...)
	same := func() {
		verifAssert(verifSame(r.Dest.IP, ip0), "reading-or-encoding-leaves-the-callers-route-unchanged")
		verifAssert(verifSame(r.Dest.Mask, mask0), "reading-or-encoding-leaves-the-callers-route-unchanged")
		verifAssert(verifSame(r.Router, gw0), "reading-or-encoding-leaves-the-callers-route-unchanged")
	}
	o := OptClasslessStaticRoute(r)
	same()
	_ = o.String()
	same()
	b0 := append([]byte(nil), o.Value.ToBytes()...)
	same()
	_ = r.String()
	p := &DHCPv4{OpCode: OpcodeBootReply, HWType: iana.HWTypeEthernet, Options: Options{}}
	p.UpdateOption(o)
	same()
	e0 := append([]byte(nil), p.ToBytes()...)
	same()
	_ = p.Summary()
	_ = p.ClasslessStaticRoute()
	same()
	verifAssert(verifSame(o.Value.ToBytes(), b0), "repeated-reads-agree")
	verifAssert(verifSame(p.ToBytes(), e0), "packet-encoding-unchanged-after-printing")
	verifReach("end")
}
