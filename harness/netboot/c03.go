//go:build verif

package netboot

// C03 (netboot): the conversation extractors never panic on sequences of decoded messages.

import (
	"github.com/insomniacslk/dhcp/dhcpv4"
	"github.com/insomniacslk/dhcp/dhcpv6"
)

// verifV6Message decodes a message of symbolic type with the options selected by bits:
// 1 IA_NA with one address, 2 boot file URL, 4 DNS servers, 8 boot file parameters.
func verifV6Message(bits int) dhcpv6.DHCPv6 {
	w := []byte{verifU8("type"), 9, 9, 9}
	verifAssume(w[0] != 12)
	verifAssume(w[0] != 13)
	if bits&1 != 0 {
		w = append(w, 0, 3, 0, 40)
		w = append(w, verifBytes("iaid", 4)...)
		w = append(w, 0, 0, 0, 10, 0, 0, 0, 20)
		w = append(w, 0, 5, 0, 24)
		w = append(w, verifBytes("addr", 16)...)
		w = append(w, 0, 0, 0, 30, 0, 0, 0, 40)
	}
	if bits&2 != 0 {
		w = append(w, 0, 59, 0, 3)
		w = append(w, verifBytes("url", 3)...)
	}
	if bits&4 != 0 {
		w = append(w, 0, 23, 0, 16)
		w = append(w, verifBytes("dns", 16)...)
	}
	if bits&8 != 0 {
		w = append(w, 0, 60, 0, 4, 0, 2)
		w = append(w, verifBytes("param", 2)...)
	}
	d, err := dhcpv6.FromBytes(w)
	if err != nil {
		return nil
	}
	return d
}

// VerifC03Conversation6: conversations of 0..3 decoded messages (b = -1: no such message).
func VerifC03Conversation6(b1, b2, b3 int) {
	var conv []dhcpv6.DHCPv6
	for _, b := range []int{b1, b2, b3} {
		if b < 0 {
			continue
		}
		d := verifV6Message(b)
		if d == nil {
			verifReach("end")
			return
		}
		conv = append(conv, d)
	}
	_, _ = ConversationToNetconf(conv)
	for _, d := range conv {
		if m, ok := d.(*dhcpv6.Message); ok {
			_, _ = GetNetConfFromPacketv6(m)
		}
	}
	verifReach("end")
}

// verifV4Message decodes a packet with symbolic opcode / message type / yiaddr and the options
// selected by bits: 1 subnet mask, 2 router, 4 DNS, 8 domain search (symbolic 3 bytes), 16 lease time.
func verifV4Message(bits int) *dhcpv4.DHCPv4 {
	b := make([]byte, 240)
	b[0], b[1], b[2] = verifU8("op"), 1, 6
	copy(b[16:20], verifBytes("yiaddr", 4))
	b[236], b[237], b[238], b[239] = 99, 130, 83, 99
	b = append(b, 53, 1, verifU8("msgtype"))
	if bits&1 != 0 {
		b = append(b, 1, 4)
		b = append(b, verifBytes("mask", 4)...)
	}
	if bits&2 != 0 {
		b = append(b, 3, 4)
		b = append(b, verifBytes("router", 4)...)
	}
	if bits&4 != 0 {
		b = append(b, 6, 4)
		b = append(b, verifBytes("dns", 4)...)
	}
	if bits&8 != 0 {
		b = append(b, 119, 3)
		b = append(b, verifBytes("search", 3)...)
	}
	if bits&16 != 0 {
		b = append(b, 51, 4)
		b = append(b, verifBytes("lease", 4)...)
	}
	b = append(b, 255)
	p, err := dhcpv4.FromBytes(b)
	if err != nil {
		return nil
	}
	return p
}

// VerifC03Conversation4: conversations of 0..2 decoded packets.
func VerifC03Conversation4(b1, b2 int) {
	var conv []*dhcpv4.DHCPv4
	for _, b := range []int{b1, b2} {
		if b < 0 {
			continue
		}
		p := verifV4Message(b)
		if p == nil {
			verifReach("end")
			return
		}
		conv = append(conv, p)
	}
	_, _ = ConversationToNetconfv4(conv)
	for _, p := range conv {
		_, _ = GetNetConfFromPacketv4(p)
	}
	verifReach("end")
}
