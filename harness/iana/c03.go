//go:build verif

package iana

// C03 (architecture lists): Archs.FromBytes on n symbolic bytes never panics; readers return.
func VerifC03Archs(n int) {
	var a Archs
	err := a.FromBytes(verifBytes("archs", n))
	if err == nil {
		_ = a.String()
		_ = a.ToBytes()
		_ = a.Contains(EFI_X86_64)
		verifReach("accepted")
	}
	verifReach("end")
}
