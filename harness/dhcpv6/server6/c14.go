//go:build verif

package server6

// C14 (DHCPv6 server): dispatch each valid datagram exactly once, survive bad ones.

import (
	"errors"
	"net"
	"sync"
	"time"

	"github.com/insomniacslk/dhcp/dhcpv6"
	"github.com/insomniacslk/dhcp/rfc1035label"
)

type verifRead struct {
	data       []byte
	peer       net.Addr
	err        error
	closeFirst bool // the server's Close lands while this read is in flight; the datagram is still delivered
}

type verifConn struct {
	script []verifRead
	pos    int
	closes int
	srv    *Server
}

var errVerifRead = errors.New("verif: read failed")
var errVerifClosed = errors.New("verif: use of closed network connection")

func (c *verifConn) ReadFrom(b []byte) (int, net.Addr, error) {
	if c.closes > 0 {
		return 0, nil, errVerifClosed
	}
	if c.pos >= len(c.script) {
		return 0, nil, errVerifRead
	}
	r := c.script[c.pos]
	c.pos++
	if r.err != nil {
		return 0, nil, r.err
	}
	if r.closeFirst && c.srv != nil {
		c.srv.Close()
	}
	n := copy(b, r.data)
	return n, r.peer, nil
}
func (c *verifConn) WriteTo(b []byte, a net.Addr) (int, error) { return len(b), nil }
func (c *verifConn) Close() error                              { c.closes++; return nil }
func (c *verifConn) LocalAddr() net.Addr                       { return &net.UDPAddr{Port: 547} }
func (c *verifConn) SetDeadline(t time.Time) error             { return nil }
func (c *verifConn) SetReadDeadline(t time.Time) error         { return nil }
func (c *verifConn) SetWriteDeadline(t time.Time) error        { return nil }

type verifCallRec struct {
	conn net.PacketConn
	peer net.Addr
	m    dhcpv6.DHCPv6
}

type verifExpect struct {
	wire []byte // the datagram as sent
	peer net.Addr
}

func verifSame(a, b []byte) bool {
	if len(a) != len(b) {
		return false
	}
	var d byte
	for i := range a {
		d |= a[i] ^ b[i]
	}
	return d == 0
}

// verifDatagram builds a valid datagram: kind 0 plain message with one unknown option,
// 5 relay-forward wrapping a message, 6 message with a domain search list (whose decoder keeps
// a reference into its input on the unrepaired tree).
func verifDatagram(kind int) []byte {
	var xid dhcpv6.TransactionID
	copy(xid[:], verifBytes("xid", 3))
	mt := verifU8("type")
	verifAssume(mt != 12)
	verifAssume(mt != 13)
	m := &dhcpv6.Message{MessageType: dhcpv6.MessageType(mt), TransactionID: xid}
	switch kind {
	case 0:
		m.AddOption(&dhcpv6.OptionGeneric{OptionCode: dhcpv6.OptionCode(250), OptionData: verifBytes("val", 3)})
		return m.ToBytes()
	case 3: // a datagram that fills the server's read buffer exactly (4096 bytes)
		m.AddOption(&dhcpv6.OptionGeneric{OptionCode: dhcpv6.OptionCode(250), OptionData: append(verifBytes("val", 3), make([]byte, 4085)...)})
		return m.ToBytes()
	case 8: // a large datagram (1500 bytes of option data)
		m.AddOption(&dhcpv6.OptionGeneric{OptionCode: dhcpv6.OptionCode(250), OptionData: verifBytes("val", 1500)})
		return m.ToBytes()
	case 6:
		lab := verifBytes("label", 3)
		for _, c := range lab {
			verifAssume(c != '.')
		}
		m.AddOption(dhcpv6.OptDomainSearchList(&rfc1035label.Labels{Labels: []string{string(lab)}}))
		return m.ToBytes()
	default:
		m.AddOption(&dhcpv6.OptionGeneric{OptionCode: dhcpv6.OptionCode(251), OptionData: verifBytes("val", 2)})
		link := verifBytes("link", 16)
		peer := verifBytes("peeraddr", 16)
		r := &dhcpv6.RelayMessage{MessageType: dhcpv6.MessageTypeRelayForward, HopCount: verifU8("hops"), LinkAddr: link, PeerAddr: peer}
		r.AddOption(dhcpv6.OptRelayMessage(m))
		return r.ToBytes()
	}
}

// VerifC14Serve: a script of up to three reads; kinds: 0/5/6 valid datagrams (see verifDatagram),
// 1 undecodable bytes, 2 empty read, 4 connection closed concurrently, 7 valid datagram during
// whose read the server is closed, 9 no slot.
func VerifC14Serve(k1, k2, k3 int) {
	conn := &verifConn{}
	var want []verifExpect
	kinds := []int{k1, k2, k3}
	closedAt := -1
	for i, kind := range kinds {
		if kind == 9 {
			continue
		}
		peer := &net.UDPAddr{IP: net.IP(verifBytes("peer.ip", 16)), Port: int(verifU16("peer.port"))}
		switch kind {
		case 0, 3, 5, 6, 7, 8:
			k := kind
			if k == 7 {
				k = 0
			}
			d := verifDatagram(k)
			conn.script = append(conn.script, verifRead{data: d, peer: peer, closeFirst: kind == 7})
			if closedAt < 0 {
				want = append(want, verifExpect{wire: d, peer: peer})
			}
			if kind == 7 && closedAt < 0 {
				closedAt = i + 1 // Close landed during this read: nothing after it is read
			}
		case 1:
			// relay types with a truncated header never decode
			junk := verifBytes("junk", 7)
			verifAssume(junk[0] == 12)
			conn.script = append(conn.script, verifRead{data: junk, peer: peer})
		case 2:
			conn.script = append(conn.script, verifRead{data: nil, peer: peer})
		case 4:
			conn.script = append(conn.script, verifRead{err: errVerifClosed})
			if closedAt < 0 {
				closedAt = i
			}
		}
	}
	var calls []verifCallRec
	var mu sync.Mutex
	s := &Server{conn: conn, logger: EmptyLogger{}, handler: func(c net.PacketConn, peer net.Addr, m dhcpv6.DHCPv6) {
		mu.Lock() // handlers run concurrently
		calls = append(calls, verifCallRec{c, peer, m})
		mu.Unlock()
	}}
	conn.srv = s
	err := s.Serve()
	verifSettle() // let every handler goroutine run; messages are inspected only now, after every read
	verifAssert(err != nil, "serve-returns-the-read-error")
	if closedAt >= 0 {
		verifAssert(err == errVerifClosed, "serve-returns-close-error")
	} else {
		verifAssert(err == errVerifRead, "serve-returns-read-error")
		verifAssert(conn.pos == len(conn.script), "every-datagram-was-read")
	}
	verifAssert(conn.closes >= 1, "connection-closed-on-exit")
	verifAssert(len(calls) == len(want), "handler-invoked-exactly-once-per-valid-datagram")
	verifObserveInt("dispatched", len(calls))
	if len(calls) == len(want) {
		used := make([]bool, len(calls))
		for _, e := range want {
			found := false
			for j, c := range calls {
				if used[j] || found {
					continue
				}
				if c.conn != net.PacketConn(conn) || c.peer != e.peer {
					continue
				}
				// the message equals the decoding of its datagram: it re-encodes to the datagram
				// (all datagrams here are canonical encodings)
				if verifSame(c.m.ToBytes(), e.wire) {
					used[j] = true
					found = true
				}
			}
			verifAssert(found, "handler-got-the-decoded-message-and-the-sender-as-peer")
		}
	}
	// every datagram is decoded on its own: no two handler calls are given the same message
	// object, nor messages that share memory (byte-identical datagrams included)
	for i := range calls {
		for j := i + 1; j < len(calls); j++ {
			verifAssert(calls[i].m != calls[j].m, "each-datagram-gets-a-message-of-its-own")
			verifAssert(!verifShares(calls[i].m, calls[j].m), "each-datagram-gets-a-message-of-its-own")
		}
	}
	verifReach("end")
}

// verifManyConn: n datagrams, then (all reads done) the handlers are released and reading fails.
type verifManyConn struct {
	verifConn
	release chan struct{}
}

func (c *verifManyConn) ReadFrom(b []byte) (int, net.Addr, error) {
	if c.closes == 0 && c.pos >= len(c.script) {
		close(c.release)
	}
	return c.verifConn.ReadFrom(b)
}

// VerifC14Many: a long sequence: n valid datagrams (symbolic transaction ids and option bytes) whose
// handlers all block until every datagram has been read (handlers that outlive the next reads);
// every one must be dispatched exactly once, in a message of its own, and Serve must return.
func VerifC14Many(n int) {
	conn := &verifManyConn{release: make(chan struct{})}
	var want []verifExpect
	for i := 0; i < n; i++ {
		peer := &net.UDPAddr{IP: net.IP{0x20, 1, 0xd, 0xb8, 0, 0, 0, 0, 0, 0, 0, 0, 0, 0, byte(i >> 8), byte(i)}, Port: 546}
		d := verifDatagram(0)
		conn.script = append(conn.script, verifRead{data: d, peer: peer})
		want = append(want, verifExpect{wire: d, peer: peer})
	}
	var calls []verifCallRec
	var mu sync.Mutex
	s := &Server{conn: conn, logger: EmptyLogger{}, handler: func(c net.PacketConn, peer net.Addr, m dhcpv6.DHCPv6) {
		<-conn.release
		mu.Lock() // handlers run concurrently
		calls = append(calls, verifCallRec{c, peer, m})
		mu.Unlock()
	}}
	err := s.Serve()
	verifSettle()
	verifAssert(err == errVerifRead, "serve-returns-read-error")
	verifAssert(conn.pos == len(conn.script), "every-datagram-was-read")
	verifAssert(len(calls) == n, "handler-invoked-exactly-once-per-valid-datagram")
	verifObserveInt("dispatched", len(calls))
	if len(calls) == n {
		used := make([]bool, n)
		for _, c := range calls {
			for j, e := range want {
				if !used[j] && c.peer == e.peer {
					used[j] = true
					verifAssert(verifSame(c.m.ToBytes(), e.wire), "handler-got-the-decoded-message-and-the-sender-as-peer")
				}
			}
		}
		for j := range used {
			verifAssert(used[j], "every-datagram-dispatched")
		}
	}
	verifReach("end")
}
