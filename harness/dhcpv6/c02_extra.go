//go:build verif

package dhcpv6

import "time"

// VerifC02ElapsedTimeAll: the elapsed-time codec on EVERY representable value of one 4096-value
// chunk of its 16-bit domain, executed concretely (no symbolic data): this complements
// VerifC02OptElapsedTime for implementations that leave integer arithmetic (floating point has
// no encoding in this engine and would otherwise only make that harness inconclusive).
func VerifC02ElapsedTimeAll(chunk int) {
	for k := chunk * 4096; k < (chunk+1)*4096; k++ {
		o := OptElapsedTime(time.Duration(k) * 10 * time.Millisecond)
		b := o.ToBytes()
		verifAssert(len(b) == 2 && int(b[0])<<8|int(b[1]) == k, "elapsed-time-encodes-as-hundredths-of-a-second")
		back, err := ParseOption(OptionElapsedTime, []byte{byte(k >> 8), byte(k)})
		verifAssert(err == nil, "elapsed-time-decodes")
		if err == nil {
			verifAssert(back.(*optElapsedTime).ElapsedTime == time.Duration(k)*10*time.Millisecond, "elapsed-time-decodes-to-hundredths-of-a-second")
		}
	}
	verifReach("end")
}

// VerifC06ElapsedTimeAll (C06): every value of the 16-bit elapsed-time field (4096 per chunk)
// is decoded and encoded again: the bytes come back as they were.
func VerifC06ElapsedTimeAll(chunk int) {
	for k := chunk * 4096; k < (chunk+1)*4096; k++ {
		in := []byte{byte(k >> 8), byte(k)}
		o, err := ParseOption(OptionElapsedTime, in)
		verifAssert(err == nil, "elapsed-time-decodes")
		if err == nil {
			out := o.ToBytes()
			verifAssert(len(out) == 2 && out[0] == in[0] && out[1] == in[1], "fixpoint")
		}
	}
	verifReach("end")
}
