//go:build verif

package dhcpv6

import (
	"net"
	"time"

	"github.com/insomniacslk/dhcp/dhcpv4"
	"github.com/insomniacslk/dhcp/rfc1035label"
)

// C05 per option type: ParseOption(code, payload) accepts exactly the payloads the reference
// (ref_options.go) accepts, and every typed field equals the reference's reading of the bytes.
// Nothing is asserted where the reference says "undefined" (list in ref_options.go).

// ---------------------------------------------------------------------------------------------
// Typed fields against the reference reading (precondition: the reference accepts p).

func verifCmpSecs(d time.Duration, p []byte, label string) {
	verifAssert(d == time.Duration(refBE32(p))*time.Second, label)
}

func verifCmpDUID(d DUID, p []byte) {
	r, _ := refDecDUID(p)
	switch x := d.(type) {
	case *DUIDLLT:
		verifAssert(r.typ == 1, "duid-kind")
		verifAssert(uint16(x.HWType) == r.hw, "duid-hwtype")
		verifAssert(x.Time == r.time, "duid-time")
		verifAssert(verifSame(x.LinkLayerAddr, r.body), "duid-lladdr")
	case *DUIDEN:
		verifAssert(r.typ == 2, "duid-kind")
		verifAssert(x.EnterpriseNumber == r.en, "duid-enterprise")
		verifAssert(verifSame(x.EnterpriseIdentifier, r.body), "duid-identifier")
	case *DUIDLL:
		verifAssert(r.typ == 3, "duid-kind")
		verifAssert(uint16(x.HWType) == r.hw, "duid-hwtype")
		verifAssert(verifSame(x.LinkLayerAddr, r.body), "duid-lladdr")
	case *DUIDUUID:
		verifAssert(r.typ == 4, "duid-kind")
		verifAssert(verifSame(x.UUID[:], r.body), "duid-uuid")
	case *DUIDOpaque:
		verifAssert(uint16(x.Type) == r.typ, "duid-type")
		// the four defined kinds must not end up opaque
		verifAssert(verifOr(r.typ == 0, r.typ > 4), "duid-defined-kind-is-typed")
		verifAssert(verifSame(x.Data, r.body), "duid-data")
	default:
		verifAssert(false, "duid-unexpected-kind")
	}
}

func verifCmpNames(l *rfc1035label.Labels, p []byte, label string) {
	names, _, _ := refV6Names(p)
	if l == nil {
		verifAssert(false, label+"-missing")
		return
	}
	verifAssert(len(l.Labels) == len(names), label+"-count")
	if len(l.Labels) == len(names) {
		for i := range names {
			verifAssert(verifSame([]byte(l.Labels[i]), refJoinName(names[i])), label)
		}
	}
}

func verifCmpAddrList(ips []net.IP, p []byte, label string) {
	verifAssert(len(ips) == len(p)/16, label+"-count")
	if len(ips) == len(p)/16 {
		for i := range ips {
			verifAssert(verifSame(ips[i], p[16*i:16*i+16]), label)
		}
	}
}

func verifCmpItems(items [][]byte, p []byte, label string) {
	ref, _ := refLenList(p)
	verifAssert(len(items) == len(ref), label+"-count")
	if len(items) == len(ref) {
		for i := range ref {
			verifAssert(verifSame(items[i], ref[i]), label)
		}
	}
}

// verifCmpArea: nested options in wire order, each compared by its own rules.
func verifCmpArea(opts Options, a []byte) {
	subs, _ := refTileArea(a)
	verifAssert(len(opts) == len(subs), "nested-count")
	if len(opts) == len(subs) {
		for i, s := range subs {
			verifAssert(uint16(opts[i].Code()) == s.code, "nested-code-in-wire-order")
			verifCmpOpt(opts[i], s.code, s.val)
		}
	}
}

func verifCmpOpaqueArea(opts Options, a []byte, label string) {
	subs, _ := refTileArea(a)
	verifAssert(len(opts) == len(subs), label+"-count")
	if len(opts) == len(subs) {
		for i, s := range subs {
			g, ok := opts[i].(*OptionGeneric)
			verifAssert(ok, label+"-generic")
			if ok {
				verifAssert(uint16(g.OptionCode) == s.code, label+"-code")
				verifAssert(verifSame(g.OptionData, s.val), label+"-data")
			}
		}
	}
}

func verifCmpNTP(opts Options, a []byte) {
	subs, _ := refTileArea(a)
	verifAssert(len(opts) == len(subs), "ntp-suboption-count")
	if len(opts) != len(subs) {
		return
	}
	for i, s := range subs {
		verifAssert(uint16(opts[i].Code()) == s.code, "ntp-suboption-code")
		switch x := opts[i].(type) {
		case *NTPSuboptionSrvAddr:
			verifAssert(s.code == 1, "ntp-suboption-kind")
			verifAssert(verifSame([]byte(*x), s.val), "ntp-server-address")
		case *NTPSuboptionMCAddr:
			verifAssert(s.code == 2, "ntp-suboption-kind")
			verifAssert(verifSame([]byte(*x), s.val), "ntp-multicast-address")
		case *NTPSuboptionSrvFQDN:
			verifAssert(s.code == 3, "ntp-suboption-kind")
			verifCmpNames(&x.Labels, s.val, "ntp-fqdn")
		case *OptionGeneric:
			verifAssert(verifOr(s.code == 0, s.code > 3), "ntp-defined-suboption-is-typed")
			verifAssert(verifSame(x.OptionData, s.val), "ntp-unknown-suboption-verbatim")
		default:
			verifAssert(false, "ntp-unexpected-suboption-type")
		}
	}
}

func verifCmpMsg(m DHCPv6, b []byte) {
	switch x := m.(type) {
	case *Message:
		verifAssert(verifAnd(b[0] != 12, b[0] != 13), "msg-kind")
		verifAssert(uint8(x.MessageType) == b[0], "msg-type")
		verifAssert(verifSame(x.TransactionID[:], b[1:4]), "msg-xid")
		verifCmpArea(x.Options.Options, b[4:])
	case *RelayMessage:
		verifAssert(verifOr(b[0] == 12, b[0] == 13), "msg-kind")
		verifAssert(uint8(x.MessageType) == b[0], "relay-type")
		if len(b) >= 34 {
			verifAssert(x.HopCount == b[1], "relay-hops")
			verifAssert(verifSame(x.LinkAddr, b[2:18]), "relay-link")
			verifAssert(verifSame(x.PeerAddr, b[18:34]), "relay-peer")
			verifCmpArea(x.Options.Options, b[34:])
		}
	default:
		verifAssert(false, "msg-unexpected-kind")
	}
}

func verifCmpV4(m *dhcpv4.DHCPv4, b []byte) {
	r, _ := refDecV4(b)
	if m == nil {
		verifAssert(false, "v4-missing")
		return
	}
	verifAssert(uint8(m.OpCode) == r.op, "v4-op")
	verifAssert(uint16(m.HWType) == uint16(r.htype), "v4-htype")
	verifAssert(m.HopCount == r.hops, "v4-hops")
	verifAssert(verifSame(m.TransactionID[:], r.xid), "v4-xid")
	verifAssert(m.NumSeconds == r.secs, "v4-secs")
	verifAssert(m.Flags == r.flags, "v4-flags")
	verifAssert(verifSame(m.ClientIPAddr, r.ci), "v4-ciaddr")
	verifAssert(verifSame(m.YourIPAddr, r.yi), "v4-yiaddr")
	verifAssert(verifSame(m.ServerIPAddr, r.si), "v4-siaddr")
	verifAssert(verifSame(m.GatewayIPAddr, r.gi), "v4-giaddr")
	verifAssert(verifSame(m.ClientHWAddr, r.chaddr), "v4-chaddr")
	verifAssert(verifSame([]byte(m.ServerHostName), r.sname), "v4-sname")
	verifAssert(verifSame([]byte(m.BootFileName), r.file), "v4-file")
	verifAssert(len(m.Options) == len(r.codes), "v4-option-count")
	for i, c := range r.codes {
		v, has := m.Options[c]
		verifAssert(has, "v4-option-present")
		if has {
			verifAssert(verifSame(v, r.vals[i]), "v4-option-value")
		}
	}
}

// verifCmpOpt: o was parsed from payload p of option `code`, and the reference accepts p.
func verifCmpOpt(o Option, code uint16, p []byte) {
	switch x := o.(type) {
	case *optClientID:
		verifAssert(code == refClientID, "type-for-code")
		verifCmpDUID(x.DUID, p)
	case *optServerID:
		verifAssert(code == refServerID, "type-for-code")
		verifCmpDUID(x.DUID, p)
	case *OptIANA:
		verifAssert(code == refIANA, "type-for-code")
		verifAssert(verifSame(x.IaId[:], p[0:4]), "iaid")
		verifCmpSecs(x.T1, p[4:], "t1")
		verifCmpSecs(x.T2, p[8:], "t2")
		verifCmpArea(x.Options.Options, p[12:])
	case *OptIAPD:
		verifAssert(code == refIAPD, "type-for-code")
		verifAssert(verifSame(x.IaId[:], p[0:4]), "iaid")
		verifCmpSecs(x.T1, p[4:], "t1")
		verifCmpSecs(x.T2, p[8:], "t2")
		verifCmpArea(x.Options.Options, p[12:])
	case *OptIATA:
		verifAssert(code == refIATA, "type-for-code")
		verifAssert(verifSame(x.IaId[:], p[0:4]), "iaid")
		verifCmpArea(x.Options.Options, p[4:])
	case *OptIAAddress:
		verifAssert(code == refIAAddr, "type-for-code")
		verifAssert(verifSame(x.IPv6Addr, p[0:16]), "iaaddr-address")
		verifCmpSecs(x.PreferredLifetime, p[16:], "preferred")
		verifCmpSecs(x.ValidLifetime, p[20:], "valid")
		verifCmpArea(x.Options.Options, p[24:])
	case *OptIAPrefix:
		verifAssert(code == refIAPrefix, "type-for-code")
		verifCmpSecs(x.PreferredLifetime, p[0:], "preferred")
		verifCmpSecs(x.ValidLifetime, p[4:], "valid")
		verifCmpPrefix(x.Prefix, p[8], p[9:25])
		verifCmpArea(x.Options.Options, p[25:])
	case *optRequestedOption:
		verifAssert(code == refORO, "type-for-code")
		verifCmpORO(x.OptionCodes, p)
	case *optElapsedTime:
		verifAssert(code == refElapsed, "type-for-code")
		verifAssert(x.ElapsedTime == time.Duration(refBE16(p))*10*time.Millisecond, "elapsed-10ms-units")
	case *optRelayMsg:
		verifAssert(code == refRelayMsg, "type-for-code")
		verifCmpMsg(x.Msg, p)
	case *OptStatusCode:
		verifAssert(code == refStatus, "type-for-code")
		verifAssert(uint16(x.StatusCode) == refBE16(p), "status-code")
		verifAssert(verifSame([]byte(x.StatusMessage), p[2:]), "status-message")
	case *OptUserClass:
		verifAssert(code == refUserClass, "type-for-code")
		verifCmpItems(x.UserClasses, p, "user-class")
	case *OptVendorClass:
		verifAssert(code == refVendorClass, "type-for-code")
		verifAssert(x.EnterpriseNumber == refBE32(p), "enterprise")
		verifCmpItems(x.Data, p[4:], "vendor-class")
	case *OptVendorOpts:
		verifAssert(code == refVendorOpts, "type-for-code")
		verifAssert(x.EnterpriseNumber == refBE32(p), "enterprise")
		verifCmpOpaqueArea(x.VendorOpts, p[4:], "vendor-option")
	case *optInterfaceID:
		verifAssert(code == refInterfaceID, "type-for-code")
		verifAssert(verifSame(x.ID, p), "interface-id")
	case *optDNS:
		verifAssert(code == refDNS, "type-for-code")
		verifCmpAddrList(x.NameServers, p, "dns-server")
	case *optDomainSearchList:
		verifAssert(code == refDomainList, "type-for-code")
		verifCmpNames(x.DomainSearchList, p, "search-list-name")
	case *optInformationRefreshTime:
		verifAssert(code == refInfoRefresh, "type-for-code")
		verifCmpSecs(x.InformationRefreshtime, p, "refresh-time")
	case *OptRemoteID:
		verifAssert(code == refRemoteID, "type-for-code")
		verifAssert(x.EnterpriseNumber == refBE32(p), "enterprise")
		verifAssert(verifSame(x.RemoteID, p[4:]), "remote-id")
	case *OptFQDN:
		verifAssert(code == refFQDN, "type-for-code")
		verifAssert(x.Flags == p[0], "fqdn-flags")
		verifCmpNames(x.DomainName, p[1:], "fqdn-name")
	case *OptNTPServer:
		verifAssert(code == refNTP, "type-for-code")
		verifCmpNTP(x.Suboptions, p)
	case *optBootFileURL:
		verifAssert(code == refBootURL, "type-for-code")
		verifAssert(verifSame([]byte(x.url), p), "boot-url")
	case *optBootFileParam:
		verifAssert(code == refBootParam, "type-for-code")
		ref, _ := refLenList(p)
		verifAssert(len(x.params) == len(ref), "boot-param-count")
		if len(x.params) == len(ref) {
			for i := range ref {
				verifAssert(verifSame([]byte(x.params[i]), ref[i]), "boot-param")
			}
		}
	case *optClientArchType:
		verifAssert(code == refArchType, "type-for-code")
		verifAssert(len(x.Archs) == len(p)/2, "arch-count")
		if len(x.Archs) == len(p)/2 {
			for i := range x.Archs {
				verifAssert(uint16(x.Archs[i]) == refBE16(p[2*i:]), "arch")
			}
		}
	case *OptNetworkInterfaceID:
		verifAssert(code == refNII, "type-for-code")
		verifAssert(uint8(x.Typ) == p[0], "nii-type")
		verifAssert(x.Major == p[1], "nii-major")
		verifAssert(x.Minor == p[2], "nii-minor")
	case *optClientLinkLayerAddress:
		verifAssert(code == refClientLL, "type-for-code")
		verifAssert(uint16(x.LinkLayerType) == refBE16(p), "ll-type")
		verifAssert(verifSame(x.LinkLayerAddress, p[2:]), "ll-address")
	case *OptDHCPv4Msg:
		verifAssert(code == refV4Msg, "type-for-code")
		verifCmpV4(x.Msg, p)
	case *OptDHCP4oDHCP6Server:
		verifAssert(code == ref4o6Server, "type-for-code")
		verifCmpAddrList(x.DHCP4oDHCP6Servers, p, "4o6-server")
	case *Opt4RD:
		verifAssert(code == ref4RD, "type-for-code")
		verifCmpArea(x.Options, p)
	case *Opt4RDMapRule:
		verifAssert(code == ref4RDMap, "type-for-code")
		verifCmpMask(x.Prefix4.Mask, p[0], 4, "4rd-prefix4-length")
		verifCmpMask(x.Prefix6.Mask, p[1], 16, "4rd-prefix6-length")
		verifAssert(x.EABitsLength == p[2], "4rd-ea-bits")
		verifAssert(x.WKPAuthorized == (p[3]&0x80 != 0), "4rd-wkp")
		verifAssert(verifSame(x.Prefix4.IP, p[4:8]), "4rd-prefix4")
		verifAssert(verifSame(x.Prefix6.IP, p[8:24]), "4rd-prefix6")
	case *Opt4RDNonMapRule:
		verifAssert(code == ref4RDNonMap, "type-for-code")
		verifAssert(x.HubAndSpoke == (p[0]&0x80 != 0), "4rd-hub-and-spoke")
		hasTC := p[0]&0x01 != 0
		verifAssert((x.TrafficClass != nil) == hasTC, "4rd-traffic-class-presence")
		if x.TrafficClass != nil {
			verifAssert(*x.TrafficClass == p[1], "4rd-traffic-class")
		}
		verifAssert(x.DomainPMTU == refBE16(p[2:]), "4rd-pmtu")
	case *optRelayPort:
		verifAssert(code == refRelayPort, "type-for-code")
		verifAssert(x.DownstreamSourcePort == refBE16(p), "relay-port")
	case *OptionGeneric:
		verifAssert(!refIsKnown(code), "known-code-is-typed")
		verifAssert(uint16(x.OptionCode) == code, "generic-code")
		verifAssert(verifSame(x.OptionData, p), "unknown-payload-verbatim")
	default:
		verifAssert(false, "unexpected-option-type")
	}
}

// verifCmpMask: mask has `ones` leading ones over n bytes (ones already known to be in range).
func verifCmpMask(mask net.IPMask, ones uint8, n int, label string) {
	verifAssert(len(mask) == n, label+"-size")
	if len(mask) != n {
		return
	}
	// count of one bits and contiguity: sum over bytes of popcount must equal `ones`, and the
	// mask must be of the form 1*0*: every byte is one of the nine prefix bytes and once a byte
	// is not 0xff all later bytes are 0.
	total := 0
	for i := 0; i < n; i++ {
		total += verifPop8(mask[i])
	}
	verifAssert(total == int(ones), label)
	wellFormed := true
	tailMustBeZero := false
	for i := 0; i < n; i++ {
		b := mask[i]
		isPrefixByte := verifOr(verifOr(verifOr(b == 0x00, b == 0x80), verifOr(b == 0xc0, b == 0xe0)),
			verifOr(verifOr(b == 0xf0, b == 0xf8), verifOr(verifOr(b == 0xfc, b == 0xfe), b == 0xff)))
		wellFormed = verifAnd(wellFormed, isPrefixByte)
		wellFormed = verifAnd(wellFormed, verifOr(!tailMustBeZero, b == 0))
		tailMustBeZero = verifOr(tailMustBeZero, b != 0xff)
	}
	verifAssert(wellFormed, label+"-contiguous")
}

func verifPop8(b byte) int {
	return int(b&1) + int(b>>1&1) + int(b>>2&1) + int(b>>3&1) + int(b>>4&1) + int(b>>5&1) + int(b>>6&1) + int(b>>7&1)
}

// verifCmpPrefix: IAPREFIX prefix field (U10: address octets of a /0 are not compared).
func verifCmpPrefix(pfx *net.IPNet, plen uint8, addr []byte) {
	if pfx == nil {
		verifAssert(plen == 0, "prefix-missing-only-for-length-0")
		return
	}
	verifCmpMask(pfx.Mask, plen, 16, "prefix-length")
	verifAssert(verifOr(plen == 0, verifSame(pfx.IP, addr)), "prefix-address")
}

// verifCmpORO: U12, repetitions removed, first occurrences in wire order.
func verifCmpORO(codes OptionCodes, p []byte) {
	n := len(p) / 2
	// position i is a first occurrence iff no earlier position has the same code
	idx := 0 // number of first occurrences so far: concrete only if repetitions are decided
	for i := 0; i < n; i++ {
		c := refBE16(p[2*i:])
		first := true
		for j := 0; j < i; j++ {
			if refBE16(p[2*j:]) == c {
				first = false
			}
		}
		if first {
			verifAssert(idx < len(codes), "oro-count")
			if idx < len(codes) {
				verifAssert(uint16(codes[idx]) == c, "oro-code-in-wire-order")
			}
			idx++
		}
	}
	verifAssert(idx == len(codes), "oro-count")
}

// ---------------------------------------------------------------------------------------------
// Harness driver.

func verifC05Payload(code uint16, p []byte) {
	o, err := ParseOption(OptionCode(code), p)
	st := refOptStatus(code, p)
	if st == refUndef {
		verifReach("undefined-by-rfc")
		verifReach("end")
		return
	}
	verifObserveInt("accepted", verifB2I(err == nil))
	switch st {
	case refRejectPrefixLen:
		verifAssert(err != nil, "reject-prefix-length-out-of-range")
	case refRejectRemoteIDShort:
		verifAssert(err != nil, "reject-remote-id-shorter-than-5")
	default:
		verifAssert((err == nil) == (st == refAccept), "accept-iff-wellformed")
	}
	if err == nil && st == refAccept {
		verifAssert(uint16(o.Code()) == code, "code")
		verifCmpOpt(o, code, p)
		verifReach("accepted")
	}
	verifReach("end")
}

func verifC05Opt(code uint16, n int) { verifC05Payload(code, verifBytes("p", n)) }

func VerifC05OptClientID(n int)               { verifC05Opt(refClientID, n) }
func VerifC05OptServerID(n int)               { verifC05Opt(refServerID, n) }
func VerifC05OptIANA(n int)                   { verifC05Opt(refIANA, n) }
func VerifC05OptIATA(n int)                   { verifC05Opt(refIATA, n) }
func VerifC05OptIAAddress(n int)              { verifC05Opt(refIAAddr, n) }
func VerifC05OptRequestedOption(n int)        { verifC05Opt(refORO, n) }
func VerifC05OptElapsedTime(n int)            { verifC05Opt(refElapsed, n) }
func VerifC05OptRelayMsg(n int)               { verifC05Opt(refRelayMsg, n) }
func VerifC05OptStatusCode(n int)             { verifC05Opt(refStatus, n) }
func VerifC05OptUserClass(n int)              { verifC05Opt(refUserClass, n) }
func VerifC05OptVendorClass(n int)            { verifC05Opt(refVendorClass, n) }
func VerifC05OptVendorOpts(n int)             { verifC05Opt(refVendorOpts, n) }
func VerifC05OptInterfaceID(n int)            { verifC05Opt(refInterfaceID, n) }
func VerifC05OptDNS(n int)                    { verifC05Opt(refDNS, n) }
func VerifC05OptDomainSearchList(n int)       { verifC05Opt(refDomainList, n) }
func VerifC05OptIAPD(n int)                   { verifC05Opt(refIAPD, n) }
func VerifC05OptIAPrefix(n int)               { verifC05Opt(refIAPrefix, n) }
func VerifC05OptInformationRefreshTime(n int) { verifC05Opt(refInfoRefresh, n) }
func VerifC05OptRemoteID(n int)               { verifC05Opt(refRemoteID, n) }
func VerifC05OptFQDN(n int)                   { verifC05Opt(refFQDN, n) }
func VerifC05OptNTPServer(n int)              { verifC05Opt(refNTP, n) }
func VerifC05OptBootFileURL(n int)            { verifC05Opt(refBootURL, n) }
func VerifC05OptBootFileParam(n int)          { verifC05Opt(refBootParam, n) }
func VerifC05OptClientArchType(n int)         { verifC05Opt(refArchType, n) }
func VerifC05OptNII(n int)                    { verifC05Opt(refNII, n) }
func VerifC05OptClientLinkLayerAddress(n int) { verifC05Opt(refClientLL, n) }
func VerifC05OptDHCP4oDHCP6Server(n int)      { verifC05Opt(ref4o6Server, n) }
func VerifC05Opt4RD(n int)                    { verifC05Opt(ref4RD, n) }
func VerifC05Opt4RDMapRule(n int)             { verifC05Opt(ref4RDMap, n) }
func VerifC05Opt4RDNonMapRule(n int)          { verifC05Opt(ref4RDNonMap, n) }
func VerifC05OptRelayPort(n int)              { verifC05Opt(refRelayPort, n) }

// VerifC05OptGeneric: a symbolic code outside the known list keeps its payload verbatim.
func VerifC05OptGeneric(n int) {
	code := verifU16("code")
	verifAssume(!refIsKnown(code))
	verifC05Payload(code, verifBytes("p", n))
}

// verifV4Packet builds the bytes of a DHCPv4 message: all header fields symbolic, `sname` and
// `file` holding sl / fl symbolic non-NUL bytes followed by NULs, a symbolic magic cookie when
// n < 0 (then no options area), else the right cookie and an options area of n symbolic bytes.
func verifV4Packet(sl, fl, n int) []byte {
	b := make([]byte, 240)
	copy(b[0:28], verifBytes("v4hdr", 28))
	copy(b[28:44], verifBytes("v4chaddr", 16))
	sn := verifBytes("v4sname", sl)
	for i := range sn {
		verifAssume(sn[i] != 0)
	}
	copy(b[44:], sn)
	fn := verifBytes("v4file", fl)
	for i := range fn {
		verifAssume(fn[i] != 0)
	}
	copy(b[108:], fn)
	if n < 0 {
		copy(b[236:], verifBytes("v4cookie", 4))
		return b
	}
	b[236], b[237], b[238], b[239] = 99, 130, 83, 99
	return append(b, verifBytes("v4opt", n)...)
}

// VerifC05OptDHCPv4Msg: see verifV4Packet; trunc > 0 cuts that many bytes off the end of the
// fixed part (n < 0 only).
func VerifC05OptDHCPv4Msg(sl, fl, n, trunc int) {
	b := verifV4Packet(sl, fl, n)
	if n < 0 && trunc > 0 {
		b = b[:240-trunc]
	}
	verifC05Payload(refV4Msg, b)
}

// VerifC05Containers: container option `kind` with its fixed part symbolic and an inner options
// area of n symbolic bytes (all codes, known and unknown, all lengths): inner overrun, trailing
// bytes and nested options with a wrong fixed length must reject; accepted inner options are
// compared recursively.
//
//	0 IA_NA  1 IA_TA  2 IA_PD  3 IAADDR  4 IAPREFIX  5 VENDOR_OPTS  6 NTP
//	7 RELAY_MSG holding a message (type symbolic, 12/13 included, 3 more header bytes)
//	8 RELAY_MSG holding a relay message (type 12 or 13, 33 more header bytes)
//	9 4RD
func VerifC05Containers(kind, n int) {
	switch kind {
	case 0:
		verifC05Opt(refIANA, 12+n)
	case 1:
		verifC05Opt(refIATA, 4+n)
	case 2:
		verifC05Opt(refIAPD, 12+n)
	case 3:
		verifC05Opt(refIAAddr, 24+n)
	case 4:
		// prefix length fixed at 64: its range is VerifC05OptIAPrefix's subject, and a symbolic
		// one multiplies the paths of the inner area by 19
		p := verifBytes("p", 25+n)
		p[8] = 64
		verifC05Payload(refIAPrefix, p)
	case 5:
		verifC05Opt(refVendorOpts, 4+n)
	case 6:
		verifC05Opt(refNTP, n)
	case 7:
		verifC05Opt(refRelayMsg, 4+n)
	case 8:
		p := verifBytes("p", 34+n)
		verifAssume(verifOr(p[0] == 12, p[0] == 13))
		verifC05Payload(refRelayMsg, p)
	default:
		verifC05Opt(ref4RD, n)
	}
}

// VerifC05Headers: every byte string of length n through FromBytes, MessageFromBytes and
// RelayMessageFromBytes.  n <= 5: the type byte is fully symbolic; n > 5 (up to 36): the type is
// 12 or 13 (the 34-byte relay header, then 0..2 bytes that cannot hold an option).
func VerifC05Headers(n int) {
	b := verifBytes("b", n)
	if n > 5 {
		verifAssume(verifOr(b[0] == 12, b[0] == 13))
	}
	m, err := FromBytes(b)
	st := refMsgStatus(b)
	if st == refUndef {
		verifReach("undefined-by-rfc")
		verifReach("end")
		return
	}
	verifObserveInt("accepted", verifB2I(err == nil))
	switch st {
	case refRejectPrefixLen:
		verifAssert(err != nil, "reject-prefix-length-out-of-range")
	case refRejectRemoteIDShort:
		verifAssert(err != nil, "reject-remote-id-shorter-than-5")
	default:
		verifAssert((err == nil) == (st == refAccept), "accept-iff-wellformed")
	}
	if err == nil && st == refAccept {
		verifCmpMsg(m, b)
		isRelay := b[0] == 12 || b[0] == 13
		pm, perr := MessageFromBytes(b)
		rm, rerr := RelayMessageFromBytes(b)
		verifAssert((perr == nil) == !isRelay, "message-parser-takes-non-relay-types-only")
		verifAssert((rerr == nil) == isRelay, "relay-parser-takes-relay-types-only")
		if perr == nil {
			verifCmpMsg(pm, b)
		}
		if rerr == nil {
			verifCmpMsg(rm, b)
		}
		verifReach("accepted")
	}
	verifReach("end")
}

// verifContainer gives the option code and the length of the fixed part of container `kind`
// (numbering of VerifC05Containers) and constrains the fixed bytes where the kind needs it.
func verifContainer(kind int) (code uint16, fixed int) {
	switch kind {
	case 0:
		return refIANA, 12
	case 1:
		return refIATA, 4
	case 2:
		return refIAPD, 12
	case 3:
		return refIAAddr, 24
	case 4:
		return refIAPrefix, 25
	case 5:
		return refVendorOpts, 4
	case 6:
		return refNTP, 0
	case 7:
		return refRelayMsg, 4
	case 8:
		return refRelayMsg, 34
	default:
		return ref4RD, 0
	}
}

// verifWrappedPayload: container `kind` whose inner area holds exactly one option with the
// concrete code `inner`, l symbolic payload bytes, and a length field of l+d (d = -1: one
// trailing byte, d = +1: overrun by one).
func verifWrappedPayload(kind, inner, l, d int) (code uint16, p []byte, innerAt int) {
	code, fixed := verifContainer(kind)
	p = verifBytes("p", fixed)
	if kind == 7 {
		verifAssume(verifAnd(p[0] != 12, p[0] != 13))
	}
	if kind == 8 {
		verifAssume(verifOr(p[0] == 12, p[0] == 13))
	}
	if kind == 4 {
		p[8] = 64 // prefix lengths are VerifC05OptIAPrefix's subject
	}
	p = refPut16(p, uint16(inner))
	p = refPut16(p, uint16(l+d))
	innerAt = len(p)
	p = append(p, verifBytes("q", l)...)
	return code, p, innerAt
}

// VerifC05Wrapped: see verifWrappedPayload.  For NTP (kind 6) `inner` is a sub-option code.
func VerifC05Wrapped(kind, inner, l, d int) {
	code, p, _ := verifWrappedPayload(kind, inner, l, d)
	verifC05Payload(code, p)
}

// VerifC05KnownCodes ties the reference's table of known codes to the library's ParseOption
// switch: every code in the table gets a typed option, every other code a generic one.
func VerifC05KnownCodes() {
	for _, k := range refKnownCodes {
		o, _ := ParseOption(OptionCode(k), nil)
		_, generic := o.(*OptionGeneric)
		verifAssert(!generic, "table-code-is-typed-by-the-library")
		verifAssert(uint16(o.Code()) == k, "table-code-maps-to-its-own-type")
	}
	c := verifU16("code")
	verifAssume(!refIsKnown(c))
	o, err := ParseOption(OptionCode(c), nil)
	verifAssert(err == nil, "unknown-code-accepted")
	_, generic := o.(*OptionGeneric)
	verifAssert(generic, "code-outside-the-table-is-generic")
	verifReach("end")
}
