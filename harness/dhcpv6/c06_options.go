//go:build verif

package dhcpv6

// C06 (DHCPv6 part): decode -> encode -> decode is a fixpoint, per option type.
//
// For every payload b of n symbolic bytes that ParseOption accepts:
//   m1 = ParseOption(code, b); b1 = m1.ToBytes();
//   m2 = ParseOption(code, b1) must succeed            ("reencoded-decodes")
//   m2.ToBytes() == b1 byte for byte                   ("fixpoint")
//   m2 equals m1 field by field (verifEqOpt)           ("eq-*": the re-encoded bytes decode to an
//                                                        equal message)
// The input space is everything the library accepts, canonical or not: out-of-range prefix
// lengths, repeated ORO codes, reserved flag bits, names with compression pointers.
//
// The only normalisations the property allows on the way from b to b1 are without semantic
// content (duplicate ORO codes, reserved bits); they happen between b and m1, so m1 / b1 / m2 are
// compared strictly.

func verifC06Payload(code uint16, b []byte, secsAt ...int) {
	verifAvoidEngineGap(code, b)
	m1, err := ParseOption(OptionCode(code), b)
	if err != nil {
		verifReach("rejected")
		verifReach("end")
		return
	}
	b1 := m1.ToBytes()
	verifObserve("reencoded", b1)
	if code == refFQDN {
		// RFC 4704 §4.2: a name without the terminating root label is a PARTIAL name, one with it is
		// fully qualified: re-encoding must not turn one into the other (nor expand or compress
		// anything): an unmodified FQDN option re-encodes to the bytes it was decoded from
		verifAssert(verifSame(b1, b), "names-reencode-as-received")
	}
	m2, err2 := ParseOption(OptionCode(code), b1)
	verifAssert(err2 == nil, "reencoded-decodes")
	if err2 != nil {
		verifReach("end")
		return
	}
	b2 := m2.ToBytes()
	verifFixpointBytes(b2, b1, secsAt)
	verifEqOpt(m1, m2)
	verifReach("accepted")
	verifReach("end")
}

// verifAvoidEngineGap used to exclude inputs whose re-encoding reached encoding/binary.Write with an
// empty slice (reflection); gosym now models binary.Write for byte slices, so nothing is excluded.
func verifAvoidEngineGap(code uint16, p []byte) {}

// verifSameEq is verifSame as a conjunction of byte equalities instead of an xor/or fold: the
// re-encoded lifetimes are 64-bit multiply/divide terms that the solver handles in integer
// arithmetic, where equalities are cheap and bitwise operators are not.
func verifSameEq(a, b []byte) bool {
	if len(a) != len(b) {
		return false
	}
	eq := true
	for i := range a {
		eq = verifAnd(eq, a[i] == b[i])
	}
	return eq
}

// verifFixpointBytes: b2 == b1 byte for byte; the 4-byte fields at secsAt (second counts that
// went through the time.Duration codec) are compared as numbers, everything else bytewise.
func verifFixpointBytes(b2, b1 []byte, secsAt []int) {
	verifAssert(len(b2) == len(b1), "fixpoint-length")
	if len(b2) != len(b1) {
		return
	}
	skip := make([]bool, len(b1))
	for _, o := range secsAt {
		if o+4 <= len(b1) {
			verifAssert(refBE32(b2[o:]) == refBE32(b1[o:]), "fixpoint-seconds")
			skip[o], skip[o+1], skip[o+2], skip[o+3] = true, true, true, true
		}
	}
	eq := true
	for i := range b1 {
		if !skip[i] {
			eq = verifAnd(eq, b2[i] == b1[i])
		}
	}
	verifAssert(eq, "fixpoint")
}

// verifWordBytes overwrites p[o:o+4] (if inside p) with the big-endian bytes of a fresh symbolic
// 32-bit number: the same input space as four symbolic bytes, but the decoder's be32 of them
// simplifies back to the number, which keeps the lifetime arithmetic in one piece.
func verifWordBytes(p []byte, offsets ...int) {
	for _, o := range offsets {
		if o+4 <= len(p) {
			v := verifU32("secs")
			p[o], p[o+1], p[o+2], p[o+3] = byte(v>>24), byte(v>>16), byte(v>>8), byte(v)
		}
	}
}

func verifC06Opt(code uint16, n int, secsAt ...int) {
	p := verifBytes("p", n)
	verifWordBytes(p, secsAt...)
	verifC06Payload(code, p, secsAt...)
}

func VerifC06OptClientID(n int)               { verifC06Opt(refClientID, n) }
func VerifC06OptServerID(n int)               { verifC06Opt(refServerID, n) }
func VerifC06OptIANA(n int)                   { verifC06Opt(refIANA, n, 4, 8) }
func VerifC06OptIATA(n int)                   { verifC06Opt(refIATA, n) }
func VerifC06OptIAAddress(n int)              { verifC06Opt(refIAAddr, n, 16, 20) }
func VerifC06OptRequestedOption(n int)        { verifC06Opt(refORO, n) }
func VerifC06OptElapsedTime(n int)            { verifC06Opt(refElapsed, n) }
func VerifC06OptRelayMsg(n int)               { verifC06Opt(refRelayMsg, n) }
func VerifC06OptStatusCode(n int)             { verifC06Opt(refStatus, n) }
func VerifC06OptUserClass(n int)              { verifC06Opt(refUserClass, n) }
func VerifC06OptVendorClass(n int)            { verifC06Opt(refVendorClass, n) }
func VerifC06OptVendorOpts(n int)             { verifC06Opt(refVendorOpts, n) }
func VerifC06OptInterfaceID(n int)            { verifC06Opt(refInterfaceID, n) }
func VerifC06OptDNS(n int)                    { verifC06Opt(refDNS, n) }
func VerifC06OptDomainSearchList(n int)       { verifC06Opt(refDomainList, n) }
func VerifC06OptIAPD(n int)                   { verifC06Opt(refIAPD, n, 4, 8) }
func VerifC06OptInformationRefreshTime(n int) { verifC06Opt(refInfoRefresh, n, 0) }
func VerifC06OptRemoteID(n int)               { verifC06Opt(refRemoteID, n) }
func VerifC06OptFQDN(n int)                   { verifC06Opt(refFQDN, n) }
func VerifC06OptNTPServer(n int)              { verifC06Opt(refNTP, n) }
func VerifC06OptBootFileURL(n int)            { verifC06Opt(refBootURL, n) }
func VerifC06OptBootFileParam(n int)          { verifC06Opt(refBootParam, n) }
func VerifC06OptClientArchType(n int)         { verifC06Opt(refArchType, n) }
func VerifC06OptNII(n int)                    { verifC06Opt(refNII, n) }
func VerifC06OptClientLinkLayerAddress(n int) { verifC06Opt(refClientLL, n) }
func VerifC06OptDHCP4oDHCP6Server(n int)      { verifC06Opt(ref4o6Server, n) }
func VerifC06Opt4RD(n int)                    { verifC06Opt(ref4RD, n) }
func VerifC06Opt4RDMapRule(n int)             { verifC06Opt(ref4RDMap, n) }
func VerifC06Opt4RDNonMapRule(n int)          { verifC06Opt(ref4RDNonMap, n) }
func VerifC06OptRelayPort(n int)              { verifC06Opt(refRelayPort, n) }

func VerifC06OptGeneric(n int) {
	code := verifU16("code")
	verifAssume(!refIsKnown(code))
	verifC06Payload(code, verifBytes("p", n))
}

// VerifC06OptDHCPv4Msg: an embedded DHCPv4 message with symbolic header fields (names kept
// NUL-free prefixes of sl / fl bytes) and an options area of n symbolic bytes.
func VerifC06OptDHCPv4Msg(sl, fl, n int) {
	verifC06Payload(refV4Msg, verifV4Packet(sl, fl, n))
}

// VerifC06OptIAPrefix: n symbolic bytes; the prefix-length octet takes every value 0..255 by
// enumeration (the mask's bit arithmetic and the lifetimes' 64-bit arithmetic do not mix well
// in one solver query).  lo..hi restricts the enumerated prefix lengths.
func VerifC06OptIAPrefix(n, lo, hi int) {
	p := verifBytes("p", n)
	verifWordBytes(p, 0, 4)
	if n > 8 {
		p[8] = byte(lo + verifChoice("plen", hi-lo+1))
	}
	verifC06Payload(refIAPrefix, p, 0, 4)
}

// verifSecsOffsets: where option `code` starting at payload offset base keeps second counts.
func verifSecsOffsets(code uint16, base int) []int {
	switch code {
	case refIANA, refIAPD:
		return []int{base + 4, base + 8}
	case refIAAddr:
		return []int{base + 16, base + 20}
	case refIAPrefix:
		return []int{base, base + 4}
	case refInfoRefresh:
		return []int{base}
	}
	return nil
}

// VerifC06Wrapped: the fixpoint check on container `kind` holding exactly one option `inner`
// with l symbolic payload bytes (verifWrappedPayload with d = 0).  When the inner option is an
// IAPREFIX its prefix-length octet is enumerated over lo..hi (else lo, hi are ignored).
func VerifC06Wrapped(kind, inner, l, lo, hi int) {
	code, p, at := verifWrappedPayload(kind, inner, l, 0)
	secs := append(verifSecsOffsets(code, 0), verifSecsOffsets(uint16(inner), at)...)
	if kind == 6 {
		secs = nil // NTP sub-option codes are a separate number space
	}
	verifWordBytes(p, secs...)
	if inner == refIAPrefix && kind != 6 && l > 8 {
		p[at+8] = byte(lo + verifChoice("plen", hi-lo+1))
	}
	verifC06Payload(code, p, secs...)
}

// VerifC06AnyCode: a message holding ONE option whose 16-bit code is symbolic (every assigned,
// unassigned and seldom-used code) with n symbolic payload bytes. If the decoder accepts it, the
// re-encoded datagram still carries that option code and the same number of options, decodes
// again. (A code that is decoded through another option's type would come back under that type's
// code.)
func VerifC06AnyCode(n int) {
	code := verifU16("code")
	b := []byte{verifU8("type"), verifU8("xid"), verifU8("xid"), verifU8("xid"), byte(code >> 8), byte(code), byte(n >> 8), byte(n)}
	b = append(b, verifBytes("p", n)...)
	verifAssume(b[0] != 12)
	verifAssume(b[0] != 13)
	d1, err := FromBytes(b)
	if err != nil {
		verifReach("rejected")
		verifReach("end")
		return
	}
	b1 := d1.ToBytes()
	verifAssert(len(b1) >= 8, "reencoded-carries-the-option")
	if len(b1) >= 8 {
		verifAssert(b1[4] == b[4] && b1[5] == b[5], "reencoded-option-keeps-its-code")
	}
	_, err2 := FromBytes(b1)
	verifAssert(err2 == nil, "reencoded-decodes")
	// (the byte-for-byte fixpoint of each option type's payload is the per-type harnesses' subject)
	verifReach("accepted")
	verifReach("end")
}
