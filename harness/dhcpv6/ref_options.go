//go:build verif

package dhcpv6

// Reference codec for the DHCPv6 options the library parses, written from the RFCs:
//   RFC 8415 §11 (DUIDs), §21 (options), RFC 6355 (DUID-UUID), RFC 3646 (DNS), RFC 4649
//   (remote-id), RFC 4704 (FQDN), RFC 5908 (NTP), RFC 5970 (boot file, arch, NII), RFC 6939
//   (client link-layer address), RFC 7341 (DHCPv4 over DHCPv6), RFC 7600 §4.9 (4rd),
//   RFC 8357 (relay port), RFC 1035 §3.1 (names), RFC 2131 §2 / RFC 2132 / RFC 3396 (the
//   embedded DHCPv4 message).
// It shares no code with the library: no uio, no option methods, no net helpers.
//
// Every decoder returns one of refAccept / refReject / refUndef.  refUndef marks inputs for
// which the RFCs are silent or have several defensible readings; the harnesses assert nothing
// there.  The undefined regions are:
//
//   U1  domain names (options 24, 39, NTP sub-option 3): a length octet with the top bits 11
//       (compression pointer).  RFC 8415 §10 forbids senders to compress; what a receiver does
//       with a pointer is not stated.
//   U2  domain names: length octets 64..191 (reserved label types of RFC 1035 §4.1.4).
//   U3  OPTION_DOMAIN_LIST (24): a last name without the terminating zero label (RFC 3646 wants
//       RFC 1035 names; RFC 4704 style partial names are only defined for option 39).
//   U4  OPTION_CLIENT_FQDN (39): more than one name in the domain-name field (RFC 4704 §4.2
//       describes exactly one, possibly partial or empty, name).
//   U5  NTP sub-option 3 (RFC 5908 §4.3): anything but exactly one complete name.
//   U6  OPTION_NTP_SERVER with no sub-option at all (RFC 5908 §4 is silent).
//   U7  OPTION_USER_CLASS / OPTION_VENDOR_CLASS: an instance with length 0 (RFC 8415 §21.15 /
//       §21.16 leave the minimum content of an instance open).
//   U8  OPTION_VENDOR_CLASS with no vendor-class-data instance (RFC 8415 §21.16 does not say
//       "one or more", unlike §21.15).
//   U9  DUIDs longer than 128 octets after the type code (RFC 8415 §11.1 limits senders).
//   U10 OPTION_IAPREFIX with prefix-length 0: the 16 address octets carry no prefix bit, their
//       value is not compared (the library represents /0 as "no prefix").
//   U11 OPTION_4RD_NON_MAP_RULE with T = 0: the traffic-class octet has no meaning (RFC 7600
//       §4.9), it is not compared.  Reserved bits of the 4rd flag octets are not compared.
//   U12 OPTION_ORO with a repeated code: compared after removing repetitions (first occurrence
//       kept), the order of first occurrences is compared.
//   U13 embedded DHCPv4 message: `sname`/`file` are compared up to the first NUL; options are
//       compared as RFC 3396 concatenations per code.
//
// Deliberate rejections (not undefined): OPTION_IAPREFIX prefix-length > 128; 4rd map rule
// prefix4-len > 32 or prefix6-len > 128 (no such prefix exists); OPTION_REMOTE_ID shorter than 5
// octets (RFC 4649 §3: "The minimum option-len is 5 octets"); empty OPTION_USER_CLASS (RFC 8415
// §21.15 "one or more"); empty OPTION_CLIENT_ARCH_TYPE (RFC 5970 §3.3 "one or more").

const (
	refAccept = iota
	refReject // malformed by a framing / fixed-length / minimum-length rule
	refUndef
	// Malformed only by one of the two rules below.  They are kept apart so that the harnesses
	// can give the obligation its own label: the pinned library is known not to enforce them.
	refRejectPrefixLen     // a prefix length that no prefix can have (> 128, > 32)
	refRejectRemoteIDShort // OPTION_REMOTE_ID with option-len 4 (RFC 4649 §3: minimum 5)
)

// refRejects: is the status one of the rejecting ones?
func refRejects(st int) bool {
	return st == refReject || st == refRejectPrefixLen || st == refRejectRemoteIDShort
}

func refBE16(b []byte) uint16 { return uint16(b[0])<<8 | uint16(b[1]) }
func refBE32(b []byte) uint32 {
	return uint32(b[0])<<24 | uint32(b[1])<<16 | uint32(b[2])<<8 | uint32(b[3])
}
func refPut16(out []byte, v uint16) []byte { return append(out, byte(v>>8), byte(v)) }
func refPut32(out []byte, v uint32) []byte {
	return append(out, byte(v>>24), byte(v>>16), byte(v>>8), byte(v))
}

// refCat concatenates into a fresh slice.
func refCat(parts ...[]byte) []byte {
	var out []byte
	for _, p := range parts {
		out = append(out, p...)
	}
	return out
}

// refEncTLV is RFC 8415 §21.1.
func refEncTLV(code uint16, val []byte) []byte {
	out := refPut16(nil, code)
	out = refPut16(out, uint16(len(val)))
	return append(out, val...)
}

// refWorst combines the statuses of independent parts: any reject rejects, else any undefined
// makes the whole undefined.
func refWorst(a, b int) int {
	if a == refReject || b == refReject {
		return refReject
	}
	if refRejects(a) {
		return a
	}
	if refRejects(b) {
		return b
	}
	if a == refUndef || b == refUndef {
		return refUndef
	}
	return refAccept
}

// ---------------------------------------------------------------------------------------------
// DUIDs, RFC 8415 §11, RFC 6355.

type refDUID struct {
	typ  uint16
	hw   uint16 // types 1, 3
	time uint32 // type 1
	en   uint32 // type 2
	body []byte // link-layer address / identifier / uuid / opaque data
}

func refDecDUID(p []byte) (d refDUID, st int) {
	if len(p) < 2 {
		return d, refReject
	}
	if len(p) > 130 {
		return d, refUndef // U9
	}
	d.typ = refBE16(p)
	switch d.typ {
	case 1:
		if len(p) < 8 {
			return d, refReject
		}
		d.hw = refBE16(p[2:])
		d.time = refBE32(p[4:])
		d.body = p[8:]
	case 2:
		if len(p) < 6 {
			return d, refReject
		}
		d.en = refBE32(p[2:])
		d.body = p[6:]
	case 3:
		if len(p) < 4 {
			return d, refReject
		}
		d.hw = refBE16(p[2:])
		d.body = p[4:]
	case 4:
		if len(p) != 18 {
			return d, refReject
		}
		d.body = p[2:]
	default:
		d.body = p[2:]
	}
	return d, refAccept
}

func refEncDUID(d refDUID) []byte {
	out := refPut16(nil, d.typ)
	switch d.typ {
	case 1:
		out = refPut16(out, d.hw)
		out = refPut32(out, d.time)
	case 2:
		out = refPut32(out, d.en)
	case 3:
		out = refPut16(out, d.hw)
	}
	return append(out, d.body...)
}

// ---------------------------------------------------------------------------------------------
// Domain names, RFC 1035 §3.1 as used by RFC 8415 §10.

// refV6Names reads a sequence of names.  partial: the last name lacks its zero label.
func refV6Names(b []byte) (names [][][]byte, partial bool, st int) {
	n := len(b)
	p := 0
	var cur [][]byte
	for {
		if p >= n {
			if len(cur) > 0 {
				names = append(names, cur)
				partial = true
			}
			return names, partial, refAccept
		}
		l := int(b[p])
		if l == 0 {
			names = append(names, cur)
			cur = nil
			p++
			continue
		}
		if l&0xc0 == 0xc0 {
			return nil, false, refUndef // U1
		}
		if l > 63 {
			return nil, false, refUndef // U2
		}
		if p+1+l > n {
			return nil, false, refReject
		}
		cur = append(cur, b[p+1:p+1+l])
		p += 1 + l
	}
}

// refJoinName is the library's representation of a name: labels joined with '.'.
func refJoinName(labels [][]byte) []byte {
	var j []byte
	for i, l := range labels {
		if i > 0 {
			j = append(j, '.')
		}
		j = append(j, l...)
	}
	return j
}

func refEncNames(names [][][]byte) []byte {
	var out []byte
	for _, name := range names {
		for _, lab := range name {
			out = append(out, byte(len(lab)))
			out = append(out, lab...)
		}
		out = append(out, 0)
	}
	return out
}

func refDomainListStatus(p []byte) int {
	_, partial, st := refV6Names(p)
	if st != refAccept {
		return st
	}
	if partial {
		return refUndef // U3
	}
	return refAccept
}

func refFQDNStatus(p []byte) int {
	if len(p) < 1 {
		return refReject
	}
	names, _, st := refV6Names(p[1:])
	if st != refAccept {
		return st
	}
	if len(names) > 1 {
		return refUndef // U4
	}
	return refAccept
}

func refNTPFQDNStatus(p []byte) int {
	names, partial, st := refV6Names(p)
	if st != refAccept {
		return st
	}
	if len(names) != 1 || partial {
		return refUndef // U5
	}
	return refAccept
}

// ---------------------------------------------------------------------------------------------
// Option areas.

type refSub struct {
	code uint16
	val  []byte
}

// refTileArea is RFC 8415 §21.1 applied to an encapsulated-options field.
func refTileArea(a []byte) (subs []refSub, ok bool) {
	i := 0
	for len(a)-i >= 4 {
		code := refBE16(a[i:])
		l := int(refBE16(a[i+2:]))
		if l > len(a)-i-4 {
			return nil, false
		}
		subs = append(subs, refSub{code, a[i+4 : i+4+l]})
		i += 4 + l
	}
	if i != len(a) {
		return nil, false
	}
	return subs, true
}

// refAreaStatus: the area tiles exactly and every option obeys its own rules.
func refAreaStatus(a []byte) int {
	subs, ok := refTileArea(a)
	if !ok {
		return refReject
	}
	st := refAccept
	for _, s := range subs {
		st = refWorst(st, refOptStatus(s.code, s.val))
	}
	return st
}

// refLenList reads a sequence of (16-bit length, data) items: user class, vendor class, boot
// file parameters.
func refLenList(p []byte) (items [][]byte, ok bool) {
	i := 0
	for len(p)-i >= 2 {
		l := int(refBE16(p[i:]))
		if l > len(p)-i-2 {
			return nil, false
		}
		items = append(items, p[i+2:i+2+l])
		i += 2 + l
	}
	if i != len(p) {
		return nil, false
	}
	return items, true
}

func refEncLenList(items [][]byte) []byte {
	var out []byte
	for _, it := range items {
		out = refPut16(out, uint16(len(it)))
		out = append(out, it...)
	}
	return out
}

func refClassItemsStatus(items [][]byte) int {
	for _, it := range items {
		if len(it) == 0 {
			return refUndef // U7
		}
	}
	return refAccept
}

// refNTPStatus is RFC 5908 §4.
func refNTPStatus(p []byte) int {
	subs, ok := refTileArea(p)
	if !ok {
		return refReject
	}
	if len(subs) == 0 {
		return refUndef // U6
	}
	st := refAccept
	for _, s := range subs {
		st = refWorst(st, refNTPSubStatus(s.code, s.val))
	}
	return st
}

func refNTPSubStatus(code uint16, v []byte) int {
	switch code {
	case 1, 2:
		if len(v) != 16 {
			return refReject
		}
		return refAccept
	case 3:
		return refNTPFQDNStatus(v)
	}
	return refAccept
}

// refMsgStatus is RFC 8415 §8 / §9 for a whole message.
func refMsgStatus(b []byte) int {
	if len(b) < 1 {
		return refReject
	}
	if b[0] == 12 || b[0] == 13 {
		if len(b) < 34 {
			return refReject
		}
		return refAreaStatus(b[34:])
	}
	if len(b) < 4 {
		return refReject
	}
	return refAreaStatus(b[4:])
}

// Option codes (IANA registry, not the library's constants).
const (
	refClientID     = 1
	refServerID     = 2
	refIANA         = 3
	refIATA         = 4
	refIAAddr       = 5
	refORO          = 6
	refElapsed      = 8
	refRelayMsg     = 9
	refStatus       = 13
	refUserClass    = 15
	refVendorClass  = 16
	refVendorOpts   = 17
	refInterfaceID  = 18
	refDNS          = 23
	refDomainList   = 24
	refIAPD         = 25
	refIAPrefix     = 26
	refInfoRefresh  = 32
	refRemoteID     = 37
	refFQDN         = 39
	refNTP          = 56
	refBootURL      = 59
	refBootParam    = 60
	refArchType     = 61
	refNII          = 62
	refClientLL     = 79
	refV4Msg        = 87
	ref4o6Server    = 88
	ref4RD          = 97
	ref4RDMap       = 98
	ref4RDNonMap    = 99
	refRelayPort    = 135
	refHighestKnown = 135
)

// refOptStatus: does payload p satisfy the layout rules of option `code`?  Codes without an
// entry are opaque (always well-formed).
func refOptStatus(code uint16, p []byte) int {
	n := len(p)
	switch code {
	case refClientID, refServerID:
		_, st := refDecDUID(p)
		return st
	case refIANA, refIAPD: // §21.4, §21.21: IAID, T1, T2, options
		if n < 12 {
			return refReject
		}
		return refAreaStatus(p[12:])
	case refIATA: // §21.5
		if n < 4 {
			return refReject
		}
		return refAreaStatus(p[4:])
	case refIAAddr: // §21.6: address, preferred, valid, options
		if n < 24 {
			return refReject
		}
		return refAreaStatus(p[24:])
	case refORO: // §21.7
		if n%2 != 0 {
			return refReject
		}
		return refAccept
	case refElapsed, refRelayPort: // §21.9, RFC 8357 §4.2
		if n != 2 {
			return refReject
		}
		return refAccept
	case refRelayMsg: // §21.10
		return refMsgStatus(p)
	case refStatus: // §21.13
		if n < 2 {
			return refReject
		}
		return refAccept
	case refUserClass: // §21.15
		if n == 0 {
			return refReject
		}
		items, ok := refLenList(p)
		if !ok {
			return refReject
		}
		return refClassItemsStatus(items)
	case refVendorClass: // §21.16
		if n < 4 {
			return refReject
		}
		items, ok := refLenList(p[4:])
		if !ok {
			return refReject
		}
		if len(items) == 0 {
			return refUndef // U8
		}
		return refClassItemsStatus(items)
	case refVendorOpts: // §21.17
		if n < 4 {
			return refReject
		}
		if _, ok := refTileArea(p[4:]); !ok {
			return refReject
		}
		return refAccept
	case refInterfaceID, refBootURL:
		return refAccept
	case refDNS, ref4o6Server: // RFC 3646 §3, RFC 7341 §7.2
		if n%16 != 0 {
			return refReject
		}
		return refAccept
	case refDomainList:
		return refDomainListStatus(p)
	case refIAPrefix: // §21.22
		if n < 25 {
			return refReject
		}
		if p[8] > 128 {
			return refWorst(refRejectPrefixLen, refAreaStatus(p[25:]))
		}
		return refAreaStatus(p[25:])
	case refInfoRefresh: // §21.23
		if n != 4 {
			return refReject
		}
		return refAccept
	case refRemoteID: // RFC 4649 §3
		if n < 4 {
			return refReject
		}
		if n == 4 {
			return refRejectRemoteIDShort
		}
		return refAccept
	case refFQDN:
		return refFQDNStatus(p)
	case refNTP:
		return refNTPStatus(p)
	case refBootParam: // RFC 5970 §3.2
		if _, ok := refLenList(p); !ok {
			return refReject
		}
		return refAccept
	case refArchType: // RFC 5970 §3.3
		if n == 0 || n%2 != 0 {
			return refReject
		}
		return refAccept
	case refNII: // RFC 5970 §3.4
		if n != 3 {
			return refReject
		}
		return refAccept
	case refClientLL: // RFC 6939 §4
		if n < 2 {
			return refReject
		}
		return refAccept
	case refV4Msg: // RFC 7341 §7.1
		_, ok := refDecV4(p)
		if !ok {
			return refReject
		}
		return refAccept
	case ref4RD: // RFC 7600 §4.9
		return refAreaStatus(p)
	case ref4RDMap:
		if n != 24 {
			return refReject
		}
		if p[0] > 32 {
			return refRejectPrefixLen
		}
		if p[1] > 128 {
			return refRejectPrefixLen
		}
		return refAccept
	case ref4RDNonMap:
		if n != 4 {
			return refReject
		}
		return refAccept
	}
	return refAccept
}

// refKnownCodes lists the codes with an entry above; the harness VerifC05KnownCodes checks
// it against the library's switch.
var refKnownCodes = []uint16{1, 2, 3, 4, 5, 6, 8, 9, 13, 15, 16, 17, 18, 23, 24, 25, 26, 32, 37, 39,
	56, 59, 60, 61, 62, 79, 87, 88, 97, 98, 99, 135}

// refIsKnown folds the membership test into arithmetic (no forking on symbolic codes).
func refIsKnown(code uint16) bool {
	known := false
	for _, k := range refKnownCodes {
		known = verifOr(known, code == k)
	}
	return known
}

// ---------------------------------------------------------------------------------------------
// Fixed-layout encoders (field values -> payload).

func refEncIA(iaid []byte, t1, t2 uint32, inner []byte) []byte { // IA_NA, IA_PD
	out := append([]byte(nil), iaid...)
	out = refPut32(out, t1)
	out = refPut32(out, t2)
	return append(out, inner...)
}

func refEncIATA(iaid []byte, inner []byte) []byte {
	return refCat(iaid, inner)
}

func refEncIAAddr(addr []byte, pref, valid uint32, inner []byte) []byte {
	out := append([]byte(nil), addr...)
	out = refPut32(out, pref)
	out = refPut32(out, valid)
	return append(out, inner...)
}

func refEncIAPrefix(pref, valid uint32, plen uint8, addr []byte, inner []byte) []byte {
	out := refPut32(nil, pref)
	out = refPut32(out, valid)
	out = append(out, plen)
	out = append(out, addr...)
	return append(out, inner...)
}

func refEncU16s(vs []uint16) []byte {
	var out []byte
	for _, v := range vs {
		out = refPut16(out, v)
	}
	return out
}

func refEncStatus(code uint16, msg []byte) []byte { return append(refPut16(nil, code), msg...) }

func refEncEnterprise(en uint32, rest []byte) []byte { return append(refPut32(nil, en), rest...) }

func refEnc4RDMap(p4len, p6len, ealen uint8, w bool, p4, p6 []byte) []byte {
	var flags byte
	if w {
		flags = 0x80
	}
	out := []byte{p4len, p6len, ealen, flags}
	out = append(out, p4...)
	return append(out, p6...)
}

func refEnc4RDNonMap(h bool, hasTC bool, tc uint8, pmtu uint16) []byte {
	var flags byte
	if h {
		flags |= 0x80
	}
	if hasTC {
		flags |= 0x01
	} else {
		tc = 0
	}
	return refPut16([]byte{flags, tc}, pmtu)
}

func refEncMsgHeader(typ byte, xid []byte) []byte { return append([]byte{typ}, xid...) }

func refEncRelayHeader(typ, hops byte, link, peer []byte) []byte {
	return refCat([]byte{typ, hops}, link, peer)
}

// ---------------------------------------------------------------------------------------------
// Embedded DHCPv4 message (RFC 2131 §2, RFC 2132 §2, RFC 3396).

type refV4 struct {
	op, htype, hlen, hops byte
	xid                   []byte
	secs, flags           uint16
	ci, yi, si, gi        []byte
	chaddr                []byte
	sname, file           []byte
	codes                 []uint8  // in order of first appearance
	vals                  [][]byte // concatenated instances per code
}

func refCutNul(b []byte) []byte {
	for i := range b {
		if b[i] == 0 {
			return b[:i]
		}
	}
	return b
}

func refDecV4(b []byte) (m refV4, ok bool) {
	if len(b) < 240 {
		return m, false
	}
	if b[236] != 99 {
		return m, false
	}
	if b[237] != 130 {
		return m, false
	}
	if b[238] != 83 {
		return m, false
	}
	if b[239] != 99 {
		return m, false
	}
	m.op, m.htype, m.hlen, m.hops = b[0], b[1], b[2], b[3]
	m.xid = b[4:8]
	m.secs = refBE16(b[8:])
	m.flags = refBE16(b[10:])
	m.ci, m.yi, m.si, m.gi = b[12:16], b[16:20], b[20:24], b[24:28]
	n := int(m.hlen)
	if n > 16 {
		n = 16
	}
	m.chaddr = b[28 : 28+n]
	m.sname = refCutNul(b[44:108])
	m.file = refCutNul(b[108:236])
	a := b[240:]
	if len(a) == 0 {
		return m, true
	}
	i := 0
	for {
		if i >= len(a) {
			return m, false // no End option
		}
		c := a[i]
		if c == 0 {
			i++
			continue
		}
		if c == 255 {
			return m, true
		}
		if i+1 >= len(a) {
			return m, false
		}
		l := int(a[i+1])
		if i+2+l > len(a) {
			return m, false
		}
		found := -1
		for j := range m.codes {
			if m.codes[j] == c {
				found = j
			}
		}
		if found < 0 {
			m.codes = append(m.codes, c)
			m.vals = append(m.vals, append([]byte(nil), a[i+2:i+2+l]...))
		} else {
			m.vals[found] = append(m.vals[found], a[i+2:i+2+l]...)
		}
		i += 2 + l
	}
}
