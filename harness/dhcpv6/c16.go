//go:build verif

package dhcpv6

// C16: DHCPv6 builders and relay encapsulation preserve identity and nesting.

import "net"

type verifLevel struct {
	link, peer []byte
	iid, rid   []byte // nil when absent
}

// verifChain builds a relay-forward chain of the given depth around inner. mask: two bits per
// level (interface-id present, remote-id present), innermost level first.
func verifChain(inner DHCPv6, depth, mask int) (outer DHCPv6, levels []verifLevel) {
	outer = inner
	for i := 0; i < depth; i++ {
		lv := verifLevel{link: verifBytes("link", 16), peer: verifBytes("peer", 16)}
		r, err := EncapsulateRelay(outer, MessageTypeRelayForward, net.IP(lv.link), net.IP(lv.peer))
		verifAssert(err == nil, "encapsulate-ok")
		if mask&1 != 0 {
			lv.iid = verifBytes("iid", 2)
			r.AddOption(OptInterfaceID(lv.iid))
		}
		if mask&2 != 0 {
			lv.rid = verifBytes("rid", 3)
			r.AddOption(&OptRemoteID{EnterpriseNumber: verifU32("rid.en"), RemoteID: lv.rid})
		}
		mask >>= 2
		// encapsulation is invertible and counts hops
		d, derr := DecapsulateRelay(r)
		verifAssert(derr == nil, "decapsulate-ok")
		verifAssert(d == outer, "decapsulate-returns-the-encapsulated-message")
		verifAssert(int(r.HopCount) == i, "hop-count-grows-by-one-per-level")
		outer = r
		levels = append(levels, lv)
	}
	return outer, levels
}

func verifInner(optBits int) *Message {
	var xid TransactionID
	copy(xid[:], verifBytes("xid", 3))
	mt := verifU8("type")
	verifAssume(mt != 12)
	verifAssume(mt != 13)
	m := &Message{MessageType: MessageType(mt), TransactionID: xid}
	if optBits&1 != 0 {
		m.AddOption(OptClientID(&DUIDLL{HWType: 1, LinkLayerAddr: verifBytes("client.ll", 6)}))
	}
	if optBits&2 != 0 {
		m.AddOption(OptServerID(&DUIDLL{HWType: 1, LinkLayerAddr: verifBytes("server.ll", 6)}))
	}
	if optBits&4 != 0 {
		var iaid [4]byte
		copy(iaid[:], verifBytes("iaid", 4))
		m.AddOption(&OptIANA{IaId: iaid})
	}
	if optBits&8 != 0 {
		var iaid [4]byte
		copy(iaid[:], verifBytes("pd.iaid", 4))
		m.AddOption(&OptIAPD{IaId: iaid})
	}
	if optBits&16 != 0 {
		m.AddOption(&OptionGeneric{OptionCode: OptionRapidCommit})
	}
	if optBits&32 != 0 {
		m.AddOption(&OptVendorClass{EnterpriseNumber: verifU32("vc.en"), Data: [][]byte{verifBytes("vc.data", 2)}})
	}
	return m
}

// VerifC16Relay: chains of the given depth; innermost message found at any depth, also after a
// trip over the wire; relay-reply mirrors the chain.
func VerifC16Relay(depth, mask, optBits int) {
	inner := verifInner(optBits)
	outer, levels := verifChain(inner, depth, mask)
	got, err := outer.GetInnerMessage()
	verifAssert(err == nil, "inner-message-found")
	verifAssert(got == inner, "inner-message-is-the-original")
	if depth > 0 {
		last, err := DecapsulateRelayIndex(outer, -1)
		verifAssert(err == nil, "index-minus-one-ok")
		if err == nil {
			verifAssert(last.IsRelay(), "index-minus-one-is-the-innermost-relay")
			d, _ := DecapsulateRelay(last)
			verifAssert(d == DHCPv6(inner), "innermost-relay-contains-the-message")
		}
		cur := outer
		for i := 0; i < depth; i++ {
			byIdx, ierr := DecapsulateRelayIndex(outer, i)
			cur, _ = DecapsulateRelay(cur)
			verifAssert(ierr == nil, "index-i-ok")
			verifAssert(byIdx == cur, "index-i-is-i+1-decapsulations")
		}
	}
	// over the wire
	wire := outer.ToBytes()
	kept := append([]byte(nil), wire...)
	back, err := FromBytes(wire)
	verifAssert(err == nil, "chain-decodes")
	if err == nil {
		bi, err := back.GetInnerMessage()
		verifAssert(err == nil, "inner-message-found-after-wire")
		if err == nil {
			verifAssert(verifSame(bi.ToBytes(), inner.ToBytes()), "inner-message-equal-after-wire")
		}
		cur := back
		for i := depth - 1; i >= 0; i-- {
			r, isRelay := cur.(*RelayMessage)
			verifAssert(isRelay, "depth-preserved-over-the-wire")
			if !isRelay {
				break
			}
			verifAssert(int(r.HopCount) == i, "hop-count-preserved-over-the-wire")
			verifAssert(verifSame(r.LinkAddr, levels[i].link), "link-address-preserved")
			verifAssert(verifSame(r.PeerAddr, levels[i].peer), "peer-address-preserved")
			cur, _ = DecapsulateRelay(cur)
		}
		if cur != nil {
			verifAssert(!cur.IsRelay(), "exactly-depth-levels-after-wire")
		}
		// a chain decoded from the wire is edited in place — an option added to its innermost
		// message, its type changed, the hop count of the innermost relay changed — and encoded
		// again: the datagram carries the edits (nothing remembered from decoding stands in for them)
		if bm, merr := back.GetInnerMessage(); merr == nil && bm != nil {
			added := verifBytes("added", 2)
			bm.AddOption(&OptionGeneric{OptionCode: 253, OptionData: added})
			bm.MessageType = MessageTypeRenew
			if depth > 0 {
				if lr, lerr := DecapsulateRelayIndex(back, -1); lerr == nil {
					if r, ok := lr.(*RelayMessage); ok {
						r.HopCount = 0x5a
					}
				}
			}
			again, aerr := FromBytes(back.ToBytes())
			verifAssert(aerr == nil && again != nil, "edited-chain-decodes")
			if aerr == nil && again != nil {
				am, amerr := again.GetInnerMessage()
				verifAssert(amerr == nil && am != nil, "edited-chain-decodes")
				if amerr == nil && am != nil {
					verifAssert(am.MessageType == MessageTypeRenew, "edits-to-a-decoded-chain-reach-the-wire")
					g, _ := am.GetOneOption(253).(*OptionGeneric)
					verifAssert(g != nil && verifSame(g.OptionData, added), "edits-to-a-decoded-chain-reach-the-wire")
				}
				if depth > 0 {
					lr, lerr := DecapsulateRelayIndex(again, -1)
					r, ok := lr.(*RelayMessage)
					verifAssert(lerr == nil && ok && r.HopCount == 0x5a, "edits-to-a-decoded-chain-reach-the-wire")
				}
			}
		}
	}
	if depth > 0 {
		reply := &Message{MessageType: MessageTypeReply, TransactionID: inner.TransactionID}
		reply.AddOption(&OptionGeneric{OptionCode: 252, OptionData: verifBytes("reply.data", 2)})
		rr, err := NewRelayReplFromRelayForw(outer.(*RelayMessage), reply)
		verifAssert(err == nil, "relay-reply-built")
		if err == nil {
			cur := rr
			for i := depth - 1; i >= 0; i-- {
				r, isRelay := cur.(*RelayMessage)
				verifAssert(isRelay, "relay-reply-has-the-same-depth")
				if !isRelay {
					break
				}
				verifAssert(r.MessageType == MessageTypeRelayReply, "every-level-is-relay-reply")
				verifAssert(int(r.HopCount) == i, "relay-reply-hop-count-grows-by-one-per-level")
				verifAssert(verifSame(r.LinkAddr, levels[i].link), "same-link-address-at-every-level")
				verifAssert(verifSame(r.PeerAddr, levels[i].peer), "same-peer-address-at-every-level")
				iid := r.GetOneOption(OptionInterfaceID)
				rid := r.GetOneOption(OptionRemoteID)
				verifAssert((iid != nil) == (levels[i].iid != nil), "interface-id-echoed-iff-present")
				verifAssert((rid != nil) == (levels[i].rid != nil), "remote-id-echoed-iff-present")
				if iid != nil && levels[i].iid != nil {
					verifAssert(verifSame(iid.ToBytes(), levels[i].iid), "interface-id-echoed-at-its-level")
				}
				if rid != nil && levels[i].rid != nil {
					rb := rid.ToBytes()
					verifAssert(len(rb) == 4+len(levels[i].rid), "remote-id-length")
					if len(rb) == 4+len(levels[i].rid) {
						verifAssert(verifSame(rb[4:], levels[i].rid), "remote-id-echoed-at-its-level")
					}
				}
				cur, _ = DecapsulateRelay(cur)
			}
			verifAssert(cur == DHCPv6(reply), "given-reply-is-innermost")
			// the reply chain goes over the wire while the forward chain's datagram is still held:
			// each encoding is the caller's, a later one does not rewrite an earlier one
			rw := rr.ToBytes()
			verifAssert(verifSame(wire, kept), "datagram-encoded-earlier-stays-as-it-was")
			rback, rerr := FromBytes(rw)
			verifAssert(rerr == nil && rback != nil && rback.IsRelay(), "relay-reply-chain-decodes")
			fback, ferr := FromBytes(wire)
			verifAssert(ferr == nil && fback != nil && verifSame(fback.ToBytes(), kept), "chain-decodes")
			verifAssert(verifSame(rw, rr.ToBytes()), "datagram-encoded-earlier-stays-as-it-was")
		}
	}
	if depth > 0 {
		// the same holds for a chain of relay-reply messages built by encapsulation
		var ro DHCPv6 = inner
		for i := 0; i < depth; i++ {
			r, err := EncapsulateRelay(ro, MessageTypeRelayReply, net.IP(levels[i].link), net.IP(levels[i].peer))
			verifAssert(err == nil, "encapsulate-ok")
			if err != nil {
				break
			}
			verifAssert(int(r.HopCount) == i, "hop-count-grows-by-one-per-level")
			d, derr := DecapsulateRelay(r)
			verifAssert(derr == nil && d == ro, "decapsulate-returns-the-encapsulated-message")
			ro = r
		}
		gi, gerr := ro.GetInnerMessage()
		verifAssert(gerr == nil && gi == inner, "inner-message-found")
	}
	if depth > 0 {
		// the innermost message is found again after it was exchanged at the deepest level
		// (lookups made earlier on the outer levels must not be remembered)
		_, _ = outer.GetInnerMessage()
		_, _ = GetTransactionID(outer)
		deepest, derr := DecapsulateRelayIndex(outer, -1)
		verifAssert(derr == nil, "index-minus-one-ok")
		if dr, ok := deepest.(*RelayMessage); ok && derr == nil {
			other := &Message{MessageType: MessageTypeReply}
			copy(other.TransactionID[:], verifBytes("other.xid", 3))
			dr.UpdateOption(OptRelayMessage(other))
			got2, err2 := outer.GetInnerMessage()
			verifAssert(err2 == nil && got2 == other, "inner-message-found-after-it-was-exchanged")
			x2, xerr := GetTransactionID(outer)
			verifAssert(xerr == nil && x2 == other.TransactionID, "transaction-id-of-the-exchanged-inner-message")
			back2, berr := FromBytes(outer.ToBytes())
			verifAssert(berr == nil, "chain-decodes")
			if berr == nil {
				bi2, ierr := back2.GetInnerMessage()
				verifAssert(ierr == nil && bi2 != nil && bi2.TransactionID == other.TransactionID, "inner-message-equal-after-wire")
			}
		}
	}
	verifObserve("wire", wire)
	verifReach("end")
}

// VerifC16Builders: advertise / request / reply builders on an input of symbolic type with the
// option subset optBits.
func VerifC16Builders(optBits int) {
	in := verifInner(optBits)
	hasCID, hasSID, hasIANA, hasIAPD, hasRC, hasVC := optBits&1 != 0, optBits&2 != 0, optBits&4 != 0, optBits&8 != 0, optBits&16 != 0, optBits&32 != 0

	adv, err := NewAdvertiseFromSolicit(in)
	if in.MessageType != MessageTypeSolicit || !hasCID {
		verifAssert(err != nil && adv == nil, "advertise-rejects-wrong-type-or-missing-client-id")
	} else {
		verifAssert(err == nil && adv != nil, "advertise-built")
		if adv != nil {
			verifAssert(adv.MessageType == MessageTypeAdvertise, "advertise-type")
			verifAssert(adv.TransactionID == in.TransactionID, "advertise-keeps-transaction-id")
			verifAssert(adv.GetOneOption(OptionClientID) == in.GetOneOption(OptionClientID), "advertise-echoes-client-id")
		}
	}

	req, err := NewRequestFromAdvertise(in)
	if in.MessageType != MessageTypeAdvertise || !hasCID || !hasSID || !hasIANA {
		verifAssert(err != nil && req == nil, "request-rejects-wrong-type-or-missing-options")
	} else {
		verifAssert(err == nil && req != nil, "request-built")
		if req != nil {
			verifAssert(req.MessageType == MessageTypeRequest, "request-type")
			verifAssert(req.GetOneOption(OptionClientID) == in.GetOneOption(OptionClientID), "request-echoes-client-id")
			verifAssert(req.GetOneOption(OptionServerID) == in.GetOneOption(OptionServerID), "request-echoes-server-id")
			verifAssert(req.GetOneOption(OptionIANA) == in.GetOneOption(OptionIANA), "request-echoes-ia-na")
			verifAssert((req.GetOneOption(OptionIAPD) != nil) == hasIAPD, "request-echoes-ia-pd-iff-present")
			if hasIAPD {
				verifAssert(req.GetOneOption(OptionIAPD) == in.GetOneOption(OptionIAPD), "request-echoes-ia-pd")
			}
			verifAssert((req.GetOneOption(OptionVendorClass) != nil) == hasVC, "request-echoes-vendor-class-iff-present")
		}
	}

	rep, err := NewReplyFromMessage(in)
	okType := false
	switch in.MessageType {
	case MessageTypeRequest, MessageTypeConfirm, MessageTypeRenew, MessageTypeRebind, MessageTypeRelease, MessageTypeInformationRequest:
		okType = true
	case MessageTypeSolicit:
		okType = hasRC
	}
	if !okType || !hasCID {
		verifAssert(err != nil && rep == nil, "reply-rejects-wrong-type-or-missing-client-id")
	} else {
		verifAssert(err == nil && rep != nil, "reply-built")
		if rep != nil {
			verifAssert(rep.MessageType == MessageTypeReply, "reply-type")
			verifAssert(rep.TransactionID == in.TransactionID, "reply-keeps-transaction-id")
			verifAssert(rep.GetOneOption(OptionClientID) == in.GetOneOption(OptionClientID), "reply-echoes-client-id")
			if in.MessageType == MessageTypeSolicit {
				verifAssert(rep.GetOneOption(OptionRapidCommit) != nil, "reply-to-rapid-commit-solicit-carries-rapid-commit")
			}
		}
	}
	verifReach("end")
}

// VerifC16ModsReuse: the caller's modifier list lives in a slice with spare capacity and is used
// for two builder calls (a rapid-commit SOLICIT answered with the first part of the list, then a
// REQUEST answered with the whole list): the list is still the caller's afterwards and the second
// reply carries what the caller's modifiers put there.
func VerifC16ModsReuse(which int) {
	cidLL, sidLL := verifBytes("client.ll", 6), verifBytes("server.ll", 6)
	var iaid [4]byte
	copy(iaid[:], verifBytes("iaid", 4))
	sol := &Message{MessageType: MessageTypeSolicit}
	copy(sol.TransactionID[:], verifBytes("xid", 3))
	sol.AddOption(OptClientID(&DUIDLL{HWType: 1, LinkLayerAddr: cidLL}))
	sol.AddOption(&OptionGeneric{OptionCode: OptionRapidCommit})
	req := &Message{MessageType: MessageTypeRequest, TransactionID: sol.TransactionID}
	req.AddOption(OptClientID(&DUIDLL{HWType: 1, LinkLayerAddr: cidLL}))
	req.AddOption(OptServerID(&DUIDLL{HWType: 1, LinkLayerAddr: sidLL}))
	mods := make([]Modifier, 0, 8)
	mods = append(mods, WithServerID(&DUIDLL{HWType: 1, LinkLayerAddr: sidLL}), WithDNS(net.IP(verifBytes("dns", 16))), WithIANA(OptIAAddress{IPv6Addr: net.IP(verifBytes("addr", 16))}))
	var first *Message
	var err error
	switch which {
	case 0:
		first, err = NewReplyFromMessage(sol, mods[:2]...)
	case 1:
		first, err = NewAdvertiseFromSolicit(sol, mods[:2]...)
	default:
		first, err = NewReplyFromMessage(req, mods[:2]...)
	}
	verifAssert(err == nil && first != nil, "builder-succeeds")
	second, err := NewReplyFromMessage(req, mods...)
	verifAssert(err == nil && second != nil, "builder-succeeds")
	if second == nil {
		return
	}
	sm := second
	verifAssert(sm.Options.OneIANA() != nil, "callers-modifiers-are-applied")
	verifAssert(len(sm.Options.DNS()) == 1, "callers-modifiers-are-applied")
	verifAssert(sm.GetOneOption(OptionRapidCommit) == nil, "no-rapid-commit-in-the-reply-to-a-request")
	verifAssert(sm.Options.ServerID() != nil && sm.Options.ClientID() != nil, "identifiers-echoed")
	verifReach("end")
}
