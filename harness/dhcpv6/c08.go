//go:build verif

package dhcpv6

// C08 (DHCPv6 part): decoded messages own their memory; encoded output is a fresh buffer.

// VerifC08Option: option of known code #idx decoded from an n-byte symbolic payload; the payload
// buffer is then overwritten with an arbitrary (symbolic) pattern.
func VerifC08Option(idx, n int) {
	code := OptionCode(60000)
	if idx < len(verifKnownCodes) {
		code = OptionCode(verifKnownCodes[idx])
	}
	payload := verifBytes("payload", n)
	o, err := ParseOption(code, payload)
	if err != nil {
		verifReach("rejected")
		verifReach("end")
		return
	}
	s0 := append([]byte(nil), o.ToBytes()...)
	verifObserve("encoding", s0)
	verifHavoc("scribble-in", payload)
	s1 := o.ToBytes()
	verifAssert(verifSame(s1, s0), "overwriting-the-source-buffer-changes-nothing")
	verifAssert(!verifAliases(s1, payload), "encoding-does-not-alias-the-source-buffer")
	// The output side ("the bytes returned by encoding a message may be modified") is a statement
	// about messages: it is asserted in VerifC08Message.  A single option's ToBytes may hand out its
	// own storage (optInterfaceID, OptionGeneric do); Message/RelayMessage.ToBytes copy it.
	verifReach("end")
}

// VerifC08Message: a message (relay != 0: relay-forward wrapping it) with one option of known code
// #idx and an n-byte symbolic payload, decoded from one wire buffer which is then overwritten.
func VerifC08Message(idx, n, relay int) {
	code := uint16(60000)
	if idx < len(verifKnownCodes) {
		code = verifKnownCodes[idx]
	}
	payload := verifBytes("payload", n)
	wire := []byte{verifU8("type"), verifU8("xid"), verifU8("xid"), verifU8("xid"), byte(code >> 8), byte(code), byte(n >> 8), byte(n)}
	wire = append(wire, payload...)
	verifAssume(wire[0] != 12)
	verifAssume(wire[0] != 13)
	if relay != 0 {
		hdr := append([]byte{12, verifU8("hops")}, verifBytes("addrs", 32)...)
		hdr = append(hdr, 0, 9, byte(len(wire)>>8), byte(len(wire)))
		wire = append(hdr, wire...)
	}
	d, err := FromBytes(wire)
	if err != nil {
		verifReach("rejected")
		verifReach("end")
		return
	}
	s0 := append([]byte(nil), d.ToBytes()...)
	verifHavoc("scribble-in", wire)
	s1 := d.ToBytes()
	verifAssert(verifSame(s1, s0), "overwriting-the-source-buffer-changes-nothing")
	verifAssert(!verifAliases(s1, wire), "encoding-does-not-alias-the-source-buffer")
	verifHavoc("scribble-out", s1)
	s2 := d.ToBytes()
	verifAssert(verifSame(s2, s0), "overwriting-the-encoded-bytes-changes-nothing")
	verifAssert(!verifAliases(s2, s1), "every-encoding-is-a-fresh-buffer")
	verifReach("end")
}
