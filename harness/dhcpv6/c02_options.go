//go:build verif

package dhcpv6

import (
	"net"
	"time"

	"github.com/insomniacslk/dhcp/dhcpv4"
	"github.com/insomniacslk/dhcp/iana"
	"github.com/insomniacslk/dhcp/rfc1035label"
)

// C02: DHCPv6 encode -> decode preserves messages, relay chains and every option type, and the
// emitted bytes are the RFC layout of the field values (ref_options.go encoders).
//
// Every per-option harness builds the option from symbolic field values and calls verifC02Check,
// which asserts
//   (a) opt.ToBytes() == reference encoding,
//   (b) ParseOption(code, opt.ToBytes()) succeeds and equals opt field by field (verifEqOpt;
//       nil == empty for slices) -- asserted where the reference decoder accepts the bytes, i.e.
//       for values that exist on the wire (DESIGN §5 C02 precision note).

// ---------------------------------------------------------------------------------------------
// Field-by-field equality (also used by C06).

func verifEqBytes(a, b []byte, label string) { verifAssert(verifSame(a, b), label) }

func verifAllZero(b []byte) bool {
	var d byte
	for i := range b {
		d |= b[i]
	}
	return d == 0
}

// verifNormPrefix: the library represents a zero-length IA prefix as nil; nil == ::/0.
func verifNormPrefix(p *net.IPNet) (mask, ip []byte) {
	if p == nil {
		return make([]byte, 16), make([]byte, 16)
	}
	return []byte(p.Mask), []byte(p.IP)
}

func verifEqPrefix(a, b *net.IPNet) {
	ma, ia := verifNormPrefix(a)
	mb, ib := verifNormPrefix(b)
	verifAssert(verifSame(ma, mb), "eq-prefix-length")
	if len(ma) == 16 && len(mb) == 16 {
		// a /0 prefix carries no address bits
		verifAssert(verifOr(verifAllZero(ma), verifSame(ia, ib)), "eq-prefix-address")
	} else {
		verifAssert(verifSame(ia, ib), "eq-prefix-address")
	}
}

func verifEqIPNet(a, b net.IPNet, label string) {
	verifAssert(verifSame(a.Mask, b.Mask), label+"-mask")
	verifAssert(verifSame(a.IP, b.IP), label+"-ip")
}

func verifEqDUID(a, b DUID) {
	switch x := a.(type) {
	case *DUIDLLT:
		y, ok := b.(*DUIDLLT)
		verifAssert(ok, "eq-duid-kind")
		if ok {
			verifAssert(x.HWType == y.HWType, "eq-duid-hwtype")
			verifAssert(x.Time == y.Time, "eq-duid-time")
			verifEqBytes(x.LinkLayerAddr, y.LinkLayerAddr, "eq-duid-lladdr")
		}
	case *DUIDLL:
		y, ok := b.(*DUIDLL)
		verifAssert(ok, "eq-duid-kind")
		if ok {
			verifAssert(x.HWType == y.HWType, "eq-duid-hwtype")
			verifEqBytes(x.LinkLayerAddr, y.LinkLayerAddr, "eq-duid-lladdr")
		}
	case *DUIDEN:
		y, ok := b.(*DUIDEN)
		verifAssert(ok, "eq-duid-kind")
		if ok {
			verifAssert(x.EnterpriseNumber == y.EnterpriseNumber, "eq-duid-enterprise")
			verifEqBytes(x.EnterpriseIdentifier, y.EnterpriseIdentifier, "eq-duid-identifier")
		}
	case *DUIDUUID:
		y, ok := b.(*DUIDUUID)
		verifAssert(ok, "eq-duid-kind")
		if ok {
			verifEqBytes(x.UUID[:], y.UUID[:], "eq-duid-uuid")
		}
	case *DUIDOpaque:
		y, ok := b.(*DUIDOpaque)
		verifAssert(ok, "eq-duid-kind")
		if ok {
			verifAssert(x.Type == y.Type, "eq-duid-type")
			verifEqBytes(x.Data, y.Data, "eq-duid-data")
		}
	default:
		verifAssert(false, "eq-duid-unexpected-kind")
	}
}

func verifEqIPs(a, b []net.IP, label string) {
	verifAssert(len(a) == len(b), label+"-count")
	if len(a) == len(b) {
		for i := range a {
			verifEqBytes(a[i], b[i], label)
		}
	}
}

func verifEqByteLists(a, b [][]byte, label string) {
	verifAssert(len(a) == len(b), label+"-count")
	if len(a) == len(b) {
		for i := range a {
			verifEqBytes(a[i], b[i], label)
		}
	}
}

func verifEqStrings(a, b []string, label string) {
	verifAssert(len(a) == len(b), label+"-count")
	if len(a) == len(b) {
		for i := range a {
			verifEqBytes([]byte(a[i]), []byte(b[i]), label)
		}
	}
}

func verifEqLabels(a, b *rfc1035label.Labels, label string) {
	if a == nil || b == nil {
		verifAssert(a == nil && b == nil, label+"-presence")
		return
	}
	verifEqStrings(a.Labels, b.Labels, label)
}

func verifEqOpts(a, b Options) {
	verifAssert(len(a) == len(b), "eq-options-count")
	if len(a) == len(b) {
		for i := range a {
			verifEqOpt(a[i], b[i])
		}
	}
}

func verifEqV4(a, b *dhcpv4.DHCPv4) {
	if a == nil || b == nil {
		verifAssert(a == nil && b == nil, "eq-v4-presence")
		return
	}
	verifAssert(a.OpCode == b.OpCode, "eq-v4-op")
	verifAssert(a.HWType == b.HWType, "eq-v4-htype")
	verifAssert(a.HopCount == b.HopCount, "eq-v4-hops")
	verifEqBytes(a.TransactionID[:], b.TransactionID[:], "eq-v4-xid")
	verifAssert(a.NumSeconds == b.NumSeconds, "eq-v4-secs")
	verifAssert(a.Flags == b.Flags, "eq-v4-flags")
	verifEqBytes(verifV4Addr(a.ClientIPAddr), verifV4Addr(b.ClientIPAddr), "eq-v4-ciaddr")
	verifEqBytes(verifV4Addr(a.YourIPAddr), verifV4Addr(b.YourIPAddr), "eq-v4-yiaddr")
	verifEqBytes(verifV4Addr(a.ServerIPAddr), verifV4Addr(b.ServerIPAddr), "eq-v4-siaddr")
	verifEqBytes(verifV4Addr(a.GatewayIPAddr), verifV4Addr(b.GatewayIPAddr), "eq-v4-giaddr")
	verifEqBytes(a.ClientHWAddr, b.ClientHWAddr, "eq-v4-chaddr")
	verifEqBytes([]byte(a.ServerHostName), []byte(b.ServerHostName), "eq-v4-sname")
	verifEqBytes([]byte(a.BootFileName), []byte(b.BootFileName), "eq-v4-file")
	verifAssert(len(a.Options) == len(b.Options), "eq-v4-options-count")
	for code, va := range a.Options {
		vb, has := b.Options[code]
		verifAssert(has, "eq-v4-option-present")
		if has {
			verifEqBytes(va, vb, "eq-v4-option-value")
		}
	}
}

// verifV4Addr: nil == 0.0.0.0 in the BOOTP header.
func verifV4Addr(ip net.IP) []byte {
	if len(ip) == 0 {
		return []byte{0, 0, 0, 0}
	}
	if len(ip) == 16 {
		return ip[12:]
	}
	return ip
}

func verifEqMsg(a, b DHCPv6) {
	switch x := a.(type) {
	case *Message:
		y, ok := b.(*Message)
		verifAssert(ok, "eq-msg-kind")
		if ok {
			verifAssert(x.MessageType == y.MessageType, "eq-msg-type")
			verifEqBytes(x.TransactionID[:], y.TransactionID[:], "eq-msg-xid")
			verifEqOpts(x.Options.Options, y.Options.Options)
		}
	case *RelayMessage:
		y, ok := b.(*RelayMessage)
		verifAssert(ok, "eq-msg-kind")
		if ok {
			verifAssert(x.MessageType == y.MessageType, "eq-relay-type")
			verifAssert(x.HopCount == y.HopCount, "eq-relay-hops")
			verifEqBytes(x.LinkAddr, y.LinkAddr, "eq-relay-link")
			verifEqBytes(x.PeerAddr, y.PeerAddr, "eq-relay-peer")
			verifEqOpts(x.Options.Options, y.Options.Options)
		}
	default:
		verifAssert(false, "eq-msg-unexpected-kind")
	}
}

// verifEqOpt asserts that two options are equal field by field, recursively.
func verifEqOpt(a, b Option) {
	verifAssert(a.Code() == b.Code(), "eq-code")
	switch x := a.(type) {
	case *optClientID:
		y, ok := b.(*optClientID)
		verifAssert(ok, "eq-type")
		if ok {
			verifEqDUID(x.DUID, y.DUID)
		}
	case *optServerID:
		y, ok := b.(*optServerID)
		verifAssert(ok, "eq-type")
		if ok {
			verifEqDUID(x.DUID, y.DUID)
		}
	case *OptIANA:
		y, ok := b.(*OptIANA)
		verifAssert(ok, "eq-type")
		if ok {
			verifEqBytes(x.IaId[:], y.IaId[:], "eq-iaid")
			verifAssert(x.T1 == y.T1, "eq-t1")
			verifAssert(x.T2 == y.T2, "eq-t2")
			verifEqOpts(x.Options.Options, y.Options.Options)
		}
	case *OptIATA:
		y, ok := b.(*OptIATA)
		verifAssert(ok, "eq-type")
		if ok {
			verifEqBytes(x.IaId[:], y.IaId[:], "eq-iaid")
			verifEqOpts(x.Options.Options, y.Options.Options)
		}
	case *OptIAAddress:
		y, ok := b.(*OptIAAddress)
		verifAssert(ok, "eq-type")
		if ok {
			verifEqBytes(x.IPv6Addr, y.IPv6Addr, "eq-iaaddr-address")
			verifAssert(x.PreferredLifetime == y.PreferredLifetime, "eq-preferred")
			verifAssert(x.ValidLifetime == y.ValidLifetime, "eq-valid")
			verifEqOpts(x.Options.Options, y.Options.Options)
		}
	case *optRequestedOption:
		y, ok := b.(*optRequestedOption)
		verifAssert(ok, "eq-type")
		if ok {
			verifAssert(len(x.OptionCodes) == len(y.OptionCodes), "eq-oro-count")
			if len(x.OptionCodes) == len(y.OptionCodes) {
				for i := range x.OptionCodes {
					verifAssert(x.OptionCodes[i] == y.OptionCodes[i], "eq-oro-code")
				}
			}
		}
	case *optElapsedTime:
		y, ok := b.(*optElapsedTime)
		verifAssert(ok, "eq-type")
		if ok {
			verifAssert(x.ElapsedTime == y.ElapsedTime, "eq-elapsed")
		}
	case *optRelayMsg:
		y, ok := b.(*optRelayMsg)
		verifAssert(ok, "eq-type")
		if ok {
			verifEqMsg(x.Msg, y.Msg)
		}
	case *OptStatusCode:
		y, ok := b.(*OptStatusCode)
		verifAssert(ok, "eq-type")
		if ok {
			verifAssert(x.StatusCode == y.StatusCode, "eq-status-code")
			verifEqBytes([]byte(x.StatusMessage), []byte(y.StatusMessage), "eq-status-message")
		}
	case *OptUserClass:
		y, ok := b.(*OptUserClass)
		verifAssert(ok, "eq-type")
		if ok {
			verifEqByteLists(x.UserClasses, y.UserClasses, "eq-user-class")
		}
	case *OptVendorClass:
		y, ok := b.(*OptVendorClass)
		verifAssert(ok, "eq-type")
		if ok {
			verifAssert(x.EnterpriseNumber == y.EnterpriseNumber, "eq-enterprise")
			verifEqByteLists(x.Data, y.Data, "eq-vendor-class")
		}
	case *OptVendorOpts:
		y, ok := b.(*OptVendorOpts)
		verifAssert(ok, "eq-type")
		if ok {
			verifAssert(x.EnterpriseNumber == y.EnterpriseNumber, "eq-enterprise")
			verifEqOpts(x.VendorOpts, y.VendorOpts)
		}
	case *optInterfaceID:
		y, ok := b.(*optInterfaceID)
		verifAssert(ok, "eq-type")
		if ok {
			verifEqBytes(x.ID, y.ID, "eq-interface-id")
		}
	case *optDNS:
		y, ok := b.(*optDNS)
		verifAssert(ok, "eq-type")
		if ok {
			verifEqIPs(x.NameServers, y.NameServers, "eq-dns")
		}
	case *optDomainSearchList:
		y, ok := b.(*optDomainSearchList)
		verifAssert(ok, "eq-type")
		if ok {
			verifEqLabels(x.DomainSearchList, y.DomainSearchList, "eq-search-list")
		}
	case *OptIAPD:
		y, ok := b.(*OptIAPD)
		verifAssert(ok, "eq-type")
		if ok {
			verifEqBytes(x.IaId[:], y.IaId[:], "eq-iaid")
			verifAssert(x.T1 == y.T1, "eq-t1")
			verifAssert(x.T2 == y.T2, "eq-t2")
			verifEqOpts(x.Options.Options, y.Options.Options)
		}
	case *OptIAPrefix:
		y, ok := b.(*OptIAPrefix)
		verifAssert(ok, "eq-type")
		if ok {
			verifAssert(x.PreferredLifetime == y.PreferredLifetime, "eq-preferred")
			verifAssert(x.ValidLifetime == y.ValidLifetime, "eq-valid")
			verifEqPrefix(x.Prefix, y.Prefix)
			verifEqOpts(x.Options.Options, y.Options.Options)
		}
	case *optInformationRefreshTime:
		y, ok := b.(*optInformationRefreshTime)
		verifAssert(ok, "eq-type")
		if ok {
			verifAssert(x.InformationRefreshtime == y.InformationRefreshtime, "eq-refresh-time")
		}
	case *OptRemoteID:
		y, ok := b.(*OptRemoteID)
		verifAssert(ok, "eq-type")
		if ok {
			verifAssert(x.EnterpriseNumber == y.EnterpriseNumber, "eq-enterprise")
			verifEqBytes(x.RemoteID, y.RemoteID, "eq-remote-id")
		}
	case *OptFQDN:
		y, ok := b.(*OptFQDN)
		verifAssert(ok, "eq-type")
		if ok {
			verifAssert(x.Flags == y.Flags, "eq-fqdn-flags")
			verifEqLabels(x.DomainName, y.DomainName, "eq-fqdn-name")
		}
	case *OptNTPServer:
		y, ok := b.(*OptNTPServer)
		verifAssert(ok, "eq-type")
		if ok {
			verifEqOpts(x.Suboptions, y.Suboptions)
		}
	case *NTPSuboptionSrvAddr:
		y, ok := b.(*NTPSuboptionSrvAddr)
		verifAssert(ok, "eq-type")
		if ok {
			verifEqBytes([]byte(*x), []byte(*y), "eq-ntp-server-address")
		}
	case *NTPSuboptionMCAddr:
		y, ok := b.(*NTPSuboptionMCAddr)
		verifAssert(ok, "eq-type")
		if ok {
			verifEqBytes([]byte(*x), []byte(*y), "eq-ntp-multicast-address")
		}
	case *NTPSuboptionSrvFQDN:
		y, ok := b.(*NTPSuboptionSrvFQDN)
		verifAssert(ok, "eq-type")
		if ok {
			verifEqStrings(x.Labels.Labels, y.Labels.Labels, "eq-ntp-fqdn")
		}
	case *optBootFileURL:
		y, ok := b.(*optBootFileURL)
		verifAssert(ok, "eq-type")
		if ok {
			verifEqBytes([]byte(x.url), []byte(y.url), "eq-boot-url")
		}
	case *optBootFileParam:
		y, ok := b.(*optBootFileParam)
		verifAssert(ok, "eq-type")
		if ok {
			verifEqStrings(x.params, y.params, "eq-boot-param")
		}
	case *optClientArchType:
		y, ok := b.(*optClientArchType)
		verifAssert(ok, "eq-type")
		if ok {
			verifAssert(len(x.Archs) == len(y.Archs), "eq-arch-count")
			if len(x.Archs) == len(y.Archs) {
				for i := range x.Archs {
					verifAssert(x.Archs[i] == y.Archs[i], "eq-arch")
				}
			}
		}
	case *OptNetworkInterfaceID:
		y, ok := b.(*OptNetworkInterfaceID)
		verifAssert(ok, "eq-type")
		if ok {
			verifAssert(x.Typ == y.Typ, "eq-nii-type")
			verifAssert(x.Major == y.Major, "eq-nii-major")
			verifAssert(x.Minor == y.Minor, "eq-nii-minor")
		}
	case *optClientLinkLayerAddress:
		y, ok := b.(*optClientLinkLayerAddress)
		verifAssert(ok, "eq-type")
		if ok {
			verifAssert(x.LinkLayerType == y.LinkLayerType, "eq-ll-type")
			verifEqBytes(x.LinkLayerAddress, y.LinkLayerAddress, "eq-ll-address")
		}
	case *OptDHCPv4Msg:
		y, ok := b.(*OptDHCPv4Msg)
		verifAssert(ok, "eq-type")
		if ok {
			verifEqV4(x.Msg, y.Msg)
		}
	case *OptDHCP4oDHCP6Server:
		y, ok := b.(*OptDHCP4oDHCP6Server)
		verifAssert(ok, "eq-type")
		if ok {
			verifEqIPs(x.DHCP4oDHCP6Servers, y.DHCP4oDHCP6Servers, "eq-4o6-server")
		}
	case *Opt4RD:
		y, ok := b.(*Opt4RD)
		verifAssert(ok, "eq-type")
		if ok {
			verifEqOpts(x.Options, y.Options)
		}
	case *Opt4RDMapRule:
		y, ok := b.(*Opt4RDMapRule)
		verifAssert(ok, "eq-type")
		if ok {
			verifEqIPNet(x.Prefix4, y.Prefix4, "eq-4rd-prefix4")
			verifEqIPNet(x.Prefix6, y.Prefix6, "eq-4rd-prefix6")
			verifAssert(x.EABitsLength == y.EABitsLength, "eq-4rd-ea-bits")
			verifAssert(x.WKPAuthorized == y.WKPAuthorized, "eq-4rd-wkp")
		}
	case *Opt4RDNonMapRule:
		y, ok := b.(*Opt4RDNonMapRule)
		verifAssert(ok, "eq-type")
		if ok {
			verifAssert(x.HubAndSpoke == y.HubAndSpoke, "eq-4rd-hub-and-spoke")
			verifAssert((x.TrafficClass == nil) == (y.TrafficClass == nil), "eq-4rd-traffic-class-presence")
			if x.TrafficClass != nil && y.TrafficClass != nil {
				verifAssert(*x.TrafficClass == *y.TrafficClass, "eq-4rd-traffic-class")
			}
			verifAssert(x.DomainPMTU == y.DomainPMTU, "eq-4rd-pmtu")
		}
	case *optRelayPort:
		y, ok := b.(*optRelayPort)
		verifAssert(ok, "eq-type")
		if ok {
			verifAssert(x.DownstreamSourcePort == y.DownstreamSourcePort, "eq-relay-port")
		}
	case *OptionGeneric:
		y, ok := b.(*OptionGeneric)
		verifAssert(ok, "eq-type")
		if ok {
			verifAssert(x.OptionCode == y.OptionCode, "eq-generic-code")
			verifEqBytes(x.OptionData, y.OptionData, "eq-generic-data")
		}
	default:
		verifAssert(false, "eq-unexpected-option-type")
	}
}

// verifC02Check is the common tail of the per-option harnesses.
func verifC02Check(opt Option, code uint16, want []byte) {
	verifAssert(uint16(opt.Code()) == code, "code")
	b := opt.ToBytes()
	verifAssert(verifSame(b, want), "encoding-is-rfc-layout")
	verifObserve("encoded", b)
	st := refOptStatus(code, b)
	verifAssert(st != refReject, "encoding-wellformed-for-reference")
	if st != refAccept {
		verifReach("not-on-the-wire")
		verifReach("end")
		return
	}
	back, err := ParseOption(OptionCode(code), b)
	verifAssert(err == nil, "decode-ok")
	if err != nil {
		return
	}
	verifEqOpt(opt, back)
	verifReach("end")
}

func verifSecs(name string) (time.Duration, uint32) {
	s := verifU32(name)
	return time.Duration(s) * time.Second, s
}

// ---------------------------------------------------------------------------------------------
// Simple scalar options.

func VerifC02OptElapsedTime() {
	k := verifU16("k")
	o := OptElapsedTime(time.Duration(k) * 10 * time.Millisecond)
	verifC02Check(o, refElapsed, refPut16(nil, k))
}

func VerifC02OptInformationRefreshTime() {
	d, s := verifSecs("irt")
	verifC02Check(OptInformationRefreshTime(d), refInfoRefresh, refPut32(nil, s))
}

func VerifC02OptRelayPort() {
	p := verifU16("port")
	verifC02Check(OptRelayPort(p), refRelayPort, refPut16(nil, p))
}

func VerifC02OptNII() {
	t, ma, mi := verifU8("typ"), verifU8("major"), verifU8("minor")
	o := &OptNetworkInterfaceID{Typ: NetworkInterfaceType(t), Major: ma, Minor: mi}
	verifC02Check(o, refNII, []byte{t, ma, mi})
}

// VerifC02OptStatusCode: message of l bytes.
func VerifC02OptStatusCode(l int) {
	c := verifU16("code")
	msg := verifBytes("msg", l)
	o := &OptStatusCode{StatusCode: iana.StatusCode(c), StatusMessage: string(msg)}
	verifC02Check(o, refStatus, refEncStatus(c, msg))
}

// VerifC02OptDNS: k addresses.
func VerifC02OptDNS(k int) {
	var ips []net.IP
	var want []byte
	for i := 0; i < k; i++ {
		a := verifBytes("addr", 16)
		ips = append(ips, net.IP(a))
		want = append(want, a...)
	}
	verifC02Check(OptDNS(ips...), refDNS, want)
}

// verifStatusSub builds a nested status-code option with a message of l bytes (l < 0: none).
func verifStatusSub(l int) (opts Options, enc []byte) {
	if l < 0 {
		return nil, nil
	}
	c := verifU16("status")
	msg := verifBytes("statusmsg", l)
	o := &OptStatusCode{StatusCode: iana.StatusCode(c), StatusMessage: string(msg)}
	return Options{o}, refEncTLV(refStatus, refEncStatus(c, msg))
}

// verifIAAddr builds an IAADDR with an optional nested status code.
func verifIAAddr(l int) (o *OptIAAddress, payload []byte) {
	addr := verifBytes("addr", 16)
	pd, ps := verifSecs("preferred")
	vd, vs := verifSecs("valid")
	sub, subEnc := verifStatusSub(l)
	o = &OptIAAddress{IPv6Addr: net.IP(addr), PreferredLifetime: pd, ValidLifetime: vd}
	o.Options.Options = sub
	return o, refEncIAAddr(addr, ps, vs, subEnc)
}

// VerifC02OptIAAddress: l < 0 no nested option, else a nested status code with l message bytes.
func VerifC02OptIAAddress(l int) {
	o, want := verifIAAddr(l)
	verifC02Check(o, refIAAddr, want)
}

var _ = dhcpv4.OpcodeBootRequest
