//go:build verif

package dhcpv6

import (
	"net"
	"time"

	"github.com/insomniacslk/dhcp/dhcpv4"
	"github.com/insomniacslk/dhcp/iana"
	"github.com/insomniacslk/dhcp/rfc1035label"
)

// C02: DHCPv6 encode -> decode preserves messages, relay chains and every option type, and the
// emitted bytes are the RFC layout of the field values (ref_options.go encoders).
//
// Every per-option harness builds the option from symbolic field values and calls verifC02Check,
// which asserts
//   (a) opt.ToBytes() == reference encoding,
//   (b) ParseOption(code, opt.ToBytes()) succeeds and equals opt field by field (verifEqOpt;
//       nil == empty for slices) -- asserted where the reference decoder accepts the bytes, i.e.
//       for values that exist on the wire (DESIGN §5 C02 precision note).

// ---------------------------------------------------------------------------------------------
// Field-by-field equality (also used by C06).

func verifEqBytes(a, b []byte, label string) { verifAssert(verifSame(a, b), label) }

func verifAllZero(b []byte) bool {
	var d byte
	for i := range b {
		d |= b[i]
	}
	return d == 0
}

// verifNormPrefix: the library represents a zero-length IA prefix as nil; nil == ::/0.
func verifNormPrefix(p *net.IPNet) (mask, ip []byte) {
	if p == nil {
		return make([]byte, 16), make([]byte, 16)
	}
	return []byte(p.Mask), []byte(p.IP)
}

func verifEqPrefix(a, b *net.IPNet) {
	ma, ia := verifNormPrefix(a)
	mb, ib := verifNormPrefix(b)
	verifAssert(verifSame(ma, mb), "eq-prefix-length")
	if len(ma) == 16 && len(mb) == 16 {
		// a /0 prefix carries no address bits
		verifAssert(verifOr(verifAllZero(ma), verifSame(ia, ib)), "eq-prefix-address")
	} else {
		verifAssert(verifSame(ia, ib), "eq-prefix-address")
	}
}

func verifEqIPNet(a, b net.IPNet, label string) {
	verifAssert(verifSame(a.Mask, b.Mask), label+"-mask")
	verifAssert(verifSame(a.IP, b.IP), label+"-ip")
}

func verifEqDUID(a, b DUID) {
	switch x := a.(type) {
	case *DUIDLLT:
		y, ok := b.(*DUIDLLT)
		verifAssert(ok, "eq-duid-kind")
		if ok {
			verifAssert(x.HWType == y.HWType, "eq-duid-hwtype")
			verifAssert(x.Time == y.Time, "eq-duid-time")
			verifEqBytes(x.LinkLayerAddr, y.LinkLayerAddr, "eq-duid-lladdr")
		}
	case *DUIDLL:
		y, ok := b.(*DUIDLL)
		verifAssert(ok, "eq-duid-kind")
		if ok {
			verifAssert(x.HWType == y.HWType, "eq-duid-hwtype")
			verifEqBytes(x.LinkLayerAddr, y.LinkLayerAddr, "eq-duid-lladdr")
		}
	case *DUIDEN:
		y, ok := b.(*DUIDEN)
		verifAssert(ok, "eq-duid-kind")
		if ok {
			verifAssert(x.EnterpriseNumber == y.EnterpriseNumber, "eq-duid-enterprise")
			verifEqBytes(x.EnterpriseIdentifier, y.EnterpriseIdentifier, "eq-duid-identifier")
		}
	case *DUIDUUID:
		y, ok := b.(*DUIDUUID)
		verifAssert(ok, "eq-duid-kind")
		if ok {
			verifEqBytes(x.UUID[:], y.UUID[:], "eq-duid-uuid")
		}
	case *DUIDOpaque:
		y, ok := b.(*DUIDOpaque)
		verifAssert(ok, "eq-duid-kind")
		if ok {
			verifAssert(x.Type == y.Type, "eq-duid-type")
			verifEqBytes(x.Data, y.Data, "eq-duid-data")
		}
	default:
		verifAssert(false, "eq-duid-unexpected-kind")
	}
}

func verifEqIPs(a, b []net.IP, label string) {
	verifAssert(len(a) == len(b), label+"-count")
	if len(a) == len(b) {
		for i := range a {
			verifEqBytes(a[i], b[i], label)
		}
	}
}

func verifEqByteLists(a, b [][]byte, label string) {
	verifAssert(len(a) == len(b), label+"-count")
	if len(a) == len(b) {
		for i := range a {
			verifEqBytes(a[i], b[i], label)
		}
	}
}

func verifEqStrings(a, b []string, label string) {
	verifAssert(len(a) == len(b), label+"-count")
	if len(a) == len(b) {
		for i := range a {
			verifEqBytes([]byte(a[i]), []byte(b[i]), label)
		}
	}
}

func verifEqLabels(a, b *rfc1035label.Labels, label string) {
	if a == nil || b == nil {
		verifAssert(a == nil && b == nil, label+"-presence")
		return
	}
	verifEqStrings(a.Labels, b.Labels, label)
}

func verifEqOpts(a, b Options) {
	verifAssert(len(a) == len(b), "eq-options-count")
	if len(a) == len(b) {
		for i := range a {
			verifEqOpt(a[i], b[i])
		}
	}
}

func verifEqV4(a, b *dhcpv4.DHCPv4) {
	if a == nil || b == nil {
		verifAssert(a == nil && b == nil, "eq-v4-presence")
		return
	}
	verifAssert(a.OpCode == b.OpCode, "eq-v4-op")
	verifAssert(a.HWType == b.HWType, "eq-v4-htype")
	verifAssert(a.HopCount == b.HopCount, "eq-v4-hops")
	verifEqBytes(a.TransactionID[:], b.TransactionID[:], "eq-v4-xid")
	verifAssert(a.NumSeconds == b.NumSeconds, "eq-v4-secs")
	verifAssert(a.Flags == b.Flags, "eq-v4-flags")
	verifEqBytes(verifV4Addr(a.ClientIPAddr), verifV4Addr(b.ClientIPAddr), "eq-v4-ciaddr")
	verifEqBytes(verifV4Addr(a.YourIPAddr), verifV4Addr(b.YourIPAddr), "eq-v4-yiaddr")
	verifEqBytes(verifV4Addr(a.ServerIPAddr), verifV4Addr(b.ServerIPAddr), "eq-v4-siaddr")
	verifEqBytes(verifV4Addr(a.GatewayIPAddr), verifV4Addr(b.GatewayIPAddr), "eq-v4-giaddr")
	verifEqBytes(a.ClientHWAddr, b.ClientHWAddr, "eq-v4-chaddr")
	// C06 lists "names cut to their NUL-terminated capacity" as a normalisation: the 64 / 128
	// byte fields hold at most 63 / 127 name bytes
	verifEqBytes(verifCut([]byte(a.ServerHostName), 63), verifCut([]byte(b.ServerHostName), 63), "eq-v4-sname")
	verifEqBytes(verifCut([]byte(a.BootFileName), 127), verifCut([]byte(b.BootFileName), 127), "eq-v4-file")
	verifAssert(len(a.Options) == len(b.Options), "eq-v4-options-count")
	for code, va := range a.Options {
		vb, has := b.Options[code]
		verifAssert(has, "eq-v4-option-present")
		if has {
			verifEqBytes(va, vb, "eq-v4-option-value")
		}
	}
}

func verifCut(b []byte, n int) []byte {
	if len(b) > n {
		return b[:n]
	}
	return b
}

// verifV4Addr: nil == 0.0.0.0 in the BOOTP header.
func verifV4Addr(ip net.IP) []byte {
	if len(ip) == 0 {
		return []byte{0, 0, 0, 0}
	}
	if len(ip) == 16 {
		return ip[12:]
	}
	return ip
}

func verifEqMsg(a, b DHCPv6) {
	switch x := a.(type) {
	case *Message:
		y, ok := b.(*Message)
		verifAssert(ok, "eq-msg-kind")
		if ok {
			verifAssert(x.MessageType == y.MessageType, "eq-msg-type")
			verifEqBytes(x.TransactionID[:], y.TransactionID[:], "eq-msg-xid")
			verifEqOpts(x.Options.Options, y.Options.Options)
		}
	case *RelayMessage:
		y, ok := b.(*RelayMessage)
		verifAssert(ok, "eq-msg-kind")
		if ok {
			verifAssert(x.MessageType == y.MessageType, "eq-relay-type")
			verifAssert(x.HopCount == y.HopCount, "eq-relay-hops")
			verifEqBytes(x.LinkAddr, y.LinkAddr, "eq-relay-link")
			verifEqBytes(x.PeerAddr, y.PeerAddr, "eq-relay-peer")
			verifEqOpts(x.Options.Options, y.Options.Options)
		}
	default:
		verifAssert(false, "eq-msg-unexpected-kind")
	}
}

// verifEqOpt asserts that two options are equal field by field, recursively.
func verifEqOpt(a, b Option) {
	verifAssert(a.Code() == b.Code(), "eq-code")
	switch x := a.(type) {
	case *optClientID:
		y, ok := b.(*optClientID)
		verifAssert(ok, "eq-type")
		if ok {
			verifEqDUID(x.DUID, y.DUID)
		}
	case *optServerID:
		y, ok := b.(*optServerID)
		verifAssert(ok, "eq-type")
		if ok {
			verifEqDUID(x.DUID, y.DUID)
		}
	case *OptIANA:
		y, ok := b.(*OptIANA)
		verifAssert(ok, "eq-type")
		if ok {
			verifEqBytes(x.IaId[:], y.IaId[:], "eq-iaid")
			verifAssert(x.T1 == y.T1, "eq-t1")
			verifAssert(x.T2 == y.T2, "eq-t2")
			verifEqOpts(x.Options.Options, y.Options.Options)
		}
	case *OptIATA:
		y, ok := b.(*OptIATA)
		verifAssert(ok, "eq-type")
		if ok {
			verifEqBytes(x.IaId[:], y.IaId[:], "eq-iaid")
			verifEqOpts(x.Options.Options, y.Options.Options)
		}
	case *OptIAAddress:
		y, ok := b.(*OptIAAddress)
		verifAssert(ok, "eq-type")
		if ok {
			verifEqBytes(x.IPv6Addr, y.IPv6Addr, "eq-iaaddr-address")
			verifAssert(x.PreferredLifetime == y.PreferredLifetime, "eq-preferred")
			verifAssert(x.ValidLifetime == y.ValidLifetime, "eq-valid")
			verifEqOpts(x.Options.Options, y.Options.Options)
		}
	case *optRequestedOption:
		y, ok := b.(*optRequestedOption)
		verifAssert(ok, "eq-type")
		if ok {
			verifAssert(len(x.OptionCodes) == len(y.OptionCodes), "eq-oro-count")
			if len(x.OptionCodes) == len(y.OptionCodes) {
				for i := range x.OptionCodes {
					verifAssert(x.OptionCodes[i] == y.OptionCodes[i], "eq-oro-code")
				}
			}
		}
	case *optElapsedTime:
		y, ok := b.(*optElapsedTime)
		verifAssert(ok, "eq-type")
		if ok {
			verifAssert(x.ElapsedTime == y.ElapsedTime, "eq-elapsed")
		}
	case *optRelayMsg:
		y, ok := b.(*optRelayMsg)
		verifAssert(ok, "eq-type")
		if ok {
			verifEqMsg(x.Msg, y.Msg)
		}
	case *OptStatusCode:
		y, ok := b.(*OptStatusCode)
		verifAssert(ok, "eq-type")
		if ok {
			verifAssert(x.StatusCode == y.StatusCode, "eq-status-code")
			verifEqBytes([]byte(x.StatusMessage), []byte(y.StatusMessage), "eq-status-message")
		}
	case *OptUserClass:
		y, ok := b.(*OptUserClass)
		verifAssert(ok, "eq-type")
		if ok {
			verifEqByteLists(x.UserClasses, y.UserClasses, "eq-user-class")
		}
	case *OptVendorClass:
		y, ok := b.(*OptVendorClass)
		verifAssert(ok, "eq-type")
		if ok {
			verifAssert(x.EnterpriseNumber == y.EnterpriseNumber, "eq-enterprise")
			verifEqByteLists(x.Data, y.Data, "eq-vendor-class")
		}
	case *OptVendorOpts:
		y, ok := b.(*OptVendorOpts)
		verifAssert(ok, "eq-type")
		if ok {
			verifAssert(x.EnterpriseNumber == y.EnterpriseNumber, "eq-enterprise")
			verifEqOpts(x.VendorOpts, y.VendorOpts)
		}
	case *optInterfaceID:
		y, ok := b.(*optInterfaceID)
		verifAssert(ok, "eq-type")
		if ok {
			verifEqBytes(x.ID, y.ID, "eq-interface-id")
		}
	case *optDNS:
		y, ok := b.(*optDNS)
		verifAssert(ok, "eq-type")
		if ok {
			verifEqIPs(x.NameServers, y.NameServers, "eq-dns")
		}
	case *optDomainSearchList:
		y, ok := b.(*optDomainSearchList)
		verifAssert(ok, "eq-type")
		if ok {
			verifEqLabels(x.DomainSearchList, y.DomainSearchList, "eq-search-list")
		}
	case *OptIAPD:
		y, ok := b.(*OptIAPD)
		verifAssert(ok, "eq-type")
		if ok {
			verifEqBytes(x.IaId[:], y.IaId[:], "eq-iaid")
			verifAssert(x.T1 == y.T1, "eq-t1")
			verifAssert(x.T2 == y.T2, "eq-t2")
			verifEqOpts(x.Options.Options, y.Options.Options)
		}
	case *OptIAPrefix:
		y, ok := b.(*OptIAPrefix)
		verifAssert(ok, "eq-type")
		if ok {
			verifAssert(x.PreferredLifetime == y.PreferredLifetime, "eq-preferred")
			verifAssert(x.ValidLifetime == y.ValidLifetime, "eq-valid")
			verifEqPrefix(x.Prefix, y.Prefix)
			verifEqOpts(x.Options.Options, y.Options.Options)
		}
	case *optInformationRefreshTime:
		y, ok := b.(*optInformationRefreshTime)
		verifAssert(ok, "eq-type")
		if ok {
			verifAssert(x.InformationRefreshtime == y.InformationRefreshtime, "eq-refresh-time")
		}
	case *OptRemoteID:
		y, ok := b.(*OptRemoteID)
		verifAssert(ok, "eq-type")
		if ok {
			verifAssert(x.EnterpriseNumber == y.EnterpriseNumber, "eq-enterprise")
			verifEqBytes(x.RemoteID, y.RemoteID, "eq-remote-id")
		}
	case *OptFQDN:
		y, ok := b.(*OptFQDN)
		verifAssert(ok, "eq-type")
		if ok {
			verifAssert(x.Flags == y.Flags, "eq-fqdn-flags")
			verifEqLabels(x.DomainName, y.DomainName, "eq-fqdn-name")
		}
	case *OptNTPServer:
		y, ok := b.(*OptNTPServer)
		verifAssert(ok, "eq-type")
		if ok {
			verifEqOpts(x.Suboptions, y.Suboptions)
		}
	case *NTPSuboptionSrvAddr:
		y, ok := b.(*NTPSuboptionSrvAddr)
		verifAssert(ok, "eq-type")
		if ok {
			verifEqBytes([]byte(*x), []byte(*y), "eq-ntp-server-address")
		}
	case *NTPSuboptionMCAddr:
		y, ok := b.(*NTPSuboptionMCAddr)
		verifAssert(ok, "eq-type")
		if ok {
			verifEqBytes([]byte(*x), []byte(*y), "eq-ntp-multicast-address")
		}
	case *NTPSuboptionSrvFQDN:
		y, ok := b.(*NTPSuboptionSrvFQDN)
		verifAssert(ok, "eq-type")
		if ok {
			verifEqStrings(x.Labels.Labels, y.Labels.Labels, "eq-ntp-fqdn")
		}
	case *optBootFileURL:
		y, ok := b.(*optBootFileURL)
		verifAssert(ok, "eq-type")
		if ok {
			verifEqBytes([]byte(x.url), []byte(y.url), "eq-boot-url")
		}
	case *optBootFileParam:
		y, ok := b.(*optBootFileParam)
		verifAssert(ok, "eq-type")
		if ok {
			verifEqStrings(x.params, y.params, "eq-boot-param")
		}
	case *optClientArchType:
		y, ok := b.(*optClientArchType)
		verifAssert(ok, "eq-type")
		if ok {
			verifAssert(len(x.Archs) == len(y.Archs), "eq-arch-count")
			if len(x.Archs) == len(y.Archs) {
				for i := range x.Archs {
					verifAssert(x.Archs[i] == y.Archs[i], "eq-arch")
				}
			}
		}
	case *OptNetworkInterfaceID:
		y, ok := b.(*OptNetworkInterfaceID)
		verifAssert(ok, "eq-type")
		if ok {
			verifAssert(x.Typ == y.Typ, "eq-nii-type")
			verifAssert(x.Major == y.Major, "eq-nii-major")
			verifAssert(x.Minor == y.Minor, "eq-nii-minor")
		}
	case *optClientLinkLayerAddress:
		y, ok := b.(*optClientLinkLayerAddress)
		verifAssert(ok, "eq-type")
		if ok {
			verifAssert(x.LinkLayerType == y.LinkLayerType, "eq-ll-type")
			verifEqBytes(x.LinkLayerAddress, y.LinkLayerAddress, "eq-ll-address")
		}
	case *OptDHCPv4Msg:
		y, ok := b.(*OptDHCPv4Msg)
		verifAssert(ok, "eq-type")
		if ok {
			verifEqV4(x.Msg, y.Msg)
		}
	case *OptDHCP4oDHCP6Server:
		y, ok := b.(*OptDHCP4oDHCP6Server)
		verifAssert(ok, "eq-type")
		if ok {
			verifEqIPs(x.DHCP4oDHCP6Servers, y.DHCP4oDHCP6Servers, "eq-4o6-server")
		}
	case *Opt4RD:
		y, ok := b.(*Opt4RD)
		verifAssert(ok, "eq-type")
		if ok {
			verifEqOpts(x.Options, y.Options)
		}
	case *Opt4RDMapRule:
		y, ok := b.(*Opt4RDMapRule)
		verifAssert(ok, "eq-type")
		if ok {
			verifEqIPNet(x.Prefix4, y.Prefix4, "eq-4rd-prefix4")
			verifEqIPNet(x.Prefix6, y.Prefix6, "eq-4rd-prefix6")
			verifAssert(x.EABitsLength == y.EABitsLength, "eq-4rd-ea-bits")
			verifAssert(x.WKPAuthorized == y.WKPAuthorized, "eq-4rd-wkp")
		}
	case *Opt4RDNonMapRule:
		y, ok := b.(*Opt4RDNonMapRule)
		verifAssert(ok, "eq-type")
		if ok {
			verifAssert(x.HubAndSpoke == y.HubAndSpoke, "eq-4rd-hub-and-spoke")
			verifAssert((x.TrafficClass == nil) == (y.TrafficClass == nil), "eq-4rd-traffic-class-presence")
			if x.TrafficClass != nil && y.TrafficClass != nil {
				verifAssert(*x.TrafficClass == *y.TrafficClass, "eq-4rd-traffic-class")
			}
			verifAssert(x.DomainPMTU == y.DomainPMTU, "eq-4rd-pmtu")
		}
	case *optRelayPort:
		y, ok := b.(*optRelayPort)
		verifAssert(ok, "eq-type")
		if ok {
			verifAssert(x.DownstreamSourcePort == y.DownstreamSourcePort, "eq-relay-port")
		}
	case *OptionGeneric:
		y, ok := b.(*OptionGeneric)
		verifAssert(ok, "eq-type")
		if ok {
			verifAssert(x.OptionCode == y.OptionCode, "eq-generic-code")
			verifEqBytes(x.OptionData, y.OptionData, "eq-generic-data")
		}
	default:
		verifAssert(false, "eq-unexpected-option-type")
	}
}

// verifC02Check is the common tail of the per-option harnesses.
//
// wordsAt lists the offsets of 32-bit second counts (16-bit for elapsed time: negative offset
// -1-off) in the payload: those are compared as whole numbers, so that the solver sees one
// equation over the time.Duration arithmetic instead of a bit-level one; all other bytes are
// compared bytewise.
func verifC02Check(opt Option, code uint16, want []byte, wordsAt ...int) {
	verifAssert(uint16(opt.Code()) == code, "code")
	b := opt.ToBytes()
	verifSameLayout(b, want, wordsAt)
	verifObserve("encoded", b)
	st := refOptStatus(code, b)
	if st != refAccept {
		// a value a caller can build but that does not exist on the wire (empty class lists,
		// empty remote-id, ...): only its encoding is checked
		verifReach("not-on-the-wire")
		verifReach("end")
		return
	}
	back, err := ParseOption(OptionCode(code), b)
	verifAssert(err == nil, "decode-ok")
	if err != nil {
		return
	}
	verifEqOpt(opt, back)
	// C20 on typed values with symbolic fields: reading or printing the option (the one built and
	// the one decoded) changes neither its encoding nor what its accessors return
	verifC20Readers(back, false)
	// C08 on typed values: the decoded option owns its memory — the buffer it was decoded from is
	// overwritten with an arbitrary pattern and the option must still encode as before
	// ... and shares no memory with a second decoding of the same bytes (decoders that hand out
	// views of a common table or cache would tie unrelated messages together)
	if back2, err2 := ParseOption(OptionCode(code), append([]byte(nil), b...)); err2 == nil {
		verifAssert(!verifShares(back, back2), "two-decoded-options-share-no-memory")
	}
	verifAssert(!verifShares(back, b), "decoded-option-shares-no-memory-with-the-source-buffer")
	enc0 := append([]byte(nil), back.ToBytes()...)
	verifHavoc("scribble-in", b)
	verifAssert(verifSame(back.ToBytes(), enc0), "overwriting-the-source-buffer-changes-nothing")
	verifReach("end")
}

func verifSameLayout(b, want []byte, wordsAt []int) {
	verifAssert(len(b) == len(want), "encoding-length")
	if len(b) != len(want) {
		return
	}
	skip := make([]bool, len(b))
	for _, o := range wordsAt {
		if o < 0 {
			o = -1 - o
			verifAssert(refBE16(b[o:]) == refBE16(want[o:]), "encoding-10ms-units")
			skip[o], skip[o+1] = true, true
			continue
		}
		verifAssert(refBE32(b[o:]) == refBE32(want[o:]), "encoding-seconds")
		skip[o], skip[o+1], skip[o+2], skip[o+3] = true, true, true, true
	}
	var d byte
	for i := range b {
		if !skip[i] {
			d |= b[i] ^ want[i]
		}
	}
	verifAssert(d == 0, "encoding-is-rfc-layout")
}

func verifSecs(name string) (time.Duration, uint32) {
	s := verifU32(name)
	return time.Duration(s) * time.Second, s
}

// ---------------------------------------------------------------------------------------------
// Simple scalar options.

func VerifC02OptElapsedTime() {
	k := verifU16("k")
	o := OptElapsedTime(time.Duration(k) * 10 * time.Millisecond)
	verifC02Check(o, refElapsed, refPut16(nil, k), -1)
}

func VerifC02OptInformationRefreshTime() {
	d, s := verifSecs("irt")
	verifC02Check(OptInformationRefreshTime(d), refInfoRefresh, refPut32(nil, s), 0)
}

func VerifC02OptRelayPort() {
	p := verifU16("port")
	verifC02Check(OptRelayPort(p), refRelayPort, refPut16(nil, p))
}

func VerifC02OptNII() {
	t, ma, mi := verifU8("typ"), verifU8("major"), verifU8("minor")
	o := &OptNetworkInterfaceID{Typ: NetworkInterfaceType(t), Major: ma, Minor: mi}
	verifC02Check(o, refNII, []byte{t, ma, mi})
}

// VerifC02OptStatusCode: message of l bytes.
func VerifC02OptStatusCode(l int) {
	c := verifU16("code")
	msg := verifBytes("msg", l)
	o := &OptStatusCode{StatusCode: iana.StatusCode(c), StatusMessage: string(msg)}
	verifC02Check(o, refStatus, refEncStatus(c, msg))
}

// VerifC02OptDNS: k addresses.
func VerifC02OptDNS(k int) {
	var ips []net.IP
	var want []byte
	for i := 0; i < k; i++ {
		a := verifBytes("addr", 16)
		ips = append(ips, net.IP(a))
		want = append(want, a...)
	}
	verifC02Check(OptDNS(ips...), refDNS, want)
}

// verifStatusSub builds a nested status-code option with a message of l bytes (l < 0: none).
func verifStatusSub(l int) (opts Options, enc []byte) {
	if l < 0 {
		return nil, nil
	}
	c := verifU16("status")
	msg := verifBytes("statusmsg", l)
	o := &OptStatusCode{StatusCode: iana.StatusCode(c), StatusMessage: string(msg)}
	return Options{o}, refEncTLV(refStatus, refEncStatus(c, msg))
}

// verifIAAddr builds an IAADDR with an optional nested status code.
func verifIAAddr(l int) (o *OptIAAddress, payload []byte) {
	addr := verifBytes("addr", 16)
	pd, ps := verifSecs("preferred")
	vd, vs := verifSecs("valid")
	sub, subEnc := verifStatusSub(l)
	o = &OptIAAddress{IPv6Addr: net.IP(addr), PreferredLifetime: pd, ValidLifetime: vd}
	o.Options.Options = sub
	return o, refEncIAAddr(addr, ps, vs, subEnc)
}

// VerifC02OptIAAddress: l < 0 no nested option, else a nested status code with l message bytes.
func VerifC02OptIAAddress(l int) {
	o, want := verifIAAddr(l)
	verifC02Check(o, refIAAddr, want, 16, 20)
}

// ---------------------------------------------------------------------------------------------
// DUIDs (options 1 and 2).

// verifDUID builds a DUID of the given kind (0 LLT, 1 EN, 2 LL, 3 UUID, 4 opaque with a symbolic
// type outside 1..4) whose variable part has l bytes (ignored for UUID).
func verifDUID(kind, l int) (DUID, refDUID) {
	switch kind {
	case 0:
		hw, t, ll := verifU16("hwtype"), verifU32("time"), verifBytes("lladdr", l)
		return &DUIDLLT{HWType: iana.HWType(hw), Time: t, LinkLayerAddr: net.HardwareAddr(ll)},
			refDUID{typ: 1, hw: hw, time: t, body: ll}
	case 1:
		en, id := verifU32("enterprise"), verifBytes("identifier", l)
		return &DUIDEN{EnterpriseNumber: en, EnterpriseIdentifier: id}, refDUID{typ: 2, en: en, body: id}
	case 2:
		hw, ll := verifU16("hwtype"), verifBytes("lladdr", l)
		return &DUIDLL{HWType: iana.HWType(hw), LinkLayerAddr: net.HardwareAddr(ll)},
			refDUID{typ: 3, hw: hw, body: ll}
	case 3:
		u := verifBytes("uuid", 16)
		d := &DUIDUUID{}
		copy(d.UUID[:], u)
		return d, refDUID{typ: 4, body: u}
	default:
		t := verifU16("duidtype")
		verifAssume(verifOr(t == 0, t > 4))
		data := verifBytes("data", l)
		return &DUIDOpaque{Type: DUIDType(t), Data: data}, refDUID{typ: t, body: data}
	}
}

func VerifC02OptClientID(kind, l int) {
	d, r := verifDUID(kind, l)
	verifC02Check(OptClientID(d), refClientID, refEncDUID(r))
}

func VerifC02OptServerID(kind, l int) {
	d, r := verifDUID(kind, l)
	verifC02Check(OptServerID(d), refServerID, refEncDUID(r))
}

// ---------------------------------------------------------------------------------------------
// Identity associations.

// verifIAAddrList: k IAADDR options (each with a nested status code of l message bytes, l < 0
// none) followed by an IA-level status code when st >= 0 (st message bytes).
func verifIAAddrList(k, l, st int) (opts Options, enc []byte, words []int) {
	for i := 0; i < k; i++ {
		o, payload := verifIAAddr(l)
		opts = append(opts, o)
		base := len(enc) + 4
		words = append(words, base+16, base+20)
		enc = append(enc, refEncTLV(refIAAddr, payload)...)
	}
	sub, subEnc := verifStatusSub(st)
	opts = append(opts, sub...)
	enc = append(enc, subEnc...)
	return opts, enc, words
}

func verifShift(words []int, by int) []int {
	out := make([]int, 0, len(words))
	for _, w := range words {
		out = append(out, w+by)
	}
	return out
}

// VerifC02OptIANA: IA_NA with k addresses; l, st as in verifIAAddrList (nesting IA_NA > IAADDR >
// STATUS_CODE when l >= 0).
func VerifC02OptIANA(k, l, st int) {
	iaid := verifBytes("iaid", 4)
	t1, s1 := verifSecs("t1")
	t2, s2 := verifSecs("t2")
	opts, inner, words := verifIAAddrList(k, l, st)
	o := &OptIANA{T1: t1, T2: t2}
	copy(o.IaId[:], iaid)
	o.Options.Options = opts
	verifC02Check(o, refIANA, refEncIA(iaid, s1, s2, inner), append([]int{4, 8}, verifShift(words, 12)...)...)
}

func VerifC02OptIATA(k, l, st int) {
	iaid := verifBytes("iaid", 4)
	opts, inner, words := verifIAAddrList(k, l, st)
	o := &OptIATA{}
	copy(o.IaId[:], iaid)
	o.Options.Options = opts
	verifC02Check(o, refIATA, refEncIATA(iaid, inner), verifShift(words, 4)...)
}

// verifIAPrefix: prefix length is an enumerated choice lo..hi within 0..128 (the bit arithmetic
// of the mask and the 64-bit arithmetic of the lifetimes do not mix well in one solver query).
func verifIAPrefix(l, lo, hi int) (o *OptIAPrefix, payload []byte) {
	plen := lo + verifChoice("plen", hi-lo+1)
	addr := verifBytes("prefix", 16)
	pd, ps := verifSecs("preferred")
	vd, vs := verifSecs("valid")
	sub, subEnc := verifStatusSub(l)
	o = &OptIAPrefix{PreferredLifetime: pd, ValidLifetime: vd,
		Prefix: &net.IPNet{IP: net.IP(addr), Mask: net.CIDRMask(plen, 128)}}
	o.Options.Options = sub
	return o, refEncIAPrefix(ps, vs, uint8(plen), addr, subEnc)
}

// VerifC02OptIAPrefix: l < 0 no nested option, else a nested status code with l message bytes;
// every prefix length lo..hi.
func VerifC02OptIAPrefix(l, lo, hi int) {
	o, want := verifIAPrefix(l, lo, hi)
	verifC02Check(o, refIAPrefix, want, 0, 4)
}

// VerifC02OptIAPrefixNil: the "no prefix" representation encodes as ::/0.
func VerifC02OptIAPrefixNil() {
	pd, ps := verifSecs("preferred")
	vd, vs := verifSecs("valid")
	o := &OptIAPrefix{PreferredLifetime: pd, ValidLifetime: vd}
	verifC02Check(o, refIAPrefix, refEncIAPrefix(ps, vs, 0, make([]byte, 16), nil), 0, 4)
}

// VerifC02OptIAPD: IA_PD with k prefixes (nested status of l bytes each, every prefix length
// lo..hi) and an IA-level status.
func VerifC02OptIAPD(k, l, st, lo, hi int) {
	iaid := verifBytes("iaid", 4)
	t1, s1 := verifSecs("t1")
	t2, s2 := verifSecs("t2")
	var opts Options
	var inner []byte
	words := []int{4, 8}
	for i := 0; i < k; i++ {
		p, payload := verifIAPrefix(l, lo, hi)
		opts = append(opts, p)
		base := 12 + len(inner) + 4
		words = append(words, base, base+4)
		inner = append(inner, refEncTLV(refIAPrefix, payload)...)
	}
	sub, subEnc := verifStatusSub(st)
	opts = append(opts, sub...)
	inner = append(inner, subEnc...)
	o := &OptIAPD{T1: t1, T2: t2}
	copy(o.IaId[:], iaid)
	o.Options.Options = opts
	verifC02Check(o, refIAPD, refEncIA(iaid, s1, s2, inner), words...)
}

// ---------------------------------------------------------------------------------------------
// Lists.

// VerifC02OptRequestedOption: k pairwise distinct codes (an ORO is a set: the decoder drops
// repetitions, which C06 lists as a normalisation).
func VerifC02OptRequestedOption(k int) {
	codes := make([]uint16, k)
	var oc []OptionCode
	for i := range codes {
		codes[i] = verifU16("code")
		for j := 0; j < i; j++ {
			verifAssume(codes[i] != codes[j])
		}
		oc = append(oc, OptionCode(codes[i]))
	}
	verifC02Check(OptRequestedOption(oc...), refORO, refEncU16s(codes))
}

func VerifC02OptClientArchType(k int) {
	vals := make([]uint16, k)
	var as []iana.Arch
	for i := range vals {
		vals[i] = verifU16("arch")
		as = append(as, iana.Arch(vals[i]))
	}
	verifC02Check(OptClientArchType(as...), refArchType, refEncU16s(vals))
}

func verifItems(name string, k, l int) [][]byte {
	var items [][]byte
	for i := 0; i < k; i++ {
		items = append(items, verifBytes(name, l))
	}
	return items
}

// VerifC02OptUserClass: k classes of l bytes.
func VerifC02OptUserClass(k, l int) {
	items := verifItems("class", k, l)
	verifC02Check(&OptUserClass{UserClasses: items}, refUserClass, refEncLenList(items))
}

func VerifC02OptVendorClass(k, l int) {
	en := verifU32("enterprise")
	items := verifItems("class", k, l)
	verifC02Check(&OptVendorClass{EnterpriseNumber: en, Data: items}, refVendorClass,
		refEncEnterprise(en, refEncLenList(items)))
}

func VerifC02OptBootFileParam(k, l int) {
	items := verifItems("param", k, l)
	var ps []string
	for _, it := range items {
		ps = append(ps, string(it))
	}
	verifC02Check(OptBootFileParam(ps...), refBootParam, refEncLenList(items))
}

func VerifC02OptBootFileURL(l int) {
	u := verifBytes("url", l)
	verifC02Check(OptBootFileURL(string(u)), refBootURL, u)
}

func VerifC02OptInterfaceID(l int) {
	id := verifBytes("id", l)
	verifC02Check(OptInterfaceID(id), refInterfaceID, id)
}

func VerifC02OptRemoteID(l int) {
	en := verifU32("enterprise")
	id := verifBytes("id", l)
	verifC02Check(&OptRemoteID{EnterpriseNumber: en, RemoteID: id}, refRemoteID, refEncEnterprise(en, id))
}

func VerifC02OptClientLinkLayerAddress(l int) {
	t := verifU16("lltype")
	a := verifBytes("lladdr", l)
	verifC02Check(OptClientLinkLayerAddress(iana.HWType(t), net.HardwareAddr(a)), refClientLL,
		append(refPut16(nil, t), a...))
}

func VerifC02OptDHCP4oDHCP6Server(k int) {
	var ips []net.IP
	var want []byte
	for i := 0; i < k; i++ {
		a := verifBytes("addr", 16)
		ips = append(ips, net.IP(a))
		want = append(want, a...)
	}
	verifC02Check(&OptDHCP4oDHCP6Server{DHCP4oDHCP6Servers: ips}, ref4o6Server, want)
}

// VerifC02OptVendorOpts: k sub-options with symbolic codes and l payload bytes each.
func VerifC02OptVendorOpts(k, l int) {
	en := verifU32("enterprise")
	var subs Options
	var inner []byte
	for i := 0; i < k; i++ {
		c := verifU16("subcode")
		d := verifBytes("subdata", l)
		subs = append(subs, &OptionGeneric{OptionCode: OptionCode(c), OptionData: d})
		inner = append(inner, refEncTLV(c, d)...)
	}
	verifC02Check(&OptVendorOpts{EnterpriseNumber: en, VendorOpts: subs}, refVendorOpts, refEncEnterprise(en, inner))
}

// VerifC02OptGeneric: unknown code, l payload bytes.
func VerifC02OptGeneric(l int) {
	c := verifU16("code")
	verifAssume(!refIsKnown(c))
	d := verifBytes("data", l)
	verifC02Check(&OptionGeneric{OptionCode: OptionCode(c), OptionData: d}, c, d)
}

// ---------------------------------------------------------------------------------------------
// Domain names.

// verifNameShape: decimal digits of s are label lengths (lowest digit first), 0 is the root
// name, s < 0 means "no name".  Label bytes are symbolic and not '.'.
func verifNameOfShape(s int) (labels [][]byte, joined string) {
	var j []byte
	first := true
	for d := s; d > 0; d /= 10 {
		lab := verifBytes("label", d%10)
		for _, c := range lab {
			verifAssume(c != '.')
		}
		if !first {
			j = append(j, '.')
		}
		first = false
		j = append(j, lab...)
		labels = append(labels, lab)
	}
	return labels, string(j)
}

func verifNamesOfShapes(shapes ...int) (all [][][]byte, joined []string) {
	for _, s := range shapes {
		if s < 0 {
			continue
		}
		l, j := verifNameOfShape(s)
		all = append(all, l)
		joined = append(joined, j)
	}
	return
}

func VerifC02OptDomainSearchList(s1, s2, s3 int) {
	all, joined := verifNamesOfShapes(s1, s2, s3)
	l := rfc1035label.NewLabels()
	l.Labels = append(l.Labels, joined...)
	verifC02Check(OptDomainSearchList(l), refDomainList, refEncNames(all))
}

// VerifC02OptFQDN: flags symbolic, one name of shape s (s < 0: empty domain-name field).
func VerifC02OptFQDN(s int) {
	flags := verifU8("flags")
	all, joined := verifNamesOfShapes(s)
	l := rfc1035label.NewLabels()
	l.Labels = append(l.Labels, joined...)
	verifC02Check(&OptFQDN{Flags: flags, DomainName: l}, refFQDN, append([]byte{flags}, refEncNames(all)...))
}

// verifNTPSub: kind 0 server address, 1 multicast address, 2 server FQDN of shape s, 3 unknown
// sub-option code with 2 bytes.
func verifNTPSub(kind, s int) (Option, []byte) {
	switch kind {
	case 0:
		a := verifBytes("ntpaddr", 16)
		v := NTPSuboptionSrvAddr(a)
		return &v, refEncTLV(1, a)
	case 1:
		a := verifBytes("ntpmc", 16)
		v := NTPSuboptionMCAddr(a)
		return &v, refEncTLV(2, a)
	case 2:
		all, joined := verifNamesOfShapes(s)
		f := &NTPSuboptionSrvFQDN{}
		f.Labels.Labels = joined
		return f, refEncTLV(3, refEncNames(all))
	default:
		c := verifU16("ntpcode")
		verifAssume(verifOr(c == 0, c > 3))
		d := verifBytes("ntpdata", 2)
		return &OptionGeneric{OptionCode: OptionCode(c), OptionData: d}, refEncTLV(c, d)
	}
}

// VerifC02OptNTPServer: up to three sub-options of kinds k1..k3 (< 0: absent); FQDN shape s.
func VerifC02OptNTPServer(k1, k2, k3, s int) {
	var subs Options
	var inner []byte
	for _, k := range []int{k1, k2, k3} {
		if k < 0 {
			continue
		}
		o, enc := verifNTPSub(k, s)
		subs = append(subs, o)
		inner = append(inner, enc...)
	}
	verifC02Check(&OptNTPServer{Suboptions: subs}, refNTP, inner)
}

// ---------------------------------------------------------------------------------------------
// 4rd (RFC 7600).

// VerifC02Opt4RDMapRule: mode 0 sweeps prefix4-len with prefix6-len 64, mode 1 sweeps
// prefix6-len with prefix4-len 24 (all other fields symbolic), mode 2 both enumerated.
func VerifC02Opt4RDMapRule(mode int) {
	ea := verifU8("ealen")
	w := verifBool("wkp")
	p4 := verifBytes("prefix4", 4)
	p6 := verifBytes("prefix6", 16)
	l4, l6 := 24, 64
	switch mode {
	case 0:
		l4 = verifChoice("p4len", 33)
	case 1:
		l6 = verifChoice("p6len", 129)
	default:
		l4 = verifChoice("p4len", 33)
		l6 = verifChoice("p6len", 129)
	}
	o := &Opt4RDMapRule{
		Prefix4:       net.IPNet{IP: net.IP(p4), Mask: net.CIDRMask(l4, 32)},
		Prefix6:       net.IPNet{IP: net.IP(p6), Mask: net.CIDRMask(l6, 128)},
		EABitsLength:  ea,
		WKPAuthorized: w,
	}
	verifC02Check(o, ref4RDMap, refEnc4RDMap(uint8(l4), uint8(l6), ea, w, p4, p6))
}

func verif4RDNonMapRule(tc int) (*Opt4RDNonMapRule, []byte) {
	h := verifBool("hub")
	pmtu := verifU16("pmtu")
	o := &Opt4RDNonMapRule{HubAndSpoke: h, DomainPMTU: pmtu}
	var tcv uint8
	if tc != 0 {
		tcv = verifU8("tclass")
		v := tcv
		o.TrafficClass = &v
	}
	return o, refEnc4RDNonMap(h, tc != 0, tcv, pmtu)
}

// VerifC02Opt4RDNonMapRule: tc 0 = no traffic class, 1 = traffic class present.
func VerifC02Opt4RDNonMapRule(tc int) {
	o, want := verif4RDNonMapRule(tc)
	verifC02Check(o, ref4RDNonMap, want)
}

// VerifC02Opt4RD: container with `maps` map rules (prefix lengths 24/64, other fields
// symbolic) and, if nonmap != 0, a non-map rule.
func VerifC02Opt4RD(maps, nonmap int) {
	var subs Options
	var inner []byte
	for i := 0; i < maps; i++ {
		ea := verifU8("ealen")
		w := verifBool("wkp")
		p4 := verifBytes("prefix4", 4)
		p6 := verifBytes("prefix6", 16)
		subs = append(subs, &Opt4RDMapRule{
			Prefix4:       net.IPNet{IP: net.IP(p4), Mask: net.CIDRMask(24, 32)},
			Prefix6:       net.IPNet{IP: net.IP(p6), Mask: net.CIDRMask(64, 128)},
			EABitsLength:  ea,
			WKPAuthorized: w,
		})
		inner = append(inner, refEncTLV(ref4RDMap, refEnc4RDMap(24, 64, ea, w, p4, p6))...)
	}
	if nonmap != 0 {
		o, enc := verif4RDNonMapRule(nonmap - 1)
		subs = append(subs, o)
		inner = append(inner, refEncTLV(ref4RDNonMap, enc)...)
	}
	o := &Opt4RD{}
	o.Options = subs
	verifC02Check(o, ref4RD, inner)
}

// ---------------------------------------------------------------------------------------------
// L2 framing, L3 headers, L4 nesting.

// VerifC02Framing: k options (0..4) with symbolic unknown codes and l payload bytes each:
// Options.ToBytes is the RFC 8415 §21.1 layout and FromBytes preserves order, codes, payloads.
func VerifC02Framing(k, l int) {
	var opts Options
	var want []byte
	codes := make([]uint16, k)
	vals := make([][]byte, k)
	for i := 0; i < k; i++ {
		codes[i] = verifU16("code")
		verifAssume(!refIsKnown(codes[i]))
		vals[i] = verifBytes("val", l)
		opts = append(opts, &OptionGeneric{OptionCode: OptionCode(codes[i]), OptionData: vals[i]})
		want = append(want, refEncTLV(codes[i], vals[i])...)
	}
	b := opts.ToBytes()
	verifAssert(verifSame(b, want), "encoding-is-rfc-layout")
	verifObserve("encoded", b)
	var back Options
	err := back.FromBytes(b)
	verifAssert(err == nil, "decode-ok")
	if err != nil {
		return
	}
	verifAssert(len(back) == k, "same-number-of-options")
	if len(back) == k {
		for i := 0; i < k; i++ {
			verifAssert(uint16(back[i].Code()) == codes[i], "code-in-order")
			g, ok := back[i].(*OptionGeneric)
			verifAssert(ok, "unknown-code-kept-generic")
			if ok {
				verifAssert(verifSame(g.OptionData, vals[i]), "payload")
			}
		}
	}
	verifEqOpts(opts, back)
	verifReach("end")
}

// verifPlainMessage: a message with a symbolic type outside {12,13}, symbolic transaction id
// and one unknown option of 2 bytes.
func verifPlainMessage() (*Message, []byte) {
	t := verifU8("msgtype")
	verifAssume(verifAnd(t != 12, t != 13))
	xid := verifBytes("xid", 3)
	c := verifU16("code")
	verifAssume(!refIsKnown(c))
	d := verifBytes("val", 2)
	m := &Message{MessageType: MessageType(t)}
	copy(m.TransactionID[:], xid)
	m.Options.Options = Options{&OptionGeneric{OptionCode: OptionCode(c), OptionData: d}}
	return m, append(refEncMsgHeader(t, xid), refEncTLV(c, d)...)
}

// verifRelay wraps inner (already encoded as innerEnc) into a relay message with a symbolic
// type in {12,13}, hop count and addresses, an interface-id option before the relay-message
// option when withIfID.
func verifRelay(inner DHCPv6, innerEnc []byte, withIfID bool) (*RelayMessage, []byte) {
	t := verifU8("relaytype")
	verifAssume(verifOr(t == 12, t == 13))
	hops := verifU8("hops")
	link := verifBytes("link", 16)
	peer := verifBytes("peer", 16)
	r := &RelayMessage{MessageType: MessageType(t), HopCount: hops, LinkAddr: net.IP(link), PeerAddr: net.IP(peer)}
	enc := refEncRelayHeader(t, hops, link, peer)
	if withIfID {
		id := verifBytes("ifid", 2)
		r.Options.Options = append(r.Options.Options, OptInterfaceID(id))
		enc = append(enc, refEncTLV(refInterfaceID, id)...)
	}
	if inner != nil {
		r.Options.Options = append(r.Options.Options, OptRelayMessage(inner))
		enc = append(enc, refEncTLV(refRelayMsg, innerEnc)...)
	}
	return r, enc
}

func verifC02CheckMsg(m DHCPv6, want []byte) {
	b := m.ToBytes()
	verifAssert(verifSame(b, want), "encoding-is-rfc-layout")
	verifObserve("encoded", b)
	verifAssert(refMsgStatus(b) == refAccept, "encoding-wellformed-for-reference")
	back, err := FromBytes(b)
	verifAssert(err == nil, "decode-ok")
	if err != nil {
		return
	}
	verifEqMsg(m, back)
	// C20 on whole messages with typed, nested options: readers change nothing, repeated calls agree,
	// results handed out earlier stay as they were (relay chains up to depth 3: the deeper ones
	// multiply paths without adding a reader)
	depth := 0
	for cur := back; cur != nil && cur.IsRelay() && depth < 9; depth++ {
		cur, _ = DecapsulateRelay(cur)
	}
	if depth <= 3 {
		verifC20MsgReaders(back)
	}
	verifReach("end")
}

// VerifC02Headers: kind 0 = message header (no options), 1 = message with one option,
// 2 = relay header without options, 3 = relay with an interface-id option.
func VerifC02Headers(kind int) {
	switch kind {
	case 0:
		t := verifU8("msgtype")
		verifAssume(verifAnd(t != 12, t != 13))
		xid := verifBytes("xid", 3)
		m := &Message{MessageType: MessageType(t)}
		copy(m.TransactionID[:], xid)
		verifC02CheckMsg(m, refEncMsgHeader(t, xid))
	case 1:
		m, enc := verifPlainMessage()
		verifC02CheckMsg(m, enc)
	case 2:
		r, enc := verifRelay(nil, nil, false)
		verifC02CheckMsg(r, enc)
	default:
		r, enc := verifRelay(nil, nil, true)
		verifC02CheckMsg(r, enc)
	}
}

// VerifC02RelayChain: a message wrapped in `depth` relay messages (0..3), each level built
// through OptRelayMessage; ifid != 0 adds an interface-id option at every level.
func VerifC02RelayChain(depth, ifid int) {
	var cur DHCPv6
	m, enc := verifPlainMessage()
	cur = m
	for i := 0; i < depth; i++ {
		r, e := verifRelay(cur, enc, ifid != 0)
		cur, enc = r, e
	}
	verifC02CheckMsg(cur, enc)
}

// VerifC02OptRelayMsg: the relay-message option on its own (ParseOption path), carrying a chain
// of the given depth.
func VerifC02OptRelayMsg(depth int) {
	var cur DHCPv6
	m, enc := verifPlainMessage()
	cur = m
	for i := 0; i < depth; i++ {
		r, e := verifRelay(cur, enc, false)
		cur, enc = r, e
	}
	verifC02Check(OptRelayMessage(cur), refRelayMsg, enc)
}

// VerifC02OptDHCPv4Msg: a small DHCPv4 packet: symbolic header scalars and addresses, hardware
// address of hl bytes, names of sl / fl non-NUL bytes, and (if ol >= 0) one option with a
// symbolic code 1..254 and ol value bytes.  The expected bytes are RFC 2131's fixed layout,
// the options and End, padded with zeros to the 300-byte BOOTP minimum.
func VerifC02OptDHCPv4Msg(hl, sl, fl, ol int) {
	hdr := verifBytes("v4hdr", 28)
	hw := verifBytes("v4chaddr", hl)
	sn := verifBytes("v4sname", sl)
	for i := range sn {
		verifAssume(sn[i] != 0)
	}
	fn := verifBytes("v4file", fl)
	for i := range fn {
		verifAssume(fn[i] != 0)
	}
	p := &dhcpv4.DHCPv4{
		OpCode:         dhcpv4.OpcodeType(hdr[0]),
		HWType:         iana.HWType(hdr[1]),
		HopCount:       hdr[3],
		NumSeconds:     refBE16(hdr[8:]),
		Flags:          refBE16(hdr[10:]),
		ClientIPAddr:   net.IP(hdr[12:16]),
		YourIPAddr:     net.IP(hdr[16:20]),
		ServerIPAddr:   net.IP(hdr[20:24]),
		GatewayIPAddr:  net.IP(hdr[24:28]),
		ClientHWAddr:   net.HardwareAddr(hw),
		ServerHostName: string(sn),
		BootFileName:   string(fn),
		Options:        dhcpv4.Options{},
	}
	copy(p.TransactionID[:], hdr[4:8])
	want := make([]byte, 240)
	copy(want, hdr)
	want[2] = byte(hl)
	copy(want[28:], hw)
	copy(want[44:], sn)
	copy(want[108:], fn)
	want[236], want[237], want[238], want[239] = 99, 130, 83, 99
	if ol >= 0 {
		c := verifU8("v4code")
		verifAssume(verifAnd(c >= 1, c <= 254))
		v := verifBytes("v4val", ol)
		p.Options[c] = v
		want = append(want, c, byte(ol))
		want = append(want, v...)
	}
	want = append(want, 255)
	for len(want) < 300 {
		want = append(want, 0)
	}
	verifC02Check(&OptDHCPv4Msg{Msg: p}, refV4Msg, want)
}

// VerifC02Nested: one message holding the nesting cases end to end:
//
//	IA_NA > IAADDR > STATUS_CODE, IA_PD > IAPREFIX (/56), VENDOR_OPTS > 2 sub-options,
//	NTP > {server address, multicast address, FQDN}, wrapped in `depth` relay messages.
func VerifC02Nested(depth int) {
	t := verifU8("msgtype")
	verifAssume(verifAnd(t != 12, t != 13))
	xid := verifBytes("xid", 3)
	m := &Message{MessageType: MessageType(t)}
	copy(m.TransactionID[:], xid)
	enc := refEncMsgHeader(t, xid)

	// IA_NA > IAADDR > STATUS_CODE
	iaid := verifBytes("iaid", 4)
	addr, addrEnc := verifIAAddr(2)
	na := &OptIANA{T1: 5 * time.Second, T2: 8 * time.Second}
	copy(na.IaId[:], iaid)
	na.Options.Options = Options{addr}
	m.Options.Options = append(m.Options.Options, na)
	enc = append(enc, refEncTLV(refIANA, refEncIA(iaid, 5, 8, refEncTLV(refIAAddr, addrEnc)))...)

	// IA_PD > IAPREFIX
	pfxAddr := verifBytes("prefix", 16)
	pfx := &OptIAPrefix{PreferredLifetime: 100 * time.Second, ValidLifetime: 200 * time.Second,
		Prefix: &net.IPNet{IP: net.IP(pfxAddr), Mask: net.CIDRMask(56, 128)}}
	pd := &OptIAPD{T1: 50 * time.Second, T2: 80 * time.Second}
	copy(pd.IaId[:], iaid)
	pd.Options.Options = Options{pfx}
	m.Options.Options = append(m.Options.Options, pd)
	enc = append(enc, refEncTLV(refIAPD, refEncIA(iaid, 50, 80,
		refEncTLV(refIAPrefix, refEncIAPrefix(100, 200, 56, pfxAddr, nil))))...)

	// VENDOR_OPTS
	en := verifU32("enterprise")
	c1, c2 := verifU16("subcode"), verifU16("subcode")
	d1, d2 := verifBytes("subdata", 1), verifBytes("subdata", 3)
	vo := &OptVendorOpts{EnterpriseNumber: en, VendorOpts: Options{
		&OptionGeneric{OptionCode: OptionCode(c1), OptionData: d1},
		&OptionGeneric{OptionCode: OptionCode(c2), OptionData: d2}}}
	m.Options.Options = append(m.Options.Options, vo)
	enc = append(enc, refEncTLV(refVendorOpts, refEncEnterprise(en, append(refEncTLV(c1, d1), refEncTLV(c2, d2)...)))...)

	// NTP
	s1, e1 := verifNTPSub(0, 0)
	s2, e2 := verifNTPSub(1, 0)
	s3, e3 := verifNTPSub(2, 23)
	m.Options.Options = append(m.Options.Options, &OptNTPServer{Suboptions: Options{s1, s2, s3}})
	enc = append(enc, refEncTLV(refNTP, refCat(e1, e2, e3))...)

	var cur DHCPv6 = m
	for i := 0; i < depth; i++ {
		r, e := verifRelay(cur, enc, true)
		cur, enc = r, e
	}
	// the lifetimes inside IAADDR are symbolic: compare the bytes with the word-wise layout check
	b := cur.ToBytes()
	off := depth*(34+6+4) + 4 + 4 + 12 + 4 // relay headers + interface-id + relay-msg TLV headers; msg header; IA_NA TLV+header; IAADDR TLV
	verifSameLayout(b, enc, []int{off + 16, off + 20})
	verifAssert(refMsgStatus(b) == refAccept, "encoding-wellformed-for-reference")
	back, err := FromBytes(b)
	verifAssert(err == nil, "decode-ok")
	if err != nil {
		return
	}
	verifEqMsg(cur, back)
	verifC20MsgReaders(back)
	verifReach("end")
}
