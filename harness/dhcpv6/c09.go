//go:build verif

package dhcpv6

// C09 (DHCPv6): decoding cost is bounded.  Sizes are in the executor's allocation model.
//
// Claimed constants (n = length of the datagram, d = nesting depth of options):
//   messages without domain-name options:
//     retained(decoded message)           <= 48*n + 512
//     allocated by decoding + re-encoding <= 160*n + 3*n*d + 2048
//   messages with domain-name options (a 2-byte compression pointer may re-emit a 255-octet name):
//     retained <= 176*n + 512,  allocated <= 9200*n + 3*n*d + 2048
const (
	verifC09AllocPerLevel = 3
	verifC09AllocConst    = 2048
	verifC09RetainedConst = 512
)

func verifC09Check(b []byte, depth int, names bool) {
	allocPerByte, retainedPerByte := 160, 48
	if names {
		allocPerByte, retainedPerByte = 9200, 176
	}
	n := len(b)
	a0 := verifAllocBytes()
	d, err := FromBytes(b)
	bound := allocPerByte*n + verifC09AllocPerLevel*n*depth + verifC09AllocConst
	if err != nil {
		// rejecting: the fixed multiple plus ONE copy of the input per nesting level (the property's
		// own formula; the executor's allocation model needs less than that on the pinned tree)
		verifAssert(verifAllocBytes()-a0 <= allocPerByte*n+n*depth+verifC09AllocConst, "allocation-bounded-also-when-rejecting")
		verifReach("rejected")
		verifReach("end")
		return
	}
	verifAssert(verifRetained(d) <= retainedPerByte*n+verifC09RetainedConst, "decoded-value-is-a-fixed-multiple-of-the-input")
	_ = d.ToBytes()
	verifAssert(verifAllocBytes()-a0 <= bound, "decode-and-reencode-allocation-is-linear-plus-one-copy-per-nesting-level")
	verifReach("accepted")
	verifReach("end")
}

// VerifC09Exhaustive: every message of n symbolic bytes.
func VerifC09Exhaustive(n int) {
	verifC09Check(verifBytes("msg", n), 2, true)
}

// VerifC09Minimal: k minimal options (unknown code, empty payload).
func VerifC09Minimal(k int) {
	b := []byte{1, 0, 0, 1}
	for i := 0; i < k; i++ {
		b = append(b, 0xf0, byte(i), 0, 0)
	}
	verifC09Check(b, 0, false)
}

// VerifC09Relay: relay-forward nesting of the given depth around a message with an l-byte option.
func VerifC09Relay(depth, l int) {
	inner := []byte{1, 0, 0, 1, 0xf0, 0, byte(l >> 8), byte(l)}
	inner = append(inner, verifBytes("payload", l)...)
	for i := 0; i < depth; i++ {
		hdr := append([]byte{12, byte(i)}, verifBytes("addrs", 32)...)
		hdr = append(hdr, 0, 9, byte(len(inner)>>8), byte(len(inner)))
		inner = append(hdr, inner...)
	}
	verifC09Check(inner, depth, false)
}

// VerifC09IANest: identity associations nested in each other to the given depth (the option
// parsers accept any option inside an IA's option area), innermost an l-byte unknown option.
func VerifC09IANest(depth, l int) {
	inner := []byte{0xf0, 0, byte(l >> 8), byte(l)}
	inner = append(inner, verifBytes("payload", l)...)
	for i := 0; i < depth; i++ {
		body := append(verifBytes("iaid", 4), 0, 0, 0, 1, 0, 0, 0, 2)
		body = append(body, inner...)
		inner = append([]byte{0, 3, byte(len(body) >> 8), byte(len(body))}, body...)
	}
	verifC09Check(append([]byte{1, 0, 0, 1}, inner...), depth, false)
}

// VerifC09Names: a domain search list option holding a name of nl labels of ll bytes and k
// compression pointers to it.
func VerifC09Names(nl, ll, k int) {
	var v []byte
	for i := 0; i < nl; i++ {
		v = append(v, byte(ll))
		v = append(v, verifBytes("lab", ll)...)
	}
	v = append(v, 0)
	for i := 0; i < k; i++ {
		v = append(v, 0xc0, 0)
	}
	b := []byte{1, 0, 0, 1, 0, 24, byte(len(v) >> 8), byte(len(v))}
	verifC09Check(append(b, v...), 1, true)
}

// VerifC09Update: a decoded message that repeats one option (option request, one code each) k
// times is given one more requested code through the stock modifier (read, merge, update) `steps`
// times and encoded again: the result stays within a fixed multiple of the input (an update that
// multiplied the merged list into every slot would be quadratic, then cubic, ...).
func VerifC09Update(k, steps int) {
	m := &Message{MessageType: MessageTypeSolicit}
	copy(m.TransactionID[:], verifBytes("xid", 3))
	for i := 0; i < k; i++ {
		c := uint16(100 + i) // large k: concrete shape (distinct codes)
		if k <= 4 {
			c = verifU16("oro")
		}
		m.Options.Add(&optRequestedOption{OptionCodes{OptionCode(c)}})
	}
	in := m.ToBytes()
	d, err := MessageFromBytes(in)
	verifAssert(err == nil, "decode-ok")
	if err != nil {
		return
	}
	for s := 0; s < steps; s++ {
		WithRequestedOptions(OptionCode(200 + s))(d)
	}
	out := d.ToBytes()
	verifAssert(len(out) <= 2*len(in)+16*steps+16, "reencoded-size-is-a-fixed-multiple-of-the-input")
	verifAssert(len(d.Options.Options) <= k+1, "no-more-options-than-before-plus-one")
	verifReach("end")
}

// VerifC09IAPairs: `pairs` identity associations each holding one address whose option area holds
// the next identity association (IA_NA > IAADDR > IA_NA > ...), innermost an l-byte unknown option.
// Every address is 16 bytes of the datagram; a value that kept more than its own bytes alive per
// level (say the enclosing option's payload) would grow with the square of the depth.
func VerifC09IAPairs(pairs, l int) {
	inner := []byte{0xf0, 0, byte(l >> 8), byte(l)}
	inner = append(inner, verifBytes("payload", l)...)
	for i := 0; i < pairs; i++ {
		addr := append([]byte{0x20, 0x01, 0, 0, 0, 0, 0, 0, 0, 0, 0, 0, 0, 0, byte(i >> 8), byte(i)}, 0, 0, 0, 1, 0, 0, 0, 2)
		addr = append(addr, inner...)
		body := append([]byte{0, 0, byte(i >> 8), byte(i)}, 0, 0, 0, 1, 0, 0, 0, 2)
		body = append(body, 0, 5, byte(len(addr)>>8), byte(len(addr)))
		body = append(body, addr...)
		inner = append([]byte{0, 3, byte(len(body) >> 8), byte(len(body))}, body...)
	}
	verifC09Check(append([]byte{7, 0, 0, 1}, inner...), 2*pairs, false)
}

// VerifC09Option: a message holding ONE option of the given code whose payload is l symbolic bytes
// (so every length field inside the payload is symbolic: a 16-bit length that promises more than
// the datagram holds must not be believed before it is checked).
func VerifC09Option(code, l int) {
	b := []byte{1, 0, 0, 1, byte(code >> 8), byte(code), byte(l >> 8), byte(l)}
	b = append(b, verifBytes("payload", l)...)
	_, isName := map[int]bool{24: true, 21: true, 39: true, 58: true, 64: true, 65: true, 74: true}[code]
	verifC09Check(b, 2, isName)
}

// VerifC09RejectDeep: `depth` temporary-address associations (IA_TA, 8 bytes per level) nested in
// each other, all lengths consistent, and an innermost IA_TA whose payload is l < 4 bytes: the
// decoder rejects the datagram at the bottom of the nesting and the error travels up through every
// level. Rejecting stays within the bound (an error that grew with every level it passes through —
// its text wrapped again at each — would be quadratic in the depth with a larger constant than one
// copy of the input per level). Formatted strings are charged to the allocation model with the
// length of their format text plus the strings their operands render to.
func VerifC09RejectDeep(depth, l int) {
	inner := append([]byte{0, 4, 0, byte(l)}, verifBytes("short", l)...)
	for i := 0; i < depth; i++ {
		body := append(verifBytes("iaid", 4), inner...)
		inner = append([]byte{0, 4, byte(len(body) >> 8), byte(len(body))}, body...)
	}
	verifC09Check(append([]byte{1, 0, 0, 1}, inner...), depth, false)
}

// VerifC09RelayReply: a relay-forward chain `depth` levels deep is decoded and answered the way a
// server does (NewRelayReplFromRelayForw around a REPLY, then ToBytes): the work a datagram causes
// this way stays within the same bound as decoding and re-encoding it (a builder that serialised
// the chain built so far at every level would be cubic in the depth).
func VerifC09RelayReply(depth int) {
	inner := append([]byte{1}, verifBytes("xid", 3)...)
	b := verifRelayChain(depth, inner)
	n := len(b)
	a0 := verifAllocBytes()
	d, err := FromBytes(b)
	verifAssert(err == nil, "decode-ok")
	if err != nil {
		return
	}
	rf, isRelay := d.(*RelayMessage)
	if isRelay {
		reply := &Message{MessageType: MessageTypeReply}
		rr, rerr := NewRelayReplFromRelayForw(rf, reply)
		verifAssert(rerr == nil, "relay-reply-built")
		if rerr == nil {
			out := rr.ToBytes()
			verifAssert(len(out) <= 2*n+64, "reencoded-size-is-a-fixed-multiple-of-the-input")
		}
	}
	verifAssert(verifAllocBytes()-a0 <= 160*n+verifC09AllocPerLevel*n*depth+verifC09AllocConst, "decode-and-reencode-allocation-is-linear-plus-one-copy-per-nesting-level")
	verifReach("end")
}
