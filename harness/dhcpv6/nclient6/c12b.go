//go:build verif

package nclient6

import (
	"context"

	"github.com/insomniacslk/dhcp/dhcpv6"
)

// C12, second part: the schedule belongs to the call, not to the client (a later call on the same
// client starts again at T whatever happened to earlier calls), and a context that ends — by
// cancellation, by its deadline, or with an error of its own — stops the schedule at that instant:
// no transmission is made at or after it that the schedule did not already contain.

// verifCheckScheduleFrom compares log[base:base+n] with offsets 0, T, 3T, ... from k.start.
func verifCheckScheduleFrom(k *verifCall, want []byte, base, n int) {
	verifAssert(len(k.conn.log)-base == n, "exact-number-of-transmissions")
	off := int64(0)
	w := k.T
	for i := 0; i < n && base+i < len(k.conn.log); i++ {
		e := k.conn.log[base+i]
		verifAssert(e.at-k.start == off, "transmission-at-scheduled-offset")
		verifAssert(verifSame(e.data, want), "transmitted-bytes-equal-request-encoding")
		verifAssert(e.dest == k.dest, "transmitted-to-requested-destination")
		off += w
		w += w
	}
}

func verifCtxErrKind(kind int) error {
	switch kind {
	case 2:
		return context.Canceled
	case 3:
		return context.DeadlineExceeded
	}
	return errVerifCanceled
}

// VerifC12Reuse: `calls` consecutive calls on ONE client. Every call but the last ends in the way
// selected by prevMode (0: silence until ErrNoResponse, 1: context ended at a symbolic instant,
// 2: acceptable response at a symbolic instant); the last call meets silence and must follow the
// schedule 0, T, 3T, ... from its own start and fail at T*(2^n-1).
func VerifC12Reuse(tries, calls, prevMode int) {
	k := &verifCall{conn: newVerifConn(), ctxAt: -1, closeAt: -1}
	verifNewClient(k, tries)
	c := k.c
	want := k.req.ToBytes()
	for j := 0; j < calls; j++ {
		base := len(k.conn.log)
		last := j == calls-1
		ctx := newVerifCtx()
		k.start = verifNow()
		var at int64
		if !last && prevMode == 1 {
			at = int64(verifU64("ctx.at"))
			verifAssume(at >= 0)
			verifAssume(at < k.budget)
			ctx.endAt(k.start+at, verifCtxErrKind(1+j%3))
		}
		if !last && prevMode == 3 {
			// a context WITH a deadline (reported by Deadline()) that ends by it
			at = int64(verifU64("ctx.deadline"))
			verifAssume(at > 0)
			verifAssume(at < k.budget)
			verifAssume(k.start+at <= 1<<40)
			ctx.deadline = k.start + at
			ctx.endAt(k.start+at, context.DeadlineExceeded)
		}
		if !last && prevMode == 2 {
			at = int64(verifU64("offer.at"))
			verifAssume(at >= 0)
			verifAssume(at < k.budget)
			offer := &dhcpv6.Message{MessageType: dhcpv6.MessageTypeAdvertise, TransactionID: verifXID}
			k.conn.deliver(k.start+at, offer.ToBytes())
		}
		k.resp, k.err = c.SendAndRead(ctx, k.dest, k.req, IsMessageType(dhcpv6.MessageTypeAdvertise))
		k.end = verifNow()
		if last || prevMode == 0 {
			verifAssert(k.resp == nil, "no-response")
			verifAssert(k.err == ErrNoResponse, "no-response-error")
			verifAssert(k.end-k.start == k.budget, "fails-at-T-times-2^n-1")
			verifCheckScheduleFrom(k, want, base, tries)
		} else {
			verifAssert(k.end-k.start == at, "earlier-call-ends-at-its-event")
		}
	}
	// (the total number of transmissions is not observed: an earlier call's event may coincide with a retransmission that is due, and either order is legitimate)
	c.Close()
	verifReach("end")
}

// VerifC12Cancelled: tries > 0: n tries; tries < 0: unlimited tries, explored for the first -tries
// waits. The context ends at a symbolic instant inside the schedule with the error selected by
// kind (1: an error of its own, 2: context.Canceled, 3: context.DeadlineExceeded). The call returns
// at that instant; the transmissions made are exactly the scheduled ones before it, and none follows.
func VerifC12Cancelled(tries, kind int) {
	n := tries
	retry := tries
	if tries < 0 {
		n = -tries
		retry = -1
	}
	k := &verifCall{conn: newVerifConn(), ctxAt: -1, closeAt: -1}
	verifNewClient(k, retry)
	c := k.c
	want := k.req.ToBytes()
	k.budget = 0
	w := k.T
	for i := 0; i < n; i++ {
		k.budget += w
		w += w
	}
	ctx := newVerifCtx()
	k.ctxAt = int64(verifU64("ctx.at"))
	verifAssume(k.ctxAt >= 0)
	verifAssume(k.ctxAt < k.budget)
	k.ctxErr = verifCtxErrKind(kind)
	ctx.endAt(k.ctxAt, k.ctxErr)
	k.start = verifNow()
	k.resp, k.err = c.SendAndRead(ctx, k.dest, k.req, IsMessageType(dhcpv6.MessageTypeAdvertise))
	k.end = verifNow()
	verifAssert(k.resp == nil, "no-response")
	verifAssert(k.err == k.ctxErr, "fails-with-the-context-error")
	verifAssert(k.end == k.ctxAt, "ends-when-the-context-ends")
	m := len(k.conn.log)
	verifAssert(m >= 1 && m <= n, "between-1-and-n-transmissions")
	verifCheckScheduleFrom(k, want, 0, m)
	// m transmissions: the m-th was due not after the context's end, the (m+1)-th not before it
	lastOff, nextOff := int64(0), k.T
	w = k.T
	for i := 1; i < m; i++ {
		lastOff += w
		w += w
		nextOff = lastOff + w
	}
	verifAssert(lastOff <= k.ctxAt, "no-transmission-after-the-context-ended")
	verifAssert(k.ctxAt <= nextOff, "every-transmission-due-before-the-context-ended-was-made")
	done := make(chan struct{})
	verifAt(k.budget+k.budget+2, func() { close(done) })
	<-done
	verifAssert(len(k.conn.log) == m, "no-transmission-after-the-call-ended")
	verifObserveInt("writes", m)
	c.Close()
	verifReach("end")
}

// VerifC12WriteFault (C11 and C12): the failAt-th transmission of the first call fails in the
// socket. The call returns an error at that instant (no response), its transaction id is released,
// and a second call with the same request on the same client follows the whole schedule again.
func VerifC12WriteFault(tries, failAt int) {
	k := &verifCall{conn: newVerifConn(), ctxAt: -1, closeAt: -1}
	k.conn.failAt = failAt
	verifNewClient(k, tries)
	c := k.c
	want := k.req.ToBytes()
	w := k.T
	failOff := int64(0)
	for i := 0; i < tries; i++ {
		if i < failAt {
			failOff += w
		}
		w += w
	}
	k.start = verifNow()
	k.resp, k.err = c.SendAndRead(newVerifCtx(), k.dest, k.req, IsMessageType(dhcpv6.MessageTypeAdvertise))
	k.end = verifNow()
	verifAssert(k.resp == nil, "no-response")
	verifAssert(k.err != nil, "error-when-no-response")
	verifAssert(k.end-k.start <= k.budget, "returns-within-T-times-2^tries-1")
	if failAt < tries {
		verifAssert(k.end-k.start == failOff, "returns-when-the-transmission-fails")
		verifCheckScheduleFrom(k, want, 0, failAt)
	}
	c.pendingMu.Lock()
	_, still := c.pending[verifXID]
	c.pendingMu.Unlock()
	verifAssert(!still, "transaction-id-released")
	base := len(k.conn.log)
	k.start = verifNow()
	k.resp, k.err = c.SendAndRead(newVerifCtx(), k.dest, k.req, IsMessageType(dhcpv6.MessageTypeAdvertise))
	k.end = verifNow()
	verifAssert(k.resp == nil, "no-response")
	verifAssert(k.err == ErrNoResponse, "no-response-error")
	verifAssert(k.end-k.start == k.budget, "fails-at-T-times-2^n-1")
	verifCheckScheduleFrom(k, want, base, tries)
	verifObserveInt("writes", len(k.conn.log))
	cerr := c.Close()
	verifAssert(cerr == nil, "close-returns")
	verifSettle()
	verifAssert(verifGoroutines() == 0, "no-goroutine-left-after-close")
	verifReach("end")
}
