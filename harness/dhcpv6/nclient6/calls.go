//go:build verif

package nclient6

import (
	"context"
	"net"
	"sync/atomic"
	"time"

	"github.com/insomniacslk/dhcp/dhcpv6"
)

var verifXID = dhcpv6.TransactionID{0xa1, 0xb2, 0xc3}

type verifMsg struct {
	at         int64
	xid        dhcpv6.TransactionID
	mt         uint8
	acceptable bool
}

type verifCall struct {
	conn       *verifConn
	c          *Client
	T          int64
	tries      int
	req        *dhcpv6.Message
	dest       *net.UDPAddr
	msgs       []verifMsg
	ctxAt      int64
	closeAt    int64
	start, end int64
	resp       *dhcpv6.Message
	err        error
	ctxErr     error
	budget     int64
}

func verifSameXID(a, b dhcpv6.TransactionID) bool {
	return (a[0]^b[0])|(a[1]^b[1])|(a[2]^b[2]) == 0
}

func verifSame(a, b []byte) bool {
	if len(a) != len(b) {
		return false
	}
	var d byte
	for i := range a {
		d |= a[i] ^ b[i]
	}
	return d == 0
}

func verifDest() *net.UDPAddr {
	return &net.UDPAddr{IP: net.IP{0xff, 2, 0, 0, 0, 0, 0, 0, 0, 0, 0, 0, 0, 1, 0, 2}, Port: 547}
}

func verifRequest() *dhcpv6.Message {
	m := &dhcpv6.Message{MessageType: dhcpv6.MessageTypeSolicit, TransactionID: verifXID}
	m.AddOption(&dhcpv6.OptionGeneric{OptionCode: dhcpv6.OptionCode(250), OptionData: verifBytes("req.data", 3)})
	return m
}

func verifNewClient(k *verifCall, tries int) {
	k.T = int64(verifU32("T"))
	verifAssume(k.T >= 1)
	c, err := NewWithConn(k.conn, verifHW, WithTimeout(time.Duration(k.T)), WithRetry(tries), WithBroadcastAddr(verifOtherDest()))
	verifAssert(err == nil, "client-created")
	k.c = c
	k.tries = tries
	k.req = verifRequest()
	k.dest = verifDest()
	w := k.T
	for i := 0; i < tries; i++ {
		k.budget += w
		w += w
	}
}

// verifRunCall: one SendAndRead with nmsgs datagrams at symbolic non-decreasing instants, optional
// context cancellation / Close at symbolic instants, optional undecodable datagram first.
// The matcher accepts ADVERTISE.
func verifRunCall(tries, nmsgs, ctxMode, closeMode, garbageLen int) *verifCall {
	k := &verifCall{conn: newVerifConn(), ctxAt: -1, closeAt: -1}
	verifNewClient(k, tries)
	if garbageLen >= 100 {
		// a well-formed relay message (garbageLen-99 levels) wrapping an ADVERTISE with a symbolic
		// transaction id (possibly the call's own): not a client message, must be dropped
		var x dhcpv6.TransactionID
		copy(x[:], verifBytes("relayed.xid", 3))
		var d dhcpv6.DHCPv6 = &dhcpv6.Message{MessageType: dhcpv6.MessageTypeAdvertise, TransactionID: x}
		for lvl := 0; lvl <= garbageLen-100; lvl++ {
			r := &dhcpv6.RelayMessage{MessageType: dhcpv6.MessageType(12 + verifU8("relayed.type")&1), HopCount: uint8(lvl),
				LinkAddr: make(net.IP, 16), PeerAddr: make(net.IP, 16)}
			r.AddOption(dhcpv6.OptRelayMessage(d))
			d = r
		}
		k.conn.deliver(0, d.ToBytes())
	} else if garbageLen >= 0 {
		g := verifBytes("garbage", garbageLen)
		if garbageLen > 0 {
			// keep it undecodable: relay message types are rejected by the client's decoder
			verifAssume(g[0] == 12)
		}
		k.conn.deliver(0, g)
	}
	prev := int64(0)
	for i := 0; i < nmsgs; i++ {
		data, xid, mt := verifReply("m")
		at := int64(verifU64("m.at"))
		verifAssume(at >= prev)
		verifAssume(at <= 1<<36)
		prev = at
		m := verifMsg{at: at, xid: xid, mt: mt}
		m.acceptable = verifAnd(verifSameXID(xid, verifXID), mt == 2)
		k.msgs = append(k.msgs, m)
		k.conn.deliver(at, data)
	}
	ctx := newVerifCtx()
	if ctxMode != 0 {
		k.ctxAt = int64(verifU64("ctx.at"))
		verifAssume(k.ctxAt >= 0)
		verifAssume(k.ctxAt <= 1<<36)
		// the context ends by cancellation or by its deadline (the two errors of package context),
		// or with an error of its own
		switch ctxMode {
		case 2:
			k.ctxErr = context.Canceled
		case 3:
			k.ctxErr = context.DeadlineExceeded
		default:
			k.ctxErr = errVerifCanceled
		}
		ctx.endAt(k.ctxAt, k.ctxErr)
	}
	if closeMode == 2 {
		k.conn.closeErr = errVerifCloseFailed
	}
	if closeMode != 0 {
		k.closeAt = int64(verifU64("close.at"))
		verifAssume(k.closeAt >= 0)
		verifAssume(k.closeAt <= 1<<36)
		c := k.c
		verifAt(k.closeAt, func() { c.Close() })
	}
	k.start = verifNow()
	k.resp, k.err = k.c.SendAndRead(ctx, k.dest, k.req, IsMessageType(dhcpv6.MessageTypeAdvertise))
	k.end = verifNow()
	return k
}

func verifCheckResult(resp *dhcpv6.Message, err error, end int64, xid dhcpv6.TransactionID, msgs []verifMsg) {
	if resp == nil {
		verifAssert(err != nil, "error-or-response")
		return
	}
	verifAssert(err == nil, "no-error-with-response")
	verifAssert(verifSameXID(resp.TransactionID, xid), "response-has-own-transaction-id")
	verifAssert(resp.MessageType == dhcpv6.MessageTypeAdvertise, "response-satisfies-matcher")
	arrived := false
	for _, m := range msgs {
		same := verifAnd(verifSameXID(m.xid, resp.TransactionID), verifAnd(m.mt == uint8(resp.MessageType), m.at <= end))
		arrived = verifOr(arrived, same)
	}
	verifAssert(arrived, "response-is-a-datagram-that-arrived-during-the-call")
}

// VerifC10Single (DHCPv6): one caller.
func VerifC10Single(tries, nmsgs, garbage int) {
	k := verifRunCall(tries, nmsgs, 0, 0, garbage-1)
	verifCheckResult(k.resp, k.err, k.end, verifXID, k.msgs)
	for _, m := range k.msgs {
		verifAssert(verifOr(!m.acceptable, k.end <= m.at), "first-acceptable-datagram-in-arrival-order-ends-the-call")
	}
	k.c.Close()
	verifReach("end")
}

// VerifC10Two (DHCPv6): two concurrent callers, distinct or colliding ids.
func VerifC10Two(nmsgs, collide, sched int) {
	verifSchedule(sched != 0)
	verifRaceDetect(true)
	k := &verifCall{conn: newVerifConn()}
	verifNewClient(k, 1)
	c := k.c
	xidB := dhcpv6.TransactionID{0x11, 0x22, 0x33}
	if collide != 0 {
		xidB = verifXID
	}
	mk := func(x dhcpv6.TransactionID) *dhcpv6.Message {
		return &dhcpv6.Message{MessageType: dhcpv6.MessageTypeSolicit, TransactionID: x}
	}
	prev := int64(0)
	for i := 0; i < nmsgs; i++ {
		data, xid, mt := verifReply("m")
		at := int64(verifU64("m.at"))
		verifAssume(at >= prev)
		verifAssume(at <= 1<<36)
		prev = at
		k.msgs = append(k.msgs, verifMsg{at: at, xid: xid, mt: mt})
		k.conn.deliver(at, data)
	}
	type res struct {
		resp *dhcpv6.Message
		err  error
		end  int64
	}
	doneB := make(chan res, 1)
	go func() {
		r, e := c.SendAndRead(newVerifCtx(), k.dest, mk(xidB), IsMessageType(dhcpv6.MessageTypeAdvertise))
		doneB <- res{r, e, verifNow()}
	}()
	ra, ea := c.SendAndRead(newVerifCtx(), k.dest, mk(verifXID), IsMessageType(dhcpv6.MessageTypeAdvertise))
	endA := verifNow()
	rb := <-doneB
	if collide != 0 {
		// nclient6 reports an id in use with a formatted error: neither nil, ErrNoResponse nor a context error
		aRefused := ea != nil && ea != ErrNoResponse && ea != errVerifCanceled
		bRefused := rb.err != nil && rb.err != ErrNoResponse && rb.err != errVerifCanceled
		verifAssert(!(aRefused && bRefused), "not-both-refused")
		if !aRefused {
			verifCheckResult(ra, ea, endA, verifXID, k.msgs)
		}
		if !bRefused {
			verifCheckResult(rb.resp, rb.err, rb.end, xidB, k.msgs)
		}
		if ra != nil && rb.resp != nil {
			verifAssert(ra != rb.resp, "colliding-calls-never-share-a-response")
		}
	} else {
		verifCheckResult(ra, ea, endA, verifXID, k.msgs)
		verifCheckResult(rb.resp, rb.err, rb.end, xidB, k.msgs)
	}
	c.Close()
	verifReach("end")
}

// VerifC11Complete (DHCPv6): timeout, cancellation, Close and cleanup.
func VerifC11Complete(tries, nmsgs, ctxMode, closeMode int) {
	k := verifRunCall(tries, nmsgs, ctxMode, closeMode, -1)
	el := k.end - k.start
	verifObserveInt("elapsed", int(el))
	verifAssert(el <= k.budget, "returns-within-T-times-2^tries-1")
	if k.ctxAt >= 0 {
		verifAssert(k.end <= k.ctxAt, "returns-at-once-when-context-ends")
		if k.err == k.ctxErr {
			verifAssert(k.end == k.ctxAt, "context-error-at-cancellation-instant")
		}
	}
	if k.closeAt >= 0 {
		verifAssert(k.end <= k.closeAt, "returns-at-once-when-client-closed")
	}
	if k.ctxAt >= 0 {
		// the context ended strictly before anything else could end the call: its error is returned
		first := k.ctxAt < k.budget
		if k.closeAt >= 0 {
			first = verifAnd(first, k.ctxAt < k.closeAt)
		}
		for _, m := range k.msgs {
			first = verifAnd(first, verifOr(!m.acceptable, k.ctxAt < m.at))
		}
		verifAssert(verifOr(!first, k.err == k.ctxErr), "context-error-when-the-context-ends-first")
	}
	for _, m := range k.msgs {
		verifAssert(verifOr(!m.acceptable, k.end <= m.at), "returns-as-soon-as-acceptable-response-arrives")
	}
	if k.resp == nil {
		verifAssert(k.err != nil, "error-when-no-response")
		if k.err != k.ctxErr {
			verifAssert(k.err == ErrNoResponse, "no-response-error")
		}
	} else {
		verifAssert(k.err == nil, "no-error-with-response")
	}
	k.c.pendingMu.Lock()
	_, still := k.c.pending[verifXID]
	k.c.pendingMu.Unlock()
	verifAssert(!still, "transaction-id-released")
	if k.closeAt < 0 || k.end < k.closeAt {
		_, cancel, err := k.c.send(k.dest, k.req)
		verifAssert(err == nil, "transaction-id-reusable")
		if err == nil {
			cancel()
		}
	}
	cerr := k.c.Close()
	verifAssert(cerr == nil || k.conn.closeErr != nil, "close-returns")
	verifSettle()
	verifAssert(verifGoroutines() == 0, "no-goroutine-left-after-close")
	verifReach("end")
}

func verifCheckSchedule(k *verifCall, want []byte, n int) {
	verifAssert(len(k.conn.log) == n, "exact-number-of-transmissions")
	off := int64(0)
	w := k.T
	for i, e := range k.conn.log {
		if i >= n {
			break
		}
		verifAssert(e.at-k.start == off, "transmission-at-scheduled-offset")
		verifAssert(verifSame(e.data, want), "transmitted-bytes-equal-request-encoding")
		verifAssert(e.dest == k.dest, "transmitted-to-requested-destination")
		off += w
		w += w
	}
}

// VerifC12Silence (DHCPv6).
func VerifC12Silence(tries, nmsgs int) {
	k := &verifCall{conn: newVerifConn(), ctxAt: -1, closeAt: -1}
	verifNewClient(k, tries)
	want := k.req.ToBytes()
	prev := int64(0)
	for i := 0; i < nmsgs; i++ {
		data, xid, mt := verifReply("m")
		at := int64(verifU64("m.at"))
		verifAssume(at >= prev)
		verifAssume(at <= 1<<36)
		prev = at
		verifAssume(!verifAnd(verifSameXID(xid, verifXID), mt == 2))
		k.conn.deliver(at, data)
	}
	k.start = verifNow()
	k.resp, k.err = k.c.SendAndRead(newVerifCtx(), k.dest, k.req, IsMessageType(dhcpv6.MessageTypeAdvertise))
	k.end = verifNow()
	verifAssert(k.resp == nil, "no-response")
	verifAssert(k.err == ErrNoResponse, "no-response-error")
	verifAssert(k.end-k.start == k.budget, "fails-at-T-times-2^n-1")
	verifCheckSchedule(k, want, tries)
	verifAssert(verifSame(k.req.ToBytes(), want), "request-unmodified")
	verifObserveInt("writes", len(k.conn.log))
	k.c.Close()
	verifReach("end")
}

// VerifC12Accepted (DHCPv6).
func VerifC12Accepted(tries int) {
	k := &verifCall{conn: newVerifConn(), ctxAt: -1, closeAt: -1}
	verifNewClient(k, tries)
	want := k.req.ToBytes()
	adv := &dhcpv6.Message{MessageType: dhcpv6.MessageTypeAdvertise, TransactionID: verifXID}
	at := int64(verifU64("adv.at"))
	verifAssume(at >= 0)
	verifAssume(at < k.budget)
	k.conn.deliver(at, adv.ToBytes())
	k.start = verifNow()
	k.resp, k.err = k.c.SendAndRead(newVerifCtx(), k.dest, k.req, IsMessageType(dhcpv6.MessageTypeAdvertise))
	k.end = verifNow()
	verifAssert(k.err == nil, "accepted")
	verifAssert(k.resp != nil, "response-returned")
	verifAssert(k.end == at, "ends-when-the-response-arrives")
	n := len(k.conn.log)
	verifAssert(n >= 1 && n <= tries, "between-1-and-n-transmissions")
	verifCheckSchedule(k, want, n)
	startN, endN := int64(0), k.T
	w := k.T
	for i := 1; i < n; i++ {
		startN += w
		w += w
		endN = startN + w
	}
	verifAssert(startN <= at, "last-transmission-not-after-the-response")
	verifAssert(at <= endN, "response-within-the-last-try")
	done := make(chan struct{})
	verifAt(k.budget+k.budget+2, func() { close(done) })
	<-done
	verifAssert(len(k.conn.log) == n, "no-transmission-after-the-call-ended")
	k.c.Close()
	verifReach("end")
}

// VerifC12Forever (DHCPv6).
func VerifC12Forever(maxTries int) {
	k := &verifCall{conn: newVerifConn(), ctxAt: -1, closeAt: -1}
	verifNewClient(k, -1)
	want := k.req.ToBytes()
	w := k.T
	for i := 0; i < maxTries; i++ {
		k.budget += w
		w += w
	}
	ctx := newVerifCtx()
	k.ctxAt = int64(verifU64("ctx.at"))
	verifAssume(k.ctxAt >= 0)
	verifAssume(k.ctxAt < k.budget)
	k.ctxErr = errVerifCanceled
	ctx.endAt(k.ctxAt, k.ctxErr)
	k.start = verifNow()
	k.resp, k.err = k.c.SendAndRead(ctx, k.dest, k.req, nil)
	k.end = verifNow()
	verifAssert(k.resp == nil, "no-response")
	verifAssert(k.err == k.ctxErr, "ends-only-by-cancellation")
	verifAssert(k.end == k.ctxAt, "ends-at-cancellation")
	verifCheckSchedule(k, want, len(k.conn.log))
	verifObserveInt("writes", len(k.conn.log))
	k.c.Close()
	verifReach("end")
}

// VerifC11Burst: a burst of n datagrams that are routed to the call (own transaction id) but
// rejected by its matcher (REPLY for an ADVERTISE matcher),
// more than the per-transaction buffer holds, at symbolic strictly increasing instants; optionally
// (last != 0) followed by an acceptable one. The call still ends on schedule (or with the
// acceptable response), the id is released and Close returns leaving no goroutine.
// same != 0: the n datagrams arrive at one and the same instant.
func VerifC11Burst(tries, n, last, same int) {
	k := &verifCall{conn: newVerifConn(), ctxAt: -1, closeAt: -1}
	verifNewClient(k, tries)
	c := k.c
	prev := int64(0)
	var burst [][]byte
	for i := 0; i < n; i++ {
		at := prev
		if same == 0 || i == 0 {
			at = int64(verifU64("m.at"))
			verifAssume(at > prev) // strictly later: the order of the datagrams among themselves is fixed
			verifAssume(at <= 1<<36)
		}
		// same != 0: the whole burst arrives at one instant, so that the receive loop finds the
		// per-transaction buffer full before the caller has consumed anything
		prev = at
		p := &dhcpv6.Message{MessageType: dhcpv6.MessageTypeReply, TransactionID: verifXID}
		p.AddOption(&dhcpv6.OptionGeneric{OptionCode: dhcpv6.OptionCode(250), OptionData: []byte{byte(i)}})
		if same != 0 {
			burst = append(burst, p.ToBytes())
			if i == n-1 {
				from := &net.UDPAddr{IP: net.IP{0xfe, 0x80, 0, 0, 0, 0, 0, 0, 0, 0, 0, 0, 0, 0, 0, 1}, Port: 547}
				verifAt(at, func() { // one event: the datagrams are queued back to back
					for _, d := range burst {
						select {
						case k.conn.in <- verifDgram{data: d, from: from}:
						default:
						}
					}
				})
			}
			continue
		}
		k.conn.deliver(at, p.ToBytes())
	}
	offerAt := int64(-1)
	if last != 0 {
		offerAt = int64(verifU64("offer.at"))
		verifAssume(offerAt > prev)
		verifAssume(offerAt <= 1<<36)
		p := &dhcpv6.Message{MessageType: dhcpv6.MessageTypeAdvertise, TransactionID: verifXID}
		k.conn.deliver(offerAt, p.ToBytes())
	}
	k.start = verifNow()
	k.resp, k.err = c.SendAndRead(newVerifCtx(), k.dest, k.req, IsMessageType(dhcpv6.MessageTypeAdvertise))
	k.end = verifNow()
	verifObserveInt("elapsed", int(k.end-k.start))
	verifAssert(k.end-k.start <= k.budget, "returns-within-T-times-2^tries-1")
	if k.resp != nil {
		verifAssert(k.err == nil, "no-error-with-response")
		verifAssert(k.resp.MessageType == dhcpv6.MessageTypeAdvertise, "response-satisfies-matcher")
		verifAssert(last != 0 && k.end == offerAt, "returns-as-soon-as-acceptable-response-arrives")
	} else {
		verifAssert(k.err == ErrNoResponse, "no-response-error")
		verifAssert(k.end-k.start == k.budget, "fails-at-T-times-2^n-1")
		verifAssert(last == 0 || offerAt >= k.budget, "returns-as-soon-as-acceptable-response-arrives")
	}
	c.pendingMu.Lock()
	_, still := c.pending[verifXID]
	c.pendingMu.Unlock()
	verifAssert(!still, "transaction-id-released")
	// let the rest of the burst arrive while no call is pending, then close
	done := make(chan struct{})
	verifAt(1<<36+1, func() { close(done) })
	<-done
	cerr := c.Close()
	verifAssert(cerr == nil, "close-returns")
	verifSettle()
	verifAssert(verifGoroutines() == 0, "no-goroutine-left-after-close")
	verifReach("end")
}

// VerifC11ReadFault: the socket starts failing reads at a symbolic instant while a call is
// pending (matcher != 0: with a matcher; 0: without, any message with the id is acceptable). The
// call still ends within its schedule with an error (never with a nil response and a nil error),
// the id is released and Close returns leaving no goroutine.
func VerifC11ReadFault(tries, matcher int) {
	k := &verifCall{conn: newVerifConn(), ctxAt: -1, closeAt: -1}
	verifNewClient(k, tries)
	c := k.c
	at := int64(verifU64("fault.at"))
	verifAssume(at >= 0)
	verifAssume(at < k.budget)
	k.conn.failReadAt(at)
	var m Matcher
	if matcher != 0 {
		m = IsMessageType(dhcpv6.MessageTypeAdvertise)
	}
	k.start = verifNow()
	k.resp, k.err = c.SendAndRead(newVerifCtx(), k.dest, k.req, m)
	k.end = verifNow()
	verifAssert(k.resp == nil, "no-response")
	verifAssert(k.err != nil, "error-when-no-response")
	verifAssert(k.end-k.start <= k.budget, "returns-within-T-times-2^tries-1")
	c.pendingMu.Lock()
	_, still := c.pending[verifXID]
	c.pendingMu.Unlock()
	verifAssert(!still, "transaction-id-released")
	c.Close()
	verifSettle()
	verifAssert(verifGoroutines() == 0, "no-goroutine-left-after-close")
	verifReach("end")
}

// VerifC11CloseAtOnce: Close immediately after the client was created (the receive loop may not
// have run a single statement yet), and Close right after a call returned: when Close returns the
// receive loop has stopped — it does not start another read after that instant.
func VerifC11CloseAtOnce(callFirst int) {
	conn := newVerifConn()
	c, err := NewWithConn(conn, verifHW, WithTimeout(time.Duration(int64(verifU32("T"))+1)), WithRetry(1))
	verifAssert(err == nil, "client-created")
	if callFirst != 0 {
		req := &dhcpv6.Message{MessageType: dhcpv6.MessageTypeSolicit, TransactionID: verifXID}
		_, _ = c.SendAndRead(newVerifCtx(), verifDest(), req, nil)
	}
	cerr := c.Close()
	verifAssert(cerr == nil, "close-returns")
	atomic.StoreUint32(&conn.closeReturned, 1)
	verifSettle()
	verifAssert(atomic.LoadUint32(&conn.lateReads) == 0, "receive-loop-stopped-when-close-returns")
	verifAssert(verifGoroutines() == 0, "no-goroutine-left-after-close")
	verifReach("end")
}

// VerifC10SlowMatcher: a caller that is busy inside its matcher while a burst arrives. n datagrams
// routed to the call arrive in one instant during the second try; all are rejected by the matcher
// except the last, which is acceptable; the matcher's first invocation takes S (symbolic) of
// virtual time, so the receive loop finds the transaction's buffer full and has to wait for the
// caller. The call returns the acceptable datagram — the first one in arrival order — as soon as
// the matcher has got to it.
func VerifC10SlowMatcher(n, late int) {
	k := &verifCall{conn: newVerifConn(), ctxAt: -1, closeAt: -1}
	verifNewClient(k, 2)
	c := k.c
	a := int64(verifU64("burst.at"))
	s := int64(verifU64("matcher.takes"))
	verifAssume(a > k.T) // during the second try
	verifAssume(a <= 1<<36)
	verifAssume(s > 0)
	verifAssume(s < 3*k.T)
	if late == 0 {
		verifAssume(a+s < 3*k.T) // the matcher is done before the call's schedule ends
	} else {
		// the matcher is still busy when the last deadline passes, with datagrams waiting
		verifAssume(a < 3*k.T)
		verifAssume(a+s > 3*k.T)
	}
	var burst [][]byte
	for i := 0; i < n; i++ {
		mt := dhcpv6.MessageTypeReply // rejected by the ADVERTISE matcher
		if i == n-1 && late == 0 {
			mt = dhcpv6.MessageTypeAdvertise
		}
		p := &dhcpv6.Message{MessageType: mt, TransactionID: verifXID}
		p.AddOption(&dhcpv6.OptionGeneric{OptionCode: dhcpv6.OptionCode(250), OptionData: []byte{byte(i)}})
		burst = append(burst, p.ToBytes())
	}
	from := &net.UDPAddr{IP: net.IP{0xfe, 0x80, 0, 0, 0, 0, 0, 0, 0, 0, 0, 0, 0, 0, 0, 1}, Port: 547}
	verifAt(a, func() {
		for _, d := range burst {
			select {
			case k.conn.in <- verifDgram{data: d, from: from}:
			default:
			}
		}
	})
	calls := 0
	var seen []byte
	tagOf := func(p *dhcpv6.Message) []byte {
		if g, ok := p.GetOneOption(dhcpv6.OptionCode(250)).(*dhcpv6.OptionGeneric); ok {
			return g.OptionData
		}
		return nil
	}
	matcher := func(p *dhcpv6.Message) bool {
		calls++
		if calls == 1 {
			<-time.After(time.Duration(s))
		}
		seen = append(seen, tagOf(p)...)
		return p.MessageType == dhcpv6.MessageTypeAdvertise
	}
	k.start = verifNow()
	k.resp, k.err = c.SendAndRead(newVerifCtx(), k.dest, k.req, matcher)
	k.end = verifNow()
	if late != 0 {
		// nothing acceptable arrived: the call ends, without a response, as soon as its matcher
		// gives control back after the last deadline (which of the ready events the call looks at
		// first is the runtime's choice: every choice is explored)
		verifAssert(k.resp == nil && k.err == ErrNoResponse, "no-response-error")
		verifAssert(k.end == a+s, "returns-at-once-when-the-schedule-has-ended")
		c.Close()
		verifSettle()
		verifAssert(verifGoroutines() == 0, "no-goroutine-left-after-close")
		verifReach("end")
		return
	}
	verifAssert(k.err == nil && k.resp != nil, "first-acceptable-datagram-in-arrival-order-ends-the-call")
	if k.resp != nil {
		verifAssert(k.resp.MessageType == dhcpv6.MessageTypeAdvertise, "response-satisfies-matcher")
		verifAssert(len(tagOf(k.resp)) == 1 && tagOf(k.resp)[0] == byte(n-1), "response-is-a-datagram-that-arrived-during-the-call")
		verifAssert(k.end == a+s, "returns-as-soon-as-acceptable-response-arrives")
	}
	// the matcher saw every datagram of the burst, in arrival order, none dropped
	verifAssert(len(seen) == n, "no-routed-datagram-dropped")
	for i := range seen {
		verifAssert(seen[i] == byte(i), "datagrams-judged-in-arrival-order")
	}
	c.Close()
	verifSettle()
	verifAssert(verifGoroutines() == 0, "no-goroutine-left-after-close")
	verifReach("end")
}

// VerifC11CloseTwice: two goroutines close the same client at the same time (a deferred Close and
// a shutdown watcher), every interleaving at scheduling points (blocking operations and atomic
// reads) explored: both calls return, nothing panics, no goroutine is left.
func VerifC11CloseTwice(withCall int) {
	verifSchedule(true)
	verifScheduleAtomic(true)
	conn := newVerifConn()
	c, err := NewWithConn(conn, verifHW, WithTimeout(time.Duration(int64(verifU32("T"))+1)), WithRetry(1))
	verifAssert(err == nil, "client-created")
	if withCall != 0 {
		req := &dhcpv6.Message{MessageType: dhcpv6.MessageTypeSolicit, TransactionID: verifXID}
		_, _ = c.SendAndRead(newVerifCtx(), verifDest(), req, nil)
	}
	// the closers are released together (natively this makes them overlap as much as possible; the
	// schedule-dependent counterexample is repeated there until it shows)
	done := make(chan error, 2)
	var gate int32
	for i := 0; i < 2; i++ {
		go func() { verifGate(&gate, 2); done <- c.Close() }()
	}
	e1, e2 := <-done, <-done
	verifAssert(e1 == nil && e2 == nil, "close-returns")
	verifSettle()
	verifAssert(verifGoroutines() == 0, "no-goroutine-left-after-close")
	verifReach("end")
}

// VerifC11Logged: a client created with the logging options (dropped packets are logged)
// receives a datagram that belongs to no pending call at a symbolic instant, then makes a call that
// meets silence: the call ends on schedule, a second stray datagram changes nothing, Close returns
// and leaves no goroutine.
func VerifC11Logged(tries int) {
	k := &verifCall{conn: newVerifConn(), ctxAt: -1, closeAt: -1}
	k.T = int64(verifU32("T"))
	verifAssume(k.T >= 1)
	c, err := NewWithConn(k.conn, verifHW, WithTimeout(time.Duration(k.T)), WithRetry(tries), WithLogDroppedPackets())
	verifAssert(err == nil, "client-created")
	k.c = c
	k.req = verifRequest()
	k.dest = verifDest()
	w := k.T
	for i := 0; i < tries; i++ {
		k.budget += w
		w += w
	}
	stray := &dhcpv6.Message{MessageType: dhcpv6.MessageTypeReply, TransactionID: dhcpv6.TransactionID{9, 9, 9}}
	at1, at2 := int64(verifU64("stray1.at")), int64(verifU64("stray2.at"))
	verifAssume(at1 >= 0 && at1 <= 1<<36)
	verifAssume(at2 > at1 && at2 <= 1<<36)
	k.conn.deliver(at1, stray.ToBytes())
	k.conn.deliver(at2, stray.ToBytes())
	k.start = verifNow()
	k.resp, k.err = c.SendAndRead(newVerifCtx(), k.dest, k.req, IsMessageType(dhcpv6.MessageTypeAdvertise))
	k.end = verifNow()
	verifAssert(k.resp == nil && k.err == ErrNoResponse, "no-response-error")
	verifAssert(k.end-k.start == k.budget, "returns-within-T-times-2^tries-1")
	// let the second stray arrive (if it has not yet), then close
	done := make(chan struct{})
	verifAt(1<<36+1, func() { close(done) })
	<-done
	cerr := c.Close()
	verifAssert(cerr == nil, "close-returns")
	verifSettle()
	verifAssert(verifGoroutines() == 0, "no-goroutine-left-after-close")
	verifReach("end")
}

// VerifC10Logged (C10, C12): a client that logs dropped packets receives an undecodable datagram
// (kind 0: three bytes; 1: a 40-byte relay message, which a client does not take; 2: a message
// whose option overruns the datagram) at a symbolic instant, and after it an ADVERTISE of 20 bytes
// bearing the call's transaction id at a symbolic instant inside the schedule. The call returns
// that datagram, whole, at the instant it arrives (a receive path that remembered anything from
// the dropped one — a shortened buffer, say — would not).
func VerifC10Logged(kind, tries int) {
	k := &verifCall{conn: newVerifConn(), ctxAt: -1, closeAt: -1}
	k.T = int64(verifU32("T"))
	verifAssume(k.T >= 1)
	c, err := NewWithConn(k.conn, verifHW, WithTimeout(time.Duration(k.T)), WithRetry(tries), WithLogDroppedPackets())
	verifAssert(err == nil, "client-created")
	k.c = c
	k.req = verifRequest()
	k.dest = verifDest()
	w := k.T
	for i := 0; i < tries; i++ {
		k.budget += w
		w += w
	}
	var g []byte
	switch kind {
	case 0:
		g = append([]byte{12}, verifBytes("garbage", 2)...)
	case 1:
		g = append([]byte{12}, verifBytes("garbage", 39)...)
	default:
		g = append([]byte{2, 0xa1, 0xb2, 0xc3, 0, 1, 0, 10}, verifBytes("garbage", 2)...)
	}
	gat, rat := int64(verifU64("garbage.at")), int64(verifU64("reply.at"))
	verifAssume(gat >= 0)
	verifAssume(rat > gat)
	verifAssume(rat < k.budget)
	reply := &dhcpv6.Message{MessageType: dhcpv6.MessageTypeAdvertise, TransactionID: verifXID}
	reply.AddOption(&dhcpv6.OptionGeneric{OptionCode: dhcpv6.OptionCode(250), OptionData: verifBytes("reply.data", 12)})
	want := reply.ToBytes()
	k.conn.deliver(gat, g)
	k.conn.deliver(rat, want)
	k.start = verifNow()
	k.resp, k.err = c.SendAndRead(newVerifCtx(), k.dest, k.req, IsMessageType(dhcpv6.MessageTypeAdvertise))
	k.end = verifNow()
	verifAssert(k.resp != nil && k.err == nil, "acceptable-datagram-ends-the-call")
	if k.resp != nil {
		verifAssert(k.end-k.start == rat, "returns-when-the-acceptable-datagram-arrives")
		verifAssert(verifSame(k.resp.ToBytes(), want), "response-is-the-datagram-that-arrived")
	}
	verifObserveInt("writes", len(k.conn.log))
	cerr := c.Close()
	verifAssert(cerr == nil, "close-returns")
	verifReach("end")
}
