//go:build verif

package nclient6

// C13 (DHCPv6): SOLICIT/ADVERTISE and REQUEST/REPLY are paired by transaction id; the REQUEST
// carries the advertised client id, server id and IA_NA; a rapid-commit REPLY is accepted directly.

import (
	"context"
	"net"
	"time"

	"github.com/insomniacslk/dhcp/dhcpv6"
)

var verifForeignXID = dhcpv6.TransactionID{0xee, 0xee, 0xee}

type verifServerMsg struct {
	ownXID bool
	mt     uint8
	stale  bool   // (with !ownXID) carries the transaction id of the client's previous message
	tag    []byte // a 2-byte payload under an unknown option code, to recognise the message
}

type verifServerConn struct {
	*verifConn
	replies [][]*verifServerMsg
	seen    []*dhcpv6.Message
	dests   []net.Addr
	full    bool // replies to the first transmission are complete ADVERTISEs (client id, server id, IA_NA)
	sid     []byte
	iaid    [4]byte
}

func (c *verifServerConn) encode(m *verifServerMsg, req *dhcpv6.Message) []byte {
	p := &dhcpv6.Message{MessageType: dhcpv6.MessageType(m.mt), TransactionID: req.TransactionID}
	if !m.ownXID {
		p.TransactionID = verifForeignXID
		if m.stale && len(c.seen) >= 2 {
			// a late or duplicated answer to the client's PREVIOUS message
			p.TransactionID = c.seen[len(c.seen)-2].TransactionID
		}
	}
	if c.full {
		if cid := req.GetOneOption(dhcpv6.OptionClientID); cid != nil {
			p.AddOption(cid)
		}
		p.AddOption(dhcpv6.OptServerID(&dhcpv6.DUIDLL{HWType: 1, LinkLayerAddr: c.sid}))
		p.AddOption(&dhcpv6.OptIANA{IaId: c.iaid})
	}
	p.AddOption(&dhcpv6.OptionGeneric{OptionCode: 251, OptionData: m.tag})
	return p.ToBytes()
}

func (c *verifServerConn) WriteTo(b []byte, a net.Addr) (int, error) {
	n, err := c.verifConn.WriteTo(b, a)
	req, perr := dhcpv6.MessageFromBytes(b)
	verifAssert(perr == nil, "client-transmits-decodable-messages")
	if perr != nil {
		return n, err
	}
	// foreign datagrams carry an id that no transaction of this client uses
	verifAssume(!verifSameXID(req.TransactionID, verifForeignXID))
	// (independently drawn random ids do not collide: contract of the random source, stated in
	// the executor's stub; it is NOT assumed here that the client draws a fresh id per message)
	k := len(c.seen)
	c.seen = append(c.seen, req)
	c.dests = append(c.dests, a)
	if k < len(c.replies) {
		now := verifNow()
		for i, m := range c.replies[k] {
			c.verifConn.deliver(now+int64(100*k+i)+1, c.encode(m, req))
		}
	}
	return n, err
}

func verifBuildReplies(tag string, n int) []*verifServerMsg {
	var l []*verifServerMsg
	for i := 0; i < n; i++ {
		m := &verifServerMsg{ownXID: verifBool(tag + ".ownxid"), mt: verifU8(tag + ".type"), tag: verifBytes(tag+".tag", 2)}
		if tag == "r" {
			m.stale = verifBool(tag + ".stale")
		}
		verifAssume(m.mt != 12)
		verifAssume(m.mt != 13)
		l = append(l, m)
	}
	return l
}

func verifTagOf(m *dhcpv6.Message) []byte {
	o := m.GetOneOption(251)
	if g, ok := o.(*dhcpv6.OptionGeneric); ok {
		return g.OptionData
	}
	return nil
}

func verifNewServerClient(replies [][]*verifServerMsg, full bool) (*Client, *verifServerConn) {
	conn := &verifServerConn{verifConn: newVerifConn(), replies: replies, full: full}
	if full {
		conn.sid = verifBytes("server.ll", 6)
		copy(conn.iaid[:], verifBytes("server.iaid", 4))
	}
	c, err := NewWithConn(conn, verifHW, WithTimeout(time.Hour), WithRetry(1))
	verifAssert(err == nil, "client-created")
	return c, conn
}

// VerifC13Solicit: n replies to SOLICIT.
func VerifC13Solicit(n int) {
	replies := verifBuildReplies("a", n)
	c, conn := verifNewServerClient([][]*verifServerMsg{replies}, false)
	adv, err := c.Solicit(newVerifCtx())
	verifAssert(len(conn.seen) == 1, "one-solicit")
	if len(conn.seen) == 1 {
		verifAssert(conn.seen[0].MessageType == dhcpv6.MessageTypeSolicit, "first-message-is-solicit")
		verifAssert(conn.seen[0].Options.ClientID() != nil, "solicit-carries-client-id")
	}
	var want *verifServerMsg
	for _, m := range replies {
		if want == nil && verifAnd(m.ownXID, m.mt == uint8(dhcpv6.MessageTypeAdvertise)) {
			want = m
		}
	}
	if want == nil {
		verifAssert(adv == nil && err != nil, "no-advertise-no-result")
	} else {
		verifAssert(err == nil && adv != nil, "advertise-returned")
		if adv != nil {
			verifAssert(adv.MessageType == dhcpv6.MessageTypeAdvertise, "result-is-advertise")
			verifAssert(verifSame(adv.TransactionID[:], conn.seen[0].TransactionID[:]), "paired-by-transaction-id")
			verifAssert(verifSame(verifTagOf(adv), want.tag), "first-advertise-in-arrival-order")
		}
	}
	c.Close()
	verifReach("end")
}

// VerifC13Request: REQUEST built from an ADVERTISE with symbolic client id / server id / IA_NA;
// n replies.
func VerifC13Request(n int) {
	replies := verifBuildReplies("r", n)
	c, conn := verifNewServerClient([][]*verifServerMsg{replies}, false)
	cidLL := verifBytes("adv.clientll", 6)
	sidLL := verifBytes("adv.serverll", 6)
	var iaid [4]byte
	copy(iaid[:], verifBytes("adv.iaid", 4))
	adv := &dhcpv6.Message{MessageType: dhcpv6.MessageTypeAdvertise, TransactionID: dhcpv6.TransactionID{7, 7, 7}}
	cid := dhcpv6.OptClientID(&dhcpv6.DUIDLL{HWType: 1, LinkLayerAddr: cidLL})
	sid := dhcpv6.OptServerID(&dhcpv6.DUIDLL{HWType: 1, LinkLayerAddr: sidLL})
	ia := &dhcpv6.OptIANA{IaId: iaid}
	adv.AddOption(cid)
	adv.AddOption(sid)
	adv.AddOption(ia)
	rep, err := c.Request(newVerifCtx(), adv)
	verifAssert(len(conn.seen) == 1, "one-request")
	if len(conn.seen) == 1 {
		r := conn.seen[0]
		verifAssert(r.MessageType == dhcpv6.MessageTypeRequest, "message-is-request")
		rc, rs, ri := r.GetOneOption(dhcpv6.OptionClientID), r.GetOneOption(dhcpv6.OptionServerID), r.GetOneOption(dhcpv6.OptionIANA)
		verifAssert(rc != nil && rs != nil && ri != nil, "request-has-client-id-server-id-ia-na")
		if rc != nil && rs != nil && ri != nil {
			verifAssert(verifSame(rc.ToBytes(), cid.ToBytes()), "request-carries-advertised-client-id")
			verifAssert(verifSame(rs.ToBytes(), sid.ToBytes()), "request-carries-advertised-server-id")
			verifAssert(verifSame(ri.ToBytes(), ia.ToBytes()), "request-carries-advertised-ia-na")
		}
	}
	var want *verifServerMsg
	for _, m := range replies {
		if want == nil && m.ownXID {
			want = m
		}
	}
	if want == nil {
		verifAssert(rep == nil && err != nil, "no-reply-no-result")
	} else {
		verifAssert(err == nil && rep != nil, "reply-returned")
		if rep != nil {
			verifAssert(verifSame(rep.TransactionID[:], conn.seen[0].TransactionID[:]), "paired-by-transaction-id")
			verifAssert(verifSame(verifTagOf(rep), want.tag), "first-reply-in-arrival-order")
		}
	}
	c.Close()
	verifReach("end")
}

// VerifC13Rapid: RapidSolicit with n1 replies to SOLICIT (complete ADVERTISE/REPLY bodies) and
// n2 replies to the REQUEST that follows an ADVERTISE.
func VerifC13Rapid(n1, n2 int) {
	r1 := verifBuildReplies("a", n1)
	r2 := verifBuildReplies("r", n2)
	c, conn := verifNewServerClient([][]*verifServerMsg{r1, r2}, true)
	rep, err := c.RapidSolicit(newVerifCtx())
	verifAssert(len(conn.seen) >= 1, "solicit-sent")
	if len(conn.seen) >= 1 {
		s := conn.seen[0]
		verifAssert(s.MessageType == dhcpv6.MessageTypeSolicit, "first-message-is-solicit")
		verifAssert(s.GetOneOption(dhcpv6.OptionRapidCommit) != nil, "solicit-carries-rapid-commit")
	}
	var first *verifServerMsg
	for _, m := range r1 {
		if first == nil && verifAnd(m.ownXID, verifOr(m.mt == uint8(dhcpv6.MessageTypeReply), m.mt == uint8(dhcpv6.MessageTypeAdvertise))) {
			first = m
		}
	}
	if first == nil {
		verifAssert(rep == nil && err != nil, "no-answer-no-result")
		verifAssert(len(conn.seen) == 1, "no-request-without-advertise")
	} else if first.mt == uint8(dhcpv6.MessageTypeReply) {
		verifAssert(err == nil && rep != nil, "rapid-commit-reply-accepted-directly")
		verifAssert(len(conn.seen) == 1, "no-request-after-rapid-commit-reply")
		if rep != nil {
			verifAssert(verifSame(verifTagOf(rep), first.tag), "the-reply-itself-is-returned")
		}
	} else {
		verifAssert(len(conn.seen) == 2, "request-follows-advertise")
		if len(conn.seen) == 2 {
			r := conn.seen[1]
			verifAssert(r.MessageType == dhcpv6.MessageTypeRequest, "second-message-is-request")
			sidOpt := r.GetOneOption(dhcpv6.OptionServerID)
			verifAssert(sidOpt != nil, "request-has-server-id")
			if sidOpt != nil {
				verifAssert(verifSame(sidOpt.ToBytes(), dhcpv6.OptServerID(&dhcpv6.DUIDLL{HWType: 1, LinkLayerAddr: conn.sid}).ToBytes()), "request-carries-advertised-server-id")
			}
			ia := r.Options.OneIANA()
			verifAssert(ia != nil, "request-has-ia-na")
			if ia != nil {
				verifAssert(verifSame(ia.IaId[:], conn.iaid[:]), "request-carries-advertised-ia-na")
			}
			c0, c1 := conn.seen[0].GetOneOption(dhcpv6.OptionClientID), r.GetOneOption(dhcpv6.OptionClientID)
			verifAssert(c0 != nil && c1 != nil, "client-ids-present")
			if c0 != nil && c1 != nil {
				verifAssert(verifSame(c0.ToBytes(), c1.ToBytes()), "request-carries-advertised-client-id")
			}
			var want *verifServerMsg
			for _, m := range r2 {
				if want == nil && m.ownXID {
					want = m
				}
			}
			if want == nil {
				verifAssert(rep == nil && err != nil, "no-reply-no-result")
			} else {
				verifAssert(err == nil && rep != nil, "reply-returned")
				if rep != nil {
					verifAssert(verifSame(rep.TransactionID[:], r.TransactionID[:]), "reply-paired-by-transaction-id")
					verifAssert(verifSame(verifTagOf(rep), want.tag), "first-reply-in-arrival-order")
				}
			}
		}
	}
	c.Close()
	verifReach("end")
}

// VerifC11Rapid (C11): RapidSolicit whose SOLICIT is answered by a complete ADVERTISE one tick
// later, after which the server stays silent: the REQUEST exchange that follows runs under the
// caller's context as well. The context ends at a symbolic instant during that second exchange
// (kind as in verifCtxErrKind); the call returns at that instant with the context's error, and
// nothing is transmitted afterwards.
func VerifC11Rapid(tries, kind int) {
	adv := &verifServerMsg{ownXID: true, mt: uint8(dhcpv6.MessageTypeAdvertise), tag: verifBytes("a.tag", 2)}
	conn := &verifServerConn{verifConn: newVerifConn(), replies: [][]*verifServerMsg{{adv}}, full: true}
	conn.sid = verifBytes("server.ll", 6)
	copy(conn.iaid[:], verifBytes("server.iaid", 4))
	T := int64(verifU32("T"))
	verifAssume(T >= 2)
	c, err := NewWithConn(conn, verifHW, WithTimeout(time.Duration(T)), WithRetry(tries))
	verifAssert(err == nil, "client-created")
	budget, w := int64(0), T
	for i := 0; i < tries; i++ {
		budget += w
		w += w
	}
	ctx := newVerifCtx()
	at := int64(verifU64("ctx.at"))
	verifAssume(at >= 2)
	verifAssume(at < 1+budget)
	var cerr error = errVerifCanceled
	switch kind {
	case 2:
		cerr = context.Canceled
	case 3:
		cerr = context.DeadlineExceeded
	}
	ctx.endAt(at, cerr)
	rep, rerr := c.RapidSolicit(ctx)
	end := verifNow()
	verifAssert(len(conn.seen) >= 2, "request-follows-advertise")
	verifAssert(rep == nil, "no-response")
	verifAssert(rerr == cerr, "fails-with-the-context-error")
	verifAssert(end == at, "ends-when-the-context-ends")
	m := len(conn.log)
	done := make(chan struct{})
	verifAt(2*budget+4, func() { close(done) })
	<-done
	verifAssert(len(conn.log) == m, "no-transmission-after-the-call-ended")
	c.Close()
	verifReach("end")
}
