//go:build verif

package dhcpv6

// C02 / C05: decoding is a function of the bytes decoded. What the decoder accepted, rejected or
// gave up on earlier — deep relay chains, chains broken at the bottom, in any number — leaves no
// trace: the same datagram decodes to the same message before and after.

func verifRelayChain(depth int, inner []byte) []byte {
	for i := 0; i < depth; i++ {
		hdr := append([]byte{12, byte(i)}, make([]byte, 32)...)
		hdr[17], hdr[33] = 1, 2
		hdr = append(hdr, 0, 9, byte(len(inner)>>8), byte(len(inner)))
		inner = append(hdr, inner...)
	}
	return inner
}

// VerifC05History: a relay-forward (one level, symbolic addresses and hop count) around a message
// with a symbolic transaction id and one symbolic option is decoded; then n datagrams of the kind
// selected by mode are decoded (0: relay chains `depth` levels deep; 1: the same chains cut short
// inside their innermost message, which fail at the bottom of the recursion; 2: alternating);
// then the first datagram is decoded again.
func VerifC05History(n, depth, mode int) {
	msg := append([]byte{1}, verifBytes("xid", 3)...)
	msg = append(msg, 0, 250, 0, 2)
	msg = append(msg, verifBytes("val", 2)...)
	subj := append([]byte{12, verifU8("hops")}, verifBytes("addrs", 32)...)
	subj = append(subj, 0, 9, 0, byte(len(msg)))
	subj = append(subj, msg...)
	d0, err0 := FromBytes(subj)
	verifAssert(err0 == nil, "decode-ok")
	if err0 != nil {
		return
	}
	enc0 := d0.ToBytes()
	verifAssert(verifSame(enc0, subj), "reencodes-to-the-datagram")
	good := verifRelayChain(depth, []byte{1, 0, 0, 7})
	bad := verifRelayChain(depth, []byte{1, 0, 0}) // innermost message one byte short
	for i := 0; i < n; i++ {
		b := good
		if mode == 1 || (mode == 2 && i%2 == 1) {
			b = bad
		}
		_, _ = FromBytes(b)
	}
	d1, err1 := FromBytes(subj)
	verifAssert(err1 == nil, "same-datagram-is-accepted-after-any-history-of-decodes")
	if err1 == nil {
		verifAssert(verifSame(d1.ToBytes(), enc0), "same-datagram-decodes-the-same-after-any-history-of-decodes")
	}
	verifReach("end")
}
