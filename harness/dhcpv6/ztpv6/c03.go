//go:build verif

package ztpv6

// C03 (zero-touch provisioning, DHCPv6): ParseVendorData never panics on decoded messages.

import "github.com/insomniacslk/dhcp/dhcpv6"

var verifPrefixes = []string{"", "Arista;", "Cisco;", "ZPESystems:", "NVOS##", "1271"}

// VerifC03VendorData: a decoded message (relay != 0: a decoded relay-forward carrying the option
// itself and wrapping a message) with a vendor class (kind < 6: data = known prefix #kind followed
// by l symbolic bytes) or vendor-specific options (kind 6: symbolic enterprise number, one
// sub-option with symbolic code and l payload bytes), optionally a client id of DUID-EN/LL form.
func VerifC03VendorData(kind, l, relay, duid int) {
	var opt []byte
	if kind < 6 {
		s := append([]byte(verifPrefixes[kind]), verifBytes("tail", l)...)
		// OPTION_VENDOR_CLASS: enterprise number, then length-prefixed data
		opt = []byte{0, 16, 0, byte(4 + 2 + len(s)), verifU8("en"), verifU8("en"), verifU8("en"), verifU8("en"), 0, byte(len(s))}
		opt = append(opt, s...)
	} else {
		// OPTION_VENDOR_OPTS: enterprise number, then sub-option TLV
		opt = []byte{0, 17, 0, byte(4 + 4 + l), verifU8("en"), verifU8("en"), verifU8("en"), verifU8("en"), verifU8("sub"), verifU8("sub"), 0, byte(l)}
		opt = append(opt, verifBytes("subval", l)...)
	}
	msg := []byte{verifU8("type"), 1, 2, 3}
	verifAssume(msg[0] != 12)
	verifAssume(msg[0] != 13)
	switch duid {
	case 1: // client id, DUID-EN
		msg = append(msg, 0, 1, 0, 8, 0, 2, 0, 0, 4, 247)
		msg = append(msg, verifBytes("duid", 2)...)
	case 2: // client id, DUID-LL
		msg = append(msg, 0, 1, 0, 10, 0, 3, 0, 1)
		msg = append(msg, verifBytes("duid", 6)...)
	}
	var wire []byte
	if relay == 0 {
		wire = append(msg, opt...)
	} else {
		wire = append([]byte{12, 0}, verifBytes("addrs", 32)...)
		wire = append(wire, opt...)
		wire = append(wire, 0, 9, byte(len(msg)>>8), byte(len(msg)))
		wire = append(wire, msg...)
	}
	d, err := dhcpv6.FromBytes(wire)
	if err != nil {
		verifReach("rejected")
		verifReach("end")
		return
	}
	_, _ = ParseVendorData(d)
	verifReach("end")
}
