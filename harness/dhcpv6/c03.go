//go:build verif

package dhcpv6

// C03 (DHCPv6 part): no input crashes decoding or any read-only use of a decoded message.

func verifC03UseMessage(d DHCPv6) {
	switch m := d.(type) {
	case *Message:
		for k := range verifMessageReaderNames {
			verifMessageReader(m, k)
		}
		for k := range verifMessageOptionsReaderNames {
			verifMessageOptionsReader(m.Options, k)
		}
		_, _ = NewAdvertiseFromSolicit(m)
		_, _ = NewRequestFromAdvertise(m)
		_, _ = NewReplyFromMessage(m)
	case *RelayMessage:
		for k := range verifRelayMessageReaderNames {
			verifRelayMessageReader(m, k)
		}
		for k := range verifRelayOptionsReaderNames {
			verifRelayOptionsReader(m.Options, k)
		}
		reply := &Message{MessageType: MessageTypeReply}
		_, _ = NewRelayReplFromRelayForw(m, reply)
	}
	_, _ = DecapsulateRelay(d)
	_, _ = DecapsulateRelayIndex(d, -1)
	_, _ = DecapsulateRelayIndex(d, 0)
	_, _ = DecapsulateRelayIndex(d, 1)
	_, _ = d.GetInnerMessage()
	_, _ = GetTransactionID(d)
	_, _ = ExtractMAC(d)
	_ = d.ToBytes()
}

// VerifC03Raw: every byte string of n symbolic bytes into FromBytes (message and relay types),
// then every read-only operation on what was decoded.
func VerifC03Raw(n int) {
	d, err := FromBytes(verifBytes("msg", n))
	if err != nil {
		verifReach("rejected")
		verifReach("end")
		return
	}
	verifC03UseMessage(d)
	verifReach("end")
}

// VerifC03Message: a message (relay = 1: relay message wrapping it; 2: relay message holding the
// option itself and no relay-message option; 3: the latter relayed once more) with one option of known code
// #idx (or an unknown code) and an n-byte symbolic payload, decoded from the wire, then used.
func VerifC03Message(idx, n, relay int) {
	code := uint16(60000)
	if idx < len(verifKnownCodes) {
		code = verifKnownCodes[idx]
	}
	payload := verifBytes("payload", n)
	wire := []byte{verifU8("type"), verifU8("xid"), verifU8("xid"), verifU8("xid"), byte(code >> 8), byte(code), byte(n >> 8), byte(n)}
	wire = append(wire, payload...)
	verifAssume(wire[0] != 12)
	verifAssume(wire[0] != 13)
	relayHdr := func() []byte {
		hdr := append([]byte{verifU8("relaytype"), verifU8("hops")}, verifBytes("addrs", 32)...)
		verifAssume(hdr[0] >= 12)
		verifAssume(hdr[0] <= 13)
		return hdr
	}
	wrap := func(inner []byte) []byte {
		hdr := append(relayHdr(), 0, 9, byte(len(inner)>>8), byte(len(inner)))
		return append(hdr, inner...)
	}
	switch relay {
	case 1: // relay-forward/reply wrapping the message
		wire = wrap(wire)
	case 2: // the option sits directly in a relay message that has no relay-message option
		wire = append(relayHdr(), wire[4:]...)
	case 3: // ... and that relay message is itself relayed once more
		wire = wrap(append(relayHdr(), wire[4:]...))
	}
	d, err := FromBytes(wire)
	if err != nil {
		verifReach("rejected")
		verifReach("end")
		return
	}
	verifC03UseMessage(d)
	verifReach("end")
}

// VerifC03DUID: DUIDFromBytes on n symbolic bytes, then its readers.
func VerifC03DUID(n int) {
	d, err := DUIDFromBytes(verifBytes("duid", n))
	if err != nil {
		verifReach("rejected")
		verifReach("end")
		return
	}
	_ = d.String()
	_ = d.ToBytes()
	_ = d.DUIDType()
	_ = d.Equal(d)
	verifReach("end")
}

// VerifC03Concurrent: two goroutines use two different decoded messages at the same time (print
// them, walk their options, re-encode them), as a server's handlers do. Values decoded from
// different datagrams share nothing, so this must be free of data races: a read-only operation
// that writes to package-level state (a cache, a table) is reported by the happens-before
// analysis and confirmed with go test -race — in Go such a race on a map is a fatal error.
func VerifC03Concurrent(n int) {
	verifRaceDetect(true)
	mk := func(tag string) DHCPv6 {
		wire := []byte{verifU8(tag + ".type"), 1, 2, 3, verifU8(tag + ".code.hi"), verifU8(tag + ".code.lo"), 0, byte(n)}
		wire = append(wire, verifBytes(tag+".payload", n)...)
		verifAssume(wire[0] != 12)
		verifAssume(wire[0] != 13)
		verifAssume(wire[4] >= 0xf0) // unassigned option codes
		d, err := FromBytes(wire)
		if err != nil {
			return nil
		}
		return d
	}
	a, b := mk("a"), mk("b")
	if a == nil || b == nil {
		verifReach("end")
		return
	}
	// a few rounds each: Go's race detector (which confirms what the analysis reports) orders two
	// accesses whenever fmt's internal printer pool happens to hand one goroutine's printer to
	// the other, so a single round can hide a real race from it
	done := make(chan struct{})
	go func() {
		for i := 0; i < 8; i++ {
			_ = a.Summary()
			_ = a.String()
			_ = a.ToBytes()
		}
		close(done)
	}()
	for i := 0; i < 8; i++ {
		_ = b.Summary()
		_ = b.String()
		_ = b.ToBytes()
	}
	<-done
	verifReach("end")
}

// VerifC03DeepRelay: a relay chain `depth` levels deep (the decoder puts no bound on the hop
// count) around a message with one symbolic option is decoded and then used by every read-only
// operation, printing included: each of them returns (work that doubled with every level would not
// within any budget: such a run is handed to the native watchdog as a termination candidate).
func VerifC03DeepRelay(depth int) {
	inner := append([]byte{1}, verifBytes("xid", 3)...)
	inner = append(inner, 0, 250, 0, 2)
	inner = append(inner, verifBytes("val", 2)...)
	d, err := FromBytes(verifRelayChain(depth, inner))
	verifAssert(err == nil, "chain-decodes")
	if err != nil {
		return
	}
	verifC03UseMessage(d)
	verifReach("end")
}
