//go:build verif

package dhcpv6

// C20 (DHCPv6 part): reading or printing a message / option never changes it.  The lists of
// read-only methods and of option codes are generated from the package's types at check time
// (zz_verif_generated.go).

// VerifC20Option: the option ParseOption yields for known code #idx and an n-byte symbolic payload;
// every read-only method of its type, in sequence and twice; ToBytes must stay the same.
func VerifC20Option(idx, n int) {
	code := OptionCode(60000)
	if idx < len(verifKnownCodes) {
		code = OptionCode(verifKnownCodes[idx])
	}
	payload := verifBytes("payload", n)
	o, err := ParseOption(code, payload)
	if err != nil {
		verifReach("rejected")
		verifReach("end")
		return
	}
	e0 := o.ToBytes()
	verifObserve("encoding", e0)
	nr := verifOptionReaders(o)
	for round := 0; round < 2; round++ {
		for k := 0; k < nr; k++ {
			verifOptionReader(o, k)
			verifAssert(verifSame(o.ToBytes(), e0), "reader-leaves-encoding-unchanged")
		}
	}
	verifReach("end")
}

// VerifC20Message: a message (relay != 0: a relay-forward wrapping it) holding one option of known
// code #idx with an n-byte symbolic payload, decoded from the wire; every read-only method of the
// message and of its option accessors; ToBytes must stay the same.
func VerifC20Message(idx, n, relay int) {
	code := uint16(60000)
	if idx < len(verifKnownCodes) {
		code = verifKnownCodes[idx]
	}
	payload := verifBytes("payload", n)
	wire := []byte{verifU8("type"), verifU8("xid"), verifU8("xid"), verifU8("xid"), byte(code >> 8), byte(code), byte(n >> 8), byte(n)}
	wire = append(wire, payload...)
	verifAssume(wire[0] != 12)
	verifAssume(wire[0] != 13)
	if relay != 0 {
		hdr := append([]byte{12, verifU8("hops")}, verifBytes("addrs", 32)...)
		hdr = append(hdr, 0, 9, byte(len(wire)>>8), byte(len(wire)))
		wire = append(hdr, wire...)
	}
	d, err := FromBytes(wire)
	if err != nil {
		verifReach("rejected")
		verifReach("end")
		return
	}
	e0 := d.ToBytes()
	switch m := d.(type) {
	case *Message:
		for k := range verifMessageReaderNames {
			verifMessageReader(m, k)
			verifAssert(verifSame(d.ToBytes(), e0), "message-reader-leaves-encoding-unchanged")
		}
		for k := range verifMessageOptionsReaderNames {
			verifMessageOptionsReader(m.Options, k)
			verifAssert(verifSame(d.ToBytes(), e0), "options-reader-leaves-encoding-unchanged")
		}
	case *RelayMessage:
		for k := range verifRelayMessageReaderNames {
			verifRelayMessageReader(m, k)
			verifAssert(verifSame(d.ToBytes(), e0), "relay-reader-leaves-encoding-unchanged")
		}
		for k := range verifRelayOptionsReaderNames {
			verifRelayOptionsReader(m.Options, k)
			verifAssert(verifSame(d.ToBytes(), e0), "relay-options-reader-leaves-encoding-unchanged")
		}
	}
	verifReach("end")
}
