//go:build verif

package dhcpv6

// C20 (DHCPv6 part): reading or printing a message / option never changes it.  The lists of
// read-only methods and of option codes are generated from the package's types at check time
// (zz_verif_generated.go).

import (
	"net"
	"time"
)

// VerifC20Option: the option ParseOption yields for known code #idx and an n-byte symbolic payload;
// every read-only method of its type, in sequence and twice; ToBytes must stay the same.
func VerifC20Option(idx, n int) {
	code := OptionCode(60000)
	if idx < len(verifKnownCodes) {
		code = OptionCode(verifKnownCodes[idx])
	}
	payload := verifBytes("payload", n)
	o, err := ParseOption(code, payload)
	if err != nil {
		verifReach("rejected")
		verifReach("end")
		return
	}
	verifObserve("encoding", o.ToBytes())
	verifC20Readers(o, true)
	verifReach("end")
}

// verifC20Readers: every read-only method of o's type, results folded into digests, then all of
// them again in the opposite order: same results, same encoding (compared after every call when
// fine is set, after each pass otherwise).
func verifC20Readers(o Option, fine bool) {
	e0 := o.ToBytes()
	nr := verifOptionReaders(o)
	dg := make([][]byte, nr)
	var keep verifKeep
	for k := 0; k < nr; k++ {
		dg[k] = verifOptionReaderK(o, k, &keep.refs)
		keep.snapshot()
		if fine {
			verifAssert(verifSame(o.ToBytes(), e0), "reader-leaves-encoding-unchanged")
		}
	}
	verifAssert(verifSame(o.ToBytes(), e0), "reader-leaves-encoding-unchanged")
	// again in the opposite order: same results, same encoding
	for k := nr - 1; k >= 0; k-- {
		verifAssert(verifSame(verifOptionReader(o, k), dg[k]), "repeated-calls-return-equal-results")
		keep.check()
		if fine {
			verifAssert(verifSame(o.ToBytes(), e0), "reader-leaves-encoding-unchanged")
		}
	}
	verifAssert(verifSame(o.ToBytes(), e0), "reader-leaves-encoding-unchanged")
	keep.check()
}

// verifKeep holds the byte slices readers handed out (the slices themselves) beside copies taken
// at that moment: a later read-only call must not rewrite what an earlier one returned.
type verifKeep struct {
	refs, copies [][]byte
}

func (k *verifKeep) snapshot() {
	k.check() // after every call: a buffer that is rewritten and later restored must not go unseen
	for i := len(k.copies); i < len(k.refs); i++ {
		k.copies = append(k.copies, append([]byte(nil), k.refs[i]...))
	}
}

func (k *verifKeep) check() {
	for i := range k.copies {
		verifAssert(verifSame(k.refs[i], k.copies[i]), "results-handed-out-earlier-are-not-rewritten-by-later-calls")
	}
}

// VerifC20Message: a message (relay = 1: a relay-forward wrapping it; 2, 3: a relay-forward holding
// the relayed message, an interface-id and the option in two different orders; 4: a message with two
// more options around it) holding one option of known
// code #idx with an n-byte symbolic payload, decoded from the wire; every read-only method of the
// message and of its option accessors; ToBytes must stay the same.
func VerifC20Message(idx, n, relay int) {
	code := uint16(60000)
	if idx < len(verifKnownCodes) {
		code = verifKnownCodes[idx]
	}
	payload := verifBytes("payload", n)
	wire := []byte{verifU8("type"), verifU8("xid"), verifU8("xid"), verifU8("xid"), byte(code >> 8), byte(code), byte(n >> 8), byte(n)}
	wire = append(wire, payload...)
	verifAssume(wire[0] != 12)
	verifAssume(wire[0] != 13)
	opt := append([]byte(nil), wire[4:]...) // the option's TLV
	iid := append([]byte{0, 18, 0, 2}, verifBytes("iid", 2)...)
	switch relay {
	case 1: // relay-forward holding only the relayed message
		hdr := append([]byte{12, verifU8("hops")}, verifBytes("addrs", 32)...)
		hdr = append(hdr, 0, 9, byte(len(wire)>>8), byte(len(wire)))
		wire = append(hdr, wire...)
	case 2: // relay-forward: relayed message FIRST, then interface-id and the option itself
		hdr := append([]byte{12, verifU8("hops")}, verifBytes("addrs", 32)...)
		hdr = append(hdr, 0, 9, byte(len(wire)>>8), byte(len(wire)))
		wire = append(hdr, wire...)
		wire = append(wire, iid...)
		wire = append(wire, opt...)
	case 3: // relay-forward: the option, interface-id, then the relayed message LAST
		hdr := append([]byte{12, verifU8("hops")}, verifBytes("addrs", 32)...)
		hdr = append(hdr, opt...)
		hdr = append(hdr, iid...)
		hdr = append(hdr, 0, 9, byte(len(wire)>>8), byte(len(wire)))
		wire = append(hdr, wire...)
	case 4: // message with three options: an unknown one, the option, another unknown one
		w := append([]byte(nil), wire[:4]...)
		w = append(w, 0, 250, 0, 2)
		w = append(w, verifBytes("before", 2)...)
		w = append(w, opt...)
		w = append(w, 0, 251, 0, 1)
		w = append(w, verifBytes("after", 1)...)
		wire = w
	}
	d, err := FromBytes(wire)
	if err != nil {
		verifReach("rejected")
		verifReach("end")
		return
	}
	verifC20MsgReaders(d)
	verifReach("end")
}

// verifC20MsgReaders: every read-only method of the message / relay message and of its option
// accessors, results folded and kept, then again in the opposite order.
func verifC20MsgReaders(d DHCPv6) {
	e0 := d.ToBytes()
	var keep verifKeep
	switch m := d.(type) {
	case *Message:
		n1, n2 := len(verifMessageReaderNames), len(verifMessageOptionsReaderNames)
		d1, d2 := make([][]byte, n1), make([][]byte, n2)
		for k := 0; k < n1; k++ {
			d1[k] = verifMessageReaderK(m, k, &keep.refs)
			keep.snapshot()
			verifAssert(verifSame(d.ToBytes(), e0), "message-reader-leaves-encoding-unchanged")
		}
		for k := 0; k < n2; k++ {
			d2[k] = verifMessageOptionsReaderK(m.Options, k, &keep.refs)
			keep.snapshot()
			verifAssert(verifSame(d.ToBytes(), e0), "options-reader-leaves-encoding-unchanged")
		}
		for k := n2 - 1; k >= 0; k-- {
			verifAssert(verifSame(verifMessageOptionsReader(m.Options, k), d2[k]), "repeated-calls-return-equal-results")
			keep.check()
		}
		for k := n1 - 1; k >= 0; k-- {
			verifAssert(verifSame(verifMessageReader(m, k), d1[k]), "repeated-calls-return-equal-results")
			keep.check()
		}
	case *RelayMessage:
		n1, n2 := len(verifRelayMessageReaderNames), len(verifRelayOptionsReaderNames)
		d1, d2 := make([][]byte, n1), make([][]byte, n2)
		for k := 0; k < n1; k++ {
			d1[k] = verifRelayMessageReaderK(m, k, &keep.refs)
			keep.snapshot()
			verifAssert(verifSame(d.ToBytes(), e0), "relay-reader-leaves-encoding-unchanged")
		}
		for k := 0; k < n2; k++ {
			d2[k] = verifRelayOptionsReaderK(m.Options, k, &keep.refs)
			keep.snapshot()
			verifAssert(verifSame(d.ToBytes(), e0), "relay-options-reader-leaves-encoding-unchanged")
		}
		for k := n2 - 1; k >= 0; k-- {
			verifAssert(verifSame(verifRelayOptionsReader(m.Options, k), d2[k]), "repeated-calls-return-equal-results")
			keep.check()
		}
		for k := n1 - 1; k >= 0; k-- {
			verifAssert(verifSame(verifRelayMessageReader(m, k), d1[k]), "repeated-calls-return-equal-results")
			keep.check()
		}
	}
	verifAssert(verifSame(d.ToBytes(), e0), "readers-leave-encoding-unchanged")
	keep.check()
	// the package's read-only helpers that take a message
	_, _ = ExtractMAC(d)
	_, _ = GetTransactionID(d)
	_, _ = DecapsulateRelay(d)
	_, _ = DecapsulateRelayIndex(d, -1)
	_, _ = d.GetInnerMessage()
	verifAssert(verifSame(d.ToBytes(), e0), "helpers-leave-encoding-unchanged")
	keep.check()
}

// VerifC20Elapsed: an elapsed-time option built from a duration the caller chose (which: 0, 10 ms,
// 1 s, the largest value the 16-bit field holds, one tick more, 20 min, 3 h) is put into a message;
// encoding the option, the message and a relay around it, and printing them, leave what the
// message reports as its elapsed time exactly as the caller set it, and every encoding equals the
// first one.
func VerifC20Elapsed(which int) {
	ds := []time.Duration{0, 10 * time.Millisecond, time.Second, 65535 * 10 * time.Millisecond, 65536 * 10 * time.Millisecond, 20 * time.Minute, 3 * time.Hour}
	d := ds[which]
	o := OptElapsedTime(d)
	m := &Message{MessageType: MessageTypeSolicit}
	copy(m.TransactionID[:], verifBytes("xid", 3))
	m.AddOption(o)
	verifAssert(m.Options.ElapsedTime() == d, "reader-reports-what-was-set")
	b0 := append([]byte(nil), o.ToBytes()...)
	verifAssert(m.Options.ElapsedTime() == d, "encoding-leaves-the-option-unchanged")
	e0 := append([]byte(nil), m.ToBytes()...)
	verifAssert(m.Options.ElapsedTime() == d, "encoding-leaves-the-option-unchanged")
	_ = m.Summary()
	_ = o.String()
	r, err := EncapsulateRelay(m, MessageTypeRelayForward, net.IPv6zero, net.IPv6zero)
	if err == nil {
		_ = r.ToBytes()
		_ = r.Summary()
	}
	verifAssert(m.Options.ElapsedTime() == d, "encoding-leaves-the-option-unchanged")
	verifAssert(verifSame(o.ToBytes(), b0), "repeated-reads-agree")
	verifAssert(verifSame(m.ToBytes(), e0), "message-reader-leaves-encoding-unchanged")
	verifReach("end")
}
