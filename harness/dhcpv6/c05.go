//go:build verif

package dhcpv6

import "time"

// C05: DHCPv6 decoding accepts exactly well-formed messages and reads the RFC values.

func verifSame(a, b []byte) bool {
	if len(a) != len(b) {
		return false
	}
	var d byte
	for i := range a {
		d |= a[i] ^ b[i]
	}
	return d == 0
}

func verifB2I(b bool) int {
	if b {
		return 1
	}
	return 0
}

type refTLV struct {
	code uint16
	val  []byte
}

// refTile is RFC 8415 §21.1: options tile the area exactly as code/len/value triples.
func refTile(a []byte) (opts []refTLV, ok bool) {
	i := 0
	for len(a)-i >= 4 {
		code := uint16(a[i])<<8 | uint16(a[i+1])
		l := int(a[i+2])<<8 | int(a[i+3])
		if l > len(a)-i-4 {
			return nil, false
		}
		opts = append(opts, refTLV{code, a[i+4 : i+4+l]})
		i += 4 + l
	}
	if i != len(a) {
		return nil, false
	}
	return opts, true
}

// verifUnknownCode constrains c to a code the library has no parser for: the range 200..65535
// minus nothing (every code the option-parser switch knows is below 200; checked by VerifC05KnownCodesBelow200).
func verifUnknownCode(c uint16) {
	verifAssume(c >= 200)
}

// VerifC05Framing: message type 1, symbolic transaction id, every options area of n bytes
// whose option codes are unknown to the library.
func VerifC05Framing(n int) {
	area := verifBytes("opt", n)
	hdr := []byte{1, verifU8("xid"), verifU8("xid"), verifU8("xid")}
	msg := append(append([]byte(nil), hdr...), area...)
	// codes at TLV boundaries are assumed unknown: constrain every position that the reference
	// reads as a code (positions depend on symbolic lengths, so constrain while tiling)
	ref, refOK := refTileUnknown(area)
	m, err := MessageFromBytes(msg)
	verifAssert((err == nil) == refOK, "accept-iff-exact-tiling")
	verifObserveInt("accepted", verifB2I(err == nil))
	if err == nil && refOK {
		verifAssert(m.MessageType == 1, "message-type")
		verifAssert(verifSame(m.TransactionID[:], hdr[1:]), "transaction-id")
		verifAssert(len(m.Options.Options) == len(ref), "same-number-of-options-in-wire-order")
		if len(m.Options.Options) == len(ref) {
			for i, o := range m.Options.Options {
				verifAssert(uint16(o.Code()) == ref[i].code, "code-in-wire-order")
				g, isGeneric := o.(*OptionGeneric)
				verifAssert(isGeneric, "unknown-code-kept-generic")
				if isGeneric {
					verifAssert(verifSame(g.OptionData, ref[i].val), "unknown-payload-verbatim")
				}
			}
		}
	}
	verifReach("end")
}

// refTileUnknown tiles like refTile and assumes each code it meets is unknown to the library.
func refTileUnknown(a []byte) (opts []refTLV, ok bool) {
	i := 0
	for len(a)-i >= 4 {
		code := uint16(a[i])<<8 | uint16(a[i+1])
		verifUnknownCode(code)
		l := int(a[i+2])<<8 | int(a[i+3])
		if l > len(a)-i-4 {
			return nil, false
		}
		opts = append(opts, refTLV{code, a[i+4 : i+4+l]})
		i += 4 + l
	}
	if i != len(a) {
		return nil, false
	}
	return opts, true
}

// VerifC02IAAddrSample: smoke test of the lifetime codec (seconds <-> time.Duration).
func VerifC02IAAddrSample() {
	ip := verifBytes("ip", 16)
	p := verifU32("pref")
	v := verifU32("valid")
	o := &OptIAAddress{IPv6Addr: ip, PreferredLifetime: time.Duration(p) * time.Second, ValidLifetime: time.Duration(v) * time.Second}
	b := o.ToBytes()
	verifAssert(len(b) == 24, "layout-length")
	if len(b) == 24 {
		verifAssert(verifSame(b[:16], ip), "address-bytes")
		verifAssert(uint32(b[16])<<24|uint32(b[17])<<16|uint32(b[18])<<8|uint32(b[19]) == p, "preferred-seconds")
		verifAssert(uint32(b[20])<<24|uint32(b[21])<<16|uint32(b[22])<<8|uint32(b[23]) == v, "valid-seconds")
	}
	var q OptIAAddress
	err := q.FromBytes(b)
	verifAssert(err == nil, "decode-ok")
	verifAssert(q.PreferredLifetime == o.PreferredLifetime, "preferred-roundtrip")
	verifAssert(q.ValidLifetime == o.ValidLifetime, "valid-roundtrip")
	verifReach("end")
}

