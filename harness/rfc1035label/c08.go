//go:build verif

package rfc1035label

// C08 (labels): a parsed label set owns its memory.
func VerifC08Labels(n int) {
	b := verifBytes("b", n)
	l, err := FromBytes(b)
	if err != nil {
		verifReach("rejected")
		verifReach("end")
		return
	}
	s0 := append([]byte(nil), l.ToBytes()...)
	verifObserve("encoding", s0)
	verifHavoc("scribble-in", b)
	s1 := l.ToBytes()
	verifAssert(verifSame(s1, s0), "overwriting-the-source-buffer-changes-nothing")
	verifAssert(!verifAliases(s1, b), "encoding-does-not-alias-the-source-buffer")
	verifReach("end")
}
