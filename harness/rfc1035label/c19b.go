//go:build verif

package rfc1035label

// C19, second part: whole-list edits (including lists that only move the boundary between names),
// names around the 255-octet limit of RFC 1035 §2.3.4, and compression pointers whose 14-bit
// offset needs its high bits (targets at offsets >= 256).

// VerifC19Replace: names of shapes s1..s3 are encoded and parsed; then the WHOLE list is replaced by
// fresh names of shapes t1..t3 (every byte symbolic and independent of the first list, so the
// solver decides whether some coincidence of contents makes the library mistake the new list for
// the old one). The result must be the RFC 1035 §3.1 encoding of the new list.
func VerifC19Replace(s1, s2, s3, t1, t2, t3, compress int) {
	all, _ := verifNames([]int{s1, s2, s3})
	src := refEncode(all)
	if compress != 0 && len(all) > 0 {
		// one more name, written as a compression pointer to the first name
		src = append(src, 0xc0, 0x00)
		all = append(all, all[0])
	}
	l, err := FromBytes(src)
	verifAssert(err == nil, "decode-ok")
	if err != nil {
		return
	}
	verifAssert(len(l.Labels) == len(all), "same-number-of-names")
	newAll, newJoined := verifNames([]int{t1, t2, t3})
	l.Labels = newJoined
	out := l.ToBytes()
	want := refEncode(newAll)
	if compress != 0 {
		// if the new list equals the old one name by name the library may return the original
		// (compressed) bytes; both are encodings of the new list
		if verifSame(out, src) {
			back, st := refNames(out)
			verifAssert(st == refOK && len(back) == len(newAll), "original-bytes-only-if-they-encode-the-new-list")
			if st == refOK && len(back) == len(newAll) {
				for i := range back {
					verifAssert(verifSame(refJoin(back[i]), refJoin(newAll[i])), "original-bytes-only-if-they-encode-the-new-list")
				}
			}
			verifReach("end")
			return
		}
	}
	verifAssert(verifSame(out, want), "replaced-list-is-encoded")
	verifAssert(l.Length() == len(want), "length-of-replaced-list")
	verifHavoc("scribble-out", out)
	verifAssert(verifSame(l.ToBytes(), want), "overwriting-the-encoded-bytes-changes-nothing")
	verifReach("end")
}

// verifLongName appends a name of nl labels of ll bytes plus (if last > 0) one label of `last` bytes,
// terminated. Content bytes are symbolic lower-case letters (a pointer into the middle of a label
// then reads a reserved label type: undefined by the RFC, no claim).
func verifLongName(b []byte, nl, ll, last int) []byte {
	put := func(n int) {
		lab := verifBytes("lab", n)
		for i := range lab {
			lab[i] = 'a' + lab[i]&15 // 16 letters, still symbolic, no assumption to discharge
		}
		b = append(b, byte(n))
		b = append(b, lab...)
	}
	for i := 0; i < nl; i++ {
		put(ll)
	}
	if last > 0 {
		put(last)
	}
	return append(b, 0)
}

// verifC19Compare: acceptance and names of b against the reference, including the 255-octet limit.
func verifC19Compare(b []byte) {
	names, st := refNames(b)
	if st == refUndefined {
		// no claim; the decoder is not run on these (crash freedom is C03's subject)
		verifReach("undefined-by-rfc")
		verifReach("end")
		return
	}
	l, err := FromBytes(b)
	verifAssert((err == nil) == (st == refOK), "accept-iff-rfc-wellformed")
	verifObserveInt("accepted", b2i(err == nil))
	if err == nil && st == refOK {
		verifAssert(len(l.Labels) == len(names), "same-number-of-names")
		if len(l.Labels) == len(names) {
			for i := range names {
				verifAssert(verifSame([]byte(l.Labels[i]), refJoin(names[i])), "name-as-rfc-reads-it")
			}
		}
		verifAssert(verifSame(l.ToBytes(), b), "unmodified-reencodes-to-original")
	}
	verifReach("end")
}

// VerifC19Long: one name of nl labels of ll bytes and a last label of `last` bytes (wire length
// nl*(ll+1)+last+2 when last > 0), optionally followed by a pointer to offset 0.
func VerifC19Long(nl, ll, last, ptr int) {
	b := verifLongName(nil, nl, ll, last)
	if ptr != 0 {
		b = append(b, 0xc0, 0x00)
	}
	verifC19Compare(b)
}

// VerifC19FarPointer: k names of nl labels of ll bytes each (more than 256 bytes in total), then one
// compression pointer to every target offset 0..len+2 and to 0x3fff (one explored choice each; the
// two reserved bits of the first pointer byte are set).
func VerifC19FarPointer(k, nl, ll int) {
	var b []byte
	for i := 0; i < k; i++ {
		b = verifLongName(b, nl, ll, 0)
	}
	t := verifChoice("target", len(b)+4)
	if t == len(b)+3 {
		t = 0x3fff
	}
	b = append(b, 0xc0|byte(t>>8), byte(t))
	verifC19Compare(b)
}

// VerifC19Shifted: the shifted-reading family of C09 (see verifShifted) against the reference,
// including the 255-octet limit for names reached through a pointer.
func VerifC19Shifted(units, x, k int) {
	verifC19Compare(verifShifted(units, x, k))
}

// VerifC19EditInPlace: names of shapes s1..s3 are encoded and parsed; then ONE element of the
// parsed list is overwritten in place (l.Labels[idx] = fresh name of shape t; swap != 0: two
// elements are exchanged instead) — the list header the library handed out is kept. The result
// must encode the edited list.
func VerifC19EditInPlace(s1, s2, s3, idx, t, swap int) {
	all, _ := verifNames([]int{s1, s2, s3})
	src := refEncode(all)
	l, err := FromBytes(src)
	verifAssert(err == nil, "decode-ok")
	if err != nil || len(l.Labels) != len(all) || idx >= len(all) {
		verifReach("end")
		return
	}
	want := append([][][]byte(nil), all...)
	edit := func() {
		if swap != 0 {
			j := (idx + 1) % len(all)
			l.Labels[idx], l.Labels[j] = l.Labels[j], l.Labels[idx]
			want[idx], want[j] = want[j], want[idx]
		} else {
			freshLabels, fresh := verifName(shapeLens(t))
			l.Labels[idx] = fresh
			want[idx] = freshLabels
		}
	}
	edit()
	out := l.ToBytes()
	verifAssert(verifSame(out, refEncode(want)), "edited-names-are-encoded")
	verifAssert(l.Length() == len(refEncode(want)), "length-of-edited-list")
	// a second edit and encoding: the bytes handed out for the first one stay as they were
	kept := append([]byte(nil), out...)
	edit()
	out2 := l.ToBytes()
	verifAssert(verifSame(out2, refEncode(want)), "edited-names-are-encoded")
	verifAssert(l.Length() == len(refEncode(want)), "length-of-edited-list")
	verifAssert(verifSame(out, kept), "encoded-bytes-handed-out-earlier-stay-unchanged")
	// the bytes handed out are the caller's: scribbling over them changes no later encoding
	verifHavoc("scribble-out", out2)
	verifAssert(verifSame(l.ToBytes(), refEncode(want)), "overwriting-the-encoded-bytes-changes-nothing")
	verifReach("end")
}

func shapeLens(s int) []int {
	var lens []int
	for d := s; d > 0; d /= 100 {
		lens = append(lens, d%100)
	}
	return lens
}

// VerifC19Redecode: one Labels object decodes names of shapes s1, s2 and is then asked to decode a
// second input of n symbolic bytes (copyFirst != 0: a VALUE COPY of the object is, as types that
// embed Labels by value make). If the second decoding succeeds the object is the second list; the
// original of a value copy is the first list whatever happens to the copy.
func VerifC19Redecode(s1, s2, n, copyFirst int) {
	all, _ := verifNames([]int{s1, s2})
	b1 := refEncode(all)
	var l Labels
	err := l.FromBytes(b1)
	verifAssert(err == nil, "decode-ok")
	if err != nil {
		return
	}
	b2 := verifBytes("second", n)
	if copyFirst == 2 {
		// the object is edited, then asked to decode the very bytes it was decoded from before:
		// it must hold their names again (a shortcut for "same bytes as last time" would not)
		_, fresh := verifName([]int{2})
		l.Labels[0] = fresh
		b2 = append([]byte(nil), b1...)
	}
	names2, st2 := refNames(b2)
	target := &l
	var cp Labels
	if copyFirst == 1 {
		cp = l
		target = &cp
	}
	err2 := target.FromBytes(b2)
	if st2 == refUndefined {
		verifReach("undefined-by-rfc")
		verifReach("end")
		return
	}
	verifAssert((err2 == nil) == (st2 == refOK), "accept-iff-rfc-wellformed")
	if copyFirst == 1 {
		// decoding into a value copy leaves the first object as it was (what an object holds after
		// a FAILED decoding into itself is not specified anywhere: nothing is asserted about it)
		verifAssert(len(l.Labels) == len(all), "decoding-into-a-copy-leaves-the-names")
		verifAssert(verifSame(l.ToBytes(), b1), "decoding-into-a-copy-leaves-the-encoding")
	}
	if err2 != nil && st2 == refReject {
		// whatever the object holds after a decoding that failed, it holds it consistently: its
		// encoding is an encoding of the names it lists (here: names the harness can read back)
		enc := target.ToBytes()
		hn, hst := refNames(enc)
		verifAssert(hst == refOK && len(hn) == len(target.Labels), "after-a-failed-decoding-the-encoding-still-agrees-with-the-names")
		if hst == refOK && len(hn) == len(target.Labels) {
			for i := range hn {
				verifAssert(verifSame([]byte(target.Labels[i]), refJoin(hn[i])), "after-a-failed-decoding-the-encoding-still-agrees-with-the-names")
			}
		}
	}
	if err2 == nil && st2 == refOK {
		verifAssert(len(target.Labels) == len(names2), "same-number-of-names")
		if len(target.Labels) == len(names2) {
			for i := range names2 {
				verifAssert(verifSame([]byte(target.Labels[i]), refJoin(names2[i])), "name-as-rfc-reads-it")
			}
		}
		verifAssert(verifSame(target.ToBytes(), b2), "unmodified-reencodes-to-original")
	}
	verifReach("end")
}
