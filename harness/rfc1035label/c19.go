//go:build verif

package rfc1035label

// C19: domain-name label encoding round-trips and decoding follows RFC 1035 §3.1/§4.1.4
// (single-level compression pointers) and RFC 4704 §4.2 (trailing partial name).

const (
	refOK = iota
	refReject
	refUndefined // the RFCs do not assign a meaning: no claim is made
)

func verifSame(a, b []byte) bool {
	if len(a) != len(b) {
		return false
	}
	var d byte
	for i := range a {
		d |= a[i] ^ b[i]
	}
	return d == 0
}

// refNames is the reference reading of a list of domain names; a name is a list of labels.
func refNames(b []byte) (names [][][]byte, status int) {
	n := len(b)
	p := 0
	var cur [][]byte
	// RFC 1035 §2.3.4: a name is at most 255 octets on the wire (one length octet per label plus
	// the terminating zero), however its labels are reached.
	tooLong := func() bool {
		w := 1
		for _, lab := range cur {
			w += 1 + len(lab)
		}
		return w > 255
	}
	for {
		if p >= n {
			if len(cur) > 0 {
				names = append(names, cur) // RFC 4704: partial name without terminator
			}
			return names, refOK
		}
		l := int(b[p])
		switch {
		case l == 0:
			names = append(names, cur)
			cur = nil
			p++
		case l&0xc0 == 0xc0:
			if p+1 >= n {
				return nil, refReject // truncated pointer
			}
			t := (l&0x3f)<<8 | int(b[p+1])
			if t >= p {
				return nil, refUndefined // forward or self pointer
			}
			// follow the pointer: labels up to the terminating zero
			q := t
			for {
				if q >= n {
					return nil, refUndefined // target name runs off the end of the data
				}
				ll := int(b[q])
				if ll == 0 {
					break
				}
				if ll&0xc0 == 0xc0 {
					return nil, refReject // nested pointer: not single-level
				}
				if ll > 63 {
					return nil, refUndefined
				}
				if q+1+ll > n {
					return nil, refReject // truncated label
				}
				cur = append(cur, b[q+1:q+1+ll])
				if tooLong() {
					return nil, refReject
				}
				q += 1 + ll
			}
			names = append(names, cur)
			cur = nil
			p += 2
		case l <= 63:
			if p+1+l > n {
				return nil, refReject
			}
			cur = append(cur, b[p+1:p+1+l])
			if tooLong() {
				return nil, refReject
			}
			p += 1 + l
		default:
			return nil, refUndefined // 64..191: reserved label types
		}
	}
}

// refJoin is the library's representation of a name: labels joined with '.'.
func refJoin(labels [][]byte) []byte {
	var j []byte
	for i, l := range labels {
		if i > 0 {
			j = append(j, '.')
		}
		j = append(j, l...)
	}
	return j
}

// refEncode is RFC 1035 §3.1 without compression.
func refEncode(names [][][]byte) []byte {
	var out []byte
	for _, name := range names {
		for _, lab := range name {
			out = append(out, byte(len(lab)))
			out = append(out, lab...)
		}
		out = append(out, 0)
	}
	return out
}

// VerifC19Decode: every byte string of length n.
func VerifC19Decode(n int) {
	b := verifBytes("b", n)
	l, err := FromBytes(b)
	names, st := refNames(b)
	if st == refUndefined {
		verifReach("undefined-by-rfc")
		verifReach("end")
		return
	}
	verifAssert((err == nil) == (st == refOK), "accept-iff-rfc-wellformed")
	verifObserveInt("accepted", b2i(err == nil))
	if err == nil && st == refOK {
		verifAssert(len(l.Labels) == len(names), "same-number-of-names")
		if len(l.Labels) == len(names) {
			for i := range names {
				verifAssert(verifSame([]byte(l.Labels[i]), refJoin(names[i])), "name-as-rfc-reads-it")
				verifObserve("name", []byte(l.Labels[i]))
			}
		}
		// unmodified label sets re-encode to exactly the parsed bytes
		verifAssert(verifSame(l.ToBytes(), b), "unmodified-reencodes-to-original")
	}
	verifReach("end")
}

func b2i(b bool) int {
	if b {
		return 1
	}
	return 0
}

// verifName builds a name of k labels with the given label lengths (symbolic non-dot bytes).
func verifName(lens []int) (labels [][]byte, joined string) {
	var j []byte
	for i, n := range lens {
		lab := verifBytes("lab", n)
		for _, c := range lab {
			verifAssume(c != '.')
		}
		if i > 0 {
			j = append(j, '.')
		}
		j = append(j, lab...)
		labels = append(labels, lab)
	}
	return labels, string(j)
}

// shape digits: each name is described by up to three label lengths; 0 = no such label.
func verifNames(shapes []int) (all [][][]byte, joined []string) {
	for _, s := range shapes {
		if s < 0 {
			continue
		}
		var lens []int
		for d := s; d > 0; d /= 100 {
			lens = append(lens, d%100)
		}
		labs, j := verifName(lens)
		all = append(all, labs)
		joined = append(joined, j)
	}
	return
}

// VerifC19RoundTrip: encode a list of valid names, decode, compare; also compare the
// emitted bytes with the RFC 1035 §3.1 encoding.
func VerifC19RoundTrip(s1, s2, s3, s4 int) {
	all, joined := verifNames([]int{s1, s2, s3, s4})
	l := NewLabels()
	l.Labels = append(l.Labels, joined...)
	enc := l.ToBytes()
	verifAssert(verifSame(enc, refEncode(all)), "encoding-is-rfc1035-3.1")
	verifObserve("encoded", enc)
	back, err := FromBytes(enc)
	verifAssert(err == nil, "decode-ok")
	if err != nil {
		return
	}
	verifAssert(len(back.Labels) == len(joined), "same-number-of-names")
	if len(back.Labels) == len(joined) {
		for i := range joined {
			verifAssert(verifSame([]byte(back.Labels[i]), []byte(joined[i])), "same-name")
		}
	}
	verifReach("end")
}

// VerifC19Edit: parse n symbolic bytes; apply one edit (kind 0 replace name idx, 1 append,
// 2 remove name idx) with a fresh one-label name of length m; the result must encode the
// edited names (or the original bytes if the edit changed nothing).
func VerifC19Edit(n, kind, idx, m int) {
	b := verifBytes("b", n)
	l, err := FromBytes(b)
	names, st := refNames(b)
	if err != nil || st != refOK || len(names) != len(l.Labels) {
		verifReach("end")
		return
	}
	if idx >= len(names) && kind != 1 {
		verifReach("end")
		return
	}
	// valid names: label bytes are not dots (the dotted form would be ambiguous)
	for _, nm := range names {
		for _, lab := range nm {
			for _, c := range lab {
				verifAssume(c != '.')
			}
		}
	}
	freshLabels, fresh := verifName([]int{m})
	edited := append([]string(nil), l.Labels...)
	want := append([][][]byte(nil), names...)
	switch kind {
	case 0:
		edited[idx] = fresh
		want[idx] = freshLabels
	case 1:
		edited = append(edited, fresh)
		want = append(want, freshLabels)
	default:
		edited = append(edited[:idx], edited[idx+1:]...)
		want = append(want[:idx:idx], want[idx+1:]...)
	}
	l.Labels = edited
	out := l.ToBytes()
	if kind == 0 && len(names[idx]) == 1 && len(names[idx][0]) == m {
		// the replacement may coincide with the old name: then nothing changed
		if verifSame(names[idx][0], freshLabels[0]) {
			verifAssert(verifSame(out, b), "unchanged-names-reencode-to-original")
			verifReach("end")
			return
		}
	}
	verifAssert(verifSame(out, refEncode(want)), "edited-names-are-encoded")
	verifReach("end")
}
