//go:build verif

package rfc1035label

// C09 (labels): decoding cost is bounded.  Sizes are measured in the executor's allocation model
// (bytes of backing arrays, strings, boxed values; append amortised by Go's growth policy).
//
// Claimed constants:
//   retained(decoded value)   <= 160*n + 64
//   allocated while decoding  <= 9000*n + 512 (following one 2-byte pointer re-builds a name of up to 127 labels by repeated concatenation: ~16 kB)
// (a 2-byte compression pointer may legitimately re-emit a name of up to 255 octets plus a
// string header, hence the three-digit factors; without RFC 1035's 255-octet limit on names the
// factor is unbounded).
const (
	verifC09RetainedPerByte = 160
	verifC09RetainedConst   = 64
	verifC09AllocPerByte    = 9000
	verifC09AllocConst      = 512
)

func verifC09Check(b []byte) {
	a0 := verifAllocBytes()
	l, err := FromBytes(b)
	a1 := verifAllocBytes()
	if err != nil {
		verifAssert(a1-a0 <= verifC09AllocPerByte*len(b)+verifC09AllocConst, "allocation-bounded-also-when-rejecting")
		verifReach("rejected")
		verifReach("end")
		return
	}
	for _, nm := range l.Labels {
		verifAssert(len(nm) <= 255, "no-name-longer-than-255-octets")
	}
	verifAssert(verifRetained(l.Labels) <= verifC09RetainedPerByte*len(b)+verifC09RetainedConst, "decoded-value-is-a-fixed-multiple-of-the-input")
	verifAssert(a1-a0 <= verifC09AllocPerByte*len(b)+verifC09AllocConst, "allocation-is-a-fixed-multiple-of-the-input")
	verifReach("accepted")
	verifReach("end")
}

// VerifC09Exhaustive: every byte string of n symbolic bytes.
func VerifC09Exhaustive(n int) {
	verifC09Check(verifBytes("b", n))
}

// VerifC09PointerFan: a name of nl labels of ll symbolic bytes each, terminated, followed by k
// compression pointers to offset 0 (the adversarial "compression-pointer fan").
func VerifC09PointerFan(nl, ll, k int) {
	var b []byte
	for i := 0; i < nl; i++ {
		b = append(b, byte(ll))
		b = append(b, verifBytes("lab", ll)...)
	}
	b = append(b, 0)
	for i := 0; i < k; i++ {
		b = append(b, 0xc0, 0x00)
	}
	verifC09Check(b)
}

// VerifC09Chain: an unterminated chain of nl labels of ll symbolic bytes (RFC 4704 partial name),
// optionally (k > 0) followed by k pointers into the middle of the chain.
func VerifC09Chain(nl, ll, k int) {
	var b []byte
	for i := 0; i < nl; i++ {
		b = append(b, byte(ll))
		b = append(b, verifBytes("lab", ll)...)
	}
	for i := 0; i < k; i++ {
		b = append(b, 0xc0, byte(1+ll))
	}
	if k == 0 {
		// without pointers this family has a much tighter bound: ONE name is being built and must
		// be given up as soon as it exceeds 255 octets, so the work does not grow with the
		// input at all beyond reading it (a decoder that first built the whole over-long name and
		// only then measured it would be quadratic in the number of labels)
		a0 := verifAllocBytes()
		_, _ = FromBytes(b)
		verifAssert(verifAllocBytes()-a0 <= 64*len(b)+70000, "an-overlong-name-is-given-up-at-255-octets")
	}
	verifC09Check(b)
}

// verifShifted builds the "shifted reading" family: `units` copies of [01 x 00] (read in sequence:
// many one-octet names), then [01 00 00], then k compression pointers to one explored target offset
// 0..5 — a target inside a unit reads the same bytes as one chain of labels that never met a
// terminator in sequence, so the name limit must hold along the pointer as well.
func verifShifted(units, x, k int) []byte {
	var b []byte
	for i := 0; i < units; i++ {
		b = append(b, 1, byte(x), 0)
	}
	b = append(b, 1, 0, 0)
	t := verifChoice("target", 6)
	for i := 0; i < k; i++ {
		b = append(b, 0xc0, byte(t))
	}
	return b
}

// VerifC09Shifted: cost bounds on the shifted-reading family.
func VerifC09Shifted(units, x, k int) {
	verifC09Check(verifShifted(units, x, k))
}
