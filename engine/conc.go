package main

// Goroutines (as coroutines: exactly one runs at a time), channels, select,
// mutexes, wait groups and virtual time.

import (
	"fmt"
	"go/types"

	"golang.org/x/tools/go/ssa"
)

type ChanObj struct {
	ID          int
	Buf         []Value
	Cap         int
	Closed      bool
	recvWaiting int
}

type ChanV struct{ C *ChanObj }

type G struct {
	id       int
	wake     chan struct{}
	finished bool
	started  bool
	ready    func() bool
	note     string
	vc       vclock
}

type killSentinel struct{}

type Event struct {
	at   *Term // absolute virtual instant, 64-bit ns
	fire func()
	note string
}

// Env is the concurrency / time state of one path.
type Env struct {
	gs            []*G
	cur           *G
	abort         *pathEnd
	killing       bool
	ack           chan struct{}
	now           *Term
	events        []*Event
	locks         map[string]bool
	pools         map[string][]Value
	poolPriv      map[string]Value
	wgs           map[string]int
	explore       bool // explore scheduling choices
	exploreAtomic bool // ... also at the end of atomic operations
	switches      int
}

func (e *Exec) envInit() {
	if e.env != nil {
		return
	}
	g0 := &G{id: 0, wake: make(chan struct{}), started: true, note: "main"}
	e.env = &Env{gs: []*G{g0}, cur: g0, ack: make(chan struct{}), now: e.tb.Const(64, 0), locks: map[string]bool{}, wgs: map[string]int{}, pools: map[string][]Value{}, poolPriv: map[string]Value{}}
}

func (e *Exec) runMain(fn *ssa.Function, args []Value) (Value, *GoPanic) {
	e.envInit()
	return e.callFn(fn, args, nil)
}

func (e *Exec) spawn(d deferred) {
	e.envInit()
	env := e.env
	g := &G{id: len(env.gs), wake: make(chan struct{})}
	env.gs = append(env.gs, g)
	e.raceFork(g)
	go func() {
		<-g.wake
		g.started = true
		defer func() {
			r := recover()
			g.finished = true
			if _, killed := r.(killSentinel); killed || env.killing {
				env.ack <- struct{}{}
				return
			}
			if r != nil {
				pe, ok := r.(pathEnd)
				if !ok {
					pe = pathEnd{kind: "internal", msg: fmt.Sprint(r)}
				}
				if env.abort == nil {
					env.abort = &pe
				}
				// hand control back to the main goroutine, which aborts the path
				env.cur = env.gs[0]
				env.gs[0].wake <- struct{}{}
				return
			}
			// normal termination: give the baton to somebody else
			e.schedule(g)
		}()
		if env.killing {
			panic(killSentinel{})
		}
		_, pan := e.invoke(d)
		if pan != nil {
			m := e.model
			if m == nil {
				if res, mm := e.sat(e.tb.T, true); res == Sat {
					m = mm
				}
			}
			if m != nil {
				e.w.reportViolation(e, "panic:"+pan.Pos, "panic", "in goroutine: "+pan.Msg+" at "+pan.Pos, m)
			}
			panic(pathEnd{kind: "stop", msg: "goroutine panicked"})
		}
	}()
}

// killGoroutines tears down all coroutines of the path.
func (e *Exec) killGoroutines() {
	env := e.env
	if env == nil {
		return
	}
	env.killing = true
	for _, g := range env.gs[1:] {
		if !g.finished {
			g.wake <- struct{}{}
			<-env.ack
		}
	}
}

// waitUntil blocks the current goroutine until ready() holds.
func (e *Exec) waitUntil(ready func() bool, note string) {
	e.envInit()
	me := e.env.cur
	for !ready() {
		me.ready = ready
		me.note = note
		e.schedule(me)
	}
	me.ready = nil
}

// yield lets other runnable goroutines run (a scheduling point).
func (e *Exec) yield() {
	if e.env == nil || len(e.env.gs) < 2 {
		return
	}
	me := e.env.cur
	me.ready = func() bool { return true }
	e.schedule(me)
	me.ready = nil
}

func (e *Exec) runnable(g *G) bool {
	return !g.finished && (g.ready == nil || g.ready())
}

// schedule transfers control away from me (which is blocked, yielding or finished)
// and returns when me is scheduled again.
func (e *Exec) schedule(me *G) {
	env := e.env
	for {
		var cands []*G
		// round robin order starting after me
		n := len(env.gs)
		for k := 1; k <= n; k++ {
			g := env.gs[(me.id+k)%n]
			if g == me && me.finished {
				continue
			}
			if e.runnable(g) {
				cands = append(cands, g)
			}
		}
		if len(cands) == 0 {
			if e.fireNextEvent() {
				continue
			}
			// nothing can ever run again
			e.deadlock(me)
		}
		pick := cands[0]
		if env.explore && len(cands) > 1 {
			pick = cands[e.choose(len(cands))]
		}
		if pick == me {
			return
		}
		env.switches++
		env.cur = pick
		pick.wake <- struct{}{}
		if me.finished {
			return
		}
		<-me.wake
		if env.killing {
			panic(killSentinel{})
		}
		if env.abort != nil && me.id == 0 {
			panic(*env.abort)
		}
		return
	}
}

func (e *Exec) deadlock(me *G) {
	var desc string
	for _, g := range e.env.gs {
		if !g.finished {
			desc += fmt.Sprintf(" g%d:%s", g.id, g.note)
		}
	}
	if e.env.gs[0].finished {
		panic(pathEnd{kind: "stop", msg: "main finished"})
	}
	m := e.model
	if m == nil {
		if res, mm := e.sat(e.tb.T, true); res == Sat {
			m = mm
		}
	}
	if m != nil {
		if len(desc) > 400 {
			desc = desc[:400] + " …"
		}
		e.w.reportViolation(e, "deadlock", "deadlock", "all goroutines blocked and no pending event:"+desc, m)
	} else {
		e.w.noteInconclusive("deadlock path without model")
	}
	pe := pathEnd{kind: "stop", msg: "deadlock"}
	if me.id != 0 {
		panic(pe)
	}
	panic(pe)
}

// chooseAmong forks over the alternatives whose condition is feasible and
// assumes the chosen condition.
func (e *Exec) chooseAmong(conds []*Term) int {
	if len(conds) == 1 {
		return 0
	}
	if d, ok := e.nextPrefix(); ok {
		e.record(d)
		e.addPC(e.subst(conds[d.Choice]))
		return d.Choice
	}
	var feas []int
	for i, c := range conds {
		c = e.subst(c)
		if c.IsFalse() {
			continue
		}
		if c.IsTrue() {
			feas = append(feas, i)
			continue
		}
		if r, _ := e.sat(c, false); r != Unsat {
			feas = append(feas, i)
		}
	}
	if len(feas) == 0 {
		panic(pathEnd{kind: "vacuous", msg: "no feasible alternative"})
	}
	e.nontriv = true
	for _, i := range feas[1:] {
		e.pushAlt(Decision{Choice: i})
	}
	e.record(Decision{Choice: feas[0]})
	e.model = nil
	e.addPC(e.subst(conds[feas[0]]))
	return feas[0]
}

// fireNextEvent advances virtual time to the earliest pending event and runs it.
func (e *Exec) fireNextEvent() bool {
	env := e.env
	if len(env.events) == 0 {
		return false
	}
	tb := e.tb
	conds := make([]*Term, len(env.events))
	for i, ev := range env.events {
		c := tb.T
		for j, o := range env.events {
			if i != j {
				c = tb.And(c, tb.Sle(ev.at, o.at))
			}
		}
		conds[i] = c
	}
	i := e.chooseAmong(conds)
	ev := env.events[i]
	// ties between events are legal (both orders are explored), but a model WITH a tie cannot be
	// replayed deterministically: remember the strict orderings as preferences for model selection
	for j, o := range env.events {
		if j != i {
			e.strictPrefs = append(e.strictPrefs, tb.Slt(ev.at, o.at))
		}
	}
	env.events = append(append([]*Event(nil), env.events[:i]...), env.events[i+1:]...)
	env.now = tb.Ite(tb.Slt(env.now, ev.at), ev.at, env.now)
	ev.fire()
	return true
}

// ---- channels ----

func (e *Exec) makeChan(n int) *ChanV {
	e.objN++
	return &ChanV{C: &ChanObj{ID: e.objN, Cap: n}}
}

func (c *ChanObj) sendReady() bool {
	return c.Closed || len(c.Buf) < c.Cap || (c.Cap == 0 && c.recvWaiting > 0 && len(c.Buf) == 0)
}
func (c *ChanObj) recvReady() bool { return len(c.Buf) > 0 || c.Closed }

func (e *Exec) chanSend(ch *ChanV, v Value) {
	if ch.C == nil {
		e.waitUntil(func() bool { return false }, "send on nil channel")
	}
	c := ch.C
	e.waitUntil(c.sendReady, "chan send")
	if c.Closed {
		panic(unsupported("send on closed channel"))
	}
	e.raceRelease(fmt.Sprintf("chan%d", c.ID))
	c.Buf = append(c.Buf, copyVal(v))
}

func (e *Exec) chanRecv(ch *ChanV, commaOk bool, t types.Type) (Value, *GoPanic) {
	if ch.C == nil {
		e.waitUntil(func() bool { return false }, "receive from nil channel")
	}
	c := ch.C
	c.recvWaiting++
	e.waitUntil(c.recvReady, "chan receive")
	c.recvWaiting--
	e.raceAcquire(fmt.Sprintf("chan%d", c.ID))
	var v Value
	ok := true
	if len(c.Buf) > 0 {
		v = c.Buf[0]
		c.Buf = c.Buf[1:]
	} else {
		ok = false
		if commaOk {
			v = e.zero(t.(*types.Tuple).At(0).Type())
		} else {
			v = e.zero(t)
		}
	}
	if commaOk {
		return &TupleV{E: []Value{v, e.tb.Bool(ok)}}, nil
	}
	return v, nil
}

func (e *Exec) chanClose(ch *ChanV) *GoPanic {
	if ch.C == nil {
		return &GoPanic{Msg: "close of nil channel"}
	}
	if ch.C.Closed {
		return &GoPanic{Msg: "close of closed channel"}
	}
	e.raceRelease(fmt.Sprintf("chan%d", ch.C.ID))
	ch.C.Closed = true
	return nil
}

func (e *Exec) selectStmt(fr *Frame, x *ssa.Select) (Value, *GoPanic) {
	tb := e.tb
	type sc struct {
		c    *ChanObj
		send bool
		val  Value
	}
	cases := make([]sc, len(x.States))
	for i, st := range x.States {
		cases[i] = sc{c: e.get(fr, st.Chan).(*ChanV).C, send: st.Dir == types.SendOnly}
		if cases[i].send {
			cases[i].val = e.get(fr, st.Send)
		}
	}
	readyList := func() []int {
		var r []int
		for i, c := range cases {
			if c.c == nil {
				continue
			}
			if c.send && c.c.sendReady() || !c.send && c.c.recvReady() {
				r = append(r, i)
			}
		}
		return r
	}
	tup := x.Type().(*types.Tuple)
	result := func(idx int, recvOK bool, recvVal Value, recvIdx int) Value {
		el := make([]Value, tup.Len())
		el[0] = tb.Const(64, uint64(int64(idx)))
		el[1] = tb.Bool(recvOK)
		k := 2
		for i, st := range x.States {
			if st.Dir == types.RecvOnly {
				if i == recvIdx && recvVal != nil {
					el[k] = recvVal
				} else {
					el[k] = e.zero(tup.At(k).Type())
				}
				k++
			}
		}
		return &TupleV{E: el}
	}
	rl := readyList()
	if len(rl) == 0 {
		if !x.Blocking {
			return result(-1, false, nil, -1), nil
		}
		for _, c := range cases {
			if c.c != nil && !c.send {
				c.c.recvWaiting++
			}
		}
		e.waitUntil(func() bool { return len(readyList()) > 0 }, "select")
		for _, c := range cases {
			if c.c != nil && !c.send {
				c.c.recvWaiting--
			}
		}
		rl = readyList()
	}
	i := rl[0]
	if len(rl) > 1 {
		i = rl[e.choose(len(rl))]
	}
	c := cases[i]
	if c.send {
		if c.c.Closed {
			return nil, e.goPanic(fr, x, "send on closed channel")
		}
		e.raceRelease(fmt.Sprintf("chan%d", c.c.ID))
		c.c.Buf = append(c.c.Buf, copyVal(c.val))
		return result(i, false, nil, -1), nil
	}
	e.raceAcquire(fmt.Sprintf("chan%d", c.c.ID))
	if len(c.c.Buf) > 0 {
		v := c.c.Buf[0]
		c.c.Buf = c.c.Buf[1:]
		return result(i, true, v, i), nil
	}
	return result(i, false, nil, i), nil
}

// ---- sync ----

func syncKey(p *Ptr) string { return fmt.Sprintf("%d/%v", p.Obj.ID, p.Path) }

func mutexLock(e *Exec, fn *ssa.Function, a []Value) (Value, *GoPanic) {
	e.envInit()
	k := syncKey(a[0].(*Ptr))
	e.waitUntil(func() bool { return !e.env.locks[k] }, "mutex lock")
	e.env.locks[k] = true
	e.raceAcquire("mu" + k)
	return nil, nil
}

func mutexUnlock(e *Exec, fn *ssa.Function, a []Value) (Value, *GoPanic) {
	e.envInit()
	k := syncKey(a[0].(*Ptr))
	if !e.env.locks[k] {
		return nil, &GoPanic{Msg: "sync: unlock of unlocked mutex"}
	}
	e.raceRelease("mu" + k)
	e.env.locks[k] = false
	if e.env.explore {
		e.yield()
	}
	return nil, nil
}

func wgAdd(e *Exec, fn *ssa.Function, a []Value) (Value, *GoPanic) {
	e.envInit()
	k := syncKey(a[0].(*Ptr))
	e.env.wgs[k] += e.argInt(a[1])
	if e.env.wgs[k] < 0 {
		return nil, &GoPanic{Msg: "sync: negative WaitGroup counter"}
	}
	return nil, nil
}

func wgDone(e *Exec, fn *ssa.Function, a []Value) (Value, *GoPanic) {
	e.envInit()
	k := syncKey(a[0].(*Ptr))
	e.raceRelease("wg" + k)
	e.env.wgs[k]--
	if e.env.wgs[k] < 0 {
		return nil, &GoPanic{Msg: "sync: negative WaitGroup counter"}
	}
	return nil, nil
}

func wgWait(e *Exec, fn *ssa.Function, a []Value) (Value, *GoPanic) {
	e.envInit()
	k := syncKey(a[0].(*Ptr))
	e.waitUntil(func() bool { return e.env.wgs[k] == 0 }, "WaitGroup.Wait")
	e.raceAcquire("wg" + k)
	return nil, nil
}

// ---- time ----

func (e *Exec) addEvent(at *Term, note string, fire func()) {
	e.envInit()
	e.env.events = append(e.env.events, &Event{at: at, fire: fire, note: note})
}

func timeAfter(e *Exec, fn *ssa.Function, a []Value) (Value, *GoPanic) {
	e.envInit()
	d := a[0].(*Term)
	ch := e.makeChan(1)
	at := e.tb.Add(e.env.now, d)
	tt := fn.Signature.Results().At(0).Type().Underlying().(*types.Chan).Elem()
	e.addEvent(at, "timer", func() {
		ch.C.Buf = append(ch.C.Buf, e.zero(tt))
	})
	return ch, nil
}

func timeNow(e *Exec, fn *ssa.Function, a []Value) (Value, *GoPanic) {
	e.envInit()
	// wall = 0, ext = virtual ns, loc = nil
	st := e.zero(fn.Signature.Results().At(0).Type()).(*StructV)
	st.F[1] = e.env.now
	return st, nil
}

func timeSince(e *Exec, fn *ssa.Function, a []Value) (Value, *GoPanic) {
	e.envInit()
	st := a[0].(*StructV)
	return e.tb.Sub(e.env.now, st.F[1].(*Term)), nil
}
