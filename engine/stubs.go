package main

// Intrinsics (verif*), standard-library stubs and environment models.

import (
	"fmt"
	"go/token"
	"go/types"
	"os"
	"strconv"
	"strings"

	"golang.org/x/tools/go/ssa"
)

type handler func(e *Exec, fn *ssa.Function, args []Value) (Value, *GoPanic)

func (e *Exec) concBytes(b ...byte) Value {
	s := e.newSlice(types.Typ[types.Uint8], len(b), len(b))
	arr := sliceArr(s)
	for i, x := range b {
		arr.E[i] = e.tb.Const(8, uint64(x))
	}
	return s
}

func v4in6(a, b, c, d byte) []byte {
	return []byte{0, 0, 0, 0, 0, 0, 0, 0, 0, 0, 0xff, 0xff, a, b, c, d}
}

var stdGlobalInit = map[string]func(e *Exec) Value{
	"net.IPv4bcast":       func(e *Exec) Value { return e.concBytes(v4in6(255, 255, 255, 255)...) },
	"net.IPv4allsys":      func(e *Exec) Value { return e.concBytes(v4in6(224, 0, 0, 1)...) },
	"net.IPv4allrouter":   func(e *Exec) Value { return e.concBytes(v4in6(224, 0, 0, 2)...) },
	"net.IPv4zero":        func(e *Exec) Value { return e.concBytes(v4in6(0, 0, 0, 0)...) },
	"net.IPv6zero":        func(e *Exec) Value { return e.concBytes(make([]byte, 16)...) },
	"net.IPv6unspecified": func(e *Exec) Value { return e.concBytes(make([]byte, 16)...) },
	"net.IPv6loopback":    func(e *Exec) Value { return e.concBytes(0, 0, 0, 0, 0, 0, 0, 0, 0, 0, 0, 0, 0, 0, 0, 1) },
	"net.v4InV6Prefix":    func(e *Exec) Value { return e.concBytes(0, 0, 0, 0, 0, 0, 0, 0, 0, 0, 0xff, 0xff) },
	"net.classAMask":      func(e *Exec) Value { return e.concBytes(255, 0, 0, 0) },
	"net.classBMask":      func(e *Exec) Value { return e.concBytes(255, 255, 0, 0) },
	"net.classCMask":      func(e *Exec) Value { return e.concBytes(255, 255, 255, 0) },
}

func (e *Exec) argStr(v Value) string {
	s, ok := strConcrete(v.(*StrV))
	if !ok {
		panic(unsupported("intrinsic name/label must be a concrete string"))
	}
	return s
}

func (e *Exec) argInt(v Value) int {
	t := e.subst(v.(*Term))
	if !t.IsConst() {
		return int(int64(e.concretize(t)))
	}
	return int(signExt(t.V, t.W))
}

// newError makes a distinct non-nil error value (a *errors.errorString) with an opaque message.
func (e *Exec) newError(note string) Value {
	ep := e.w.pool.P.pkgs["errors"]
	if ep == nil {
		panic(unsupported("errors package not loaded"))
	}
	t := ep.Type("errorString").Type()
	o := e.newObj(&StructV{F: []Value{e.opaqueStr()}}, "error:"+note)
	return &IfaceV{T: types.NewPointer(t), V: &Ptr{Obj: o}}
}

func (w *Worker) intercept(e *Exec, fn *ssa.Function) handler {
	name := fn.Name()
	if strings.HasPrefix(name, "verif") && fn.Pkg != nil {
		if h, ok := intrinsics[name]; ok {
			return h
		}
	}
	if fn.Pkg == nil && fn.Signature.Recv() == nil {
		// synthetic wrappers etc: interpret
		return nil
	}
	full := fn.String()
	if h, ok := stubs[full]; ok {
		return h
	}
	// String()/Error() of standard-library types: formatting is outside the model
	if fn.Pkg != nil && fn.Signature.Recv() != nil && (name == "String" || name == "GoString") && !strings.HasPrefix(fn.Pkg.Pkg.Path(), modPath) && !strings.HasPrefix(fn.Pkg.Pkg.Path(), "github.com/u-root/uio") {
		if r := fn.Signature.Results(); r.Len() == 1 && isString(r.At(0).Type()) && fn.Signature.Params().Len() == 0 {
			return func(e *Exec, fn *ssa.Function, a []Value) (Value, *GoPanic) { return e.opaqueStr(), nil }
		}
	}
	// strings.Builder / bytes.Buffer used for pretty-printing: content not modelled
	if strings.HasPrefix(full, "(*strings.Builder).") || strings.HasPrefix(full, "(*bytes.Buffer).") {
		return func(e *Exec, fn *ssa.Function, a []Value) (Value, *GoPanic) {
			res := fn.Signature.Results()
			switch res.Len() {
			case 0:
				return nil, nil
			case 1:
				if isString(res.At(0).Type()) {
					return e.opaqueStr(), nil
				}
				if fn.Name() == "Len" || fn.Name() == "Cap" {
					return e.tb.ZExt(e.fresh("opaque.len", 16), 64), nil
				}
				return e.zero(res.At(0).Type()), nil
			}
			return e.zero(res), nil
		}
	}
	if fn.Pkg != nil && (fn.Pkg.Pkg.Path() == "strconv" || fn.Pkg.Pkg.Path() == "encoding/hex") && fn.Signature.Results().Len() == 1 && isString(fn.Signature.Results().At(0).Type()) {
		return func(e *Exec, fn *ssa.Function, a []Value) (Value, *GoPanic) { return e.opaqueStr(), nil }
	}
	if name == "init" && fn.Pkg != nil && fn.Signature.Recv() == nil && fn.Parent() == nil {
		if !allowInit(fn.Pkg.Pkg.Path()) {
			return func(e *Exec, fn *ssa.Function, args []Value) (Value, *GoPanic) { return nil, nil }
		}
		w.initDone[fn.Pkg] = true
		if e.stack != nil && len(e.stack) > 0 && !strings.HasPrefix(fn.Pkg.Pkg.Path(), modPath) {
			// dependency initialiser: tolerate what the executor cannot run
			return func(e *Exec, fn *ssa.Function, args []Value) (rv Value, rp *GoPanic) {
				defer func() {
					if r := recover(); r != nil {
						fmt.Fprintf(os.Stderr, "warning: init of %s incomplete: %v\n", fn.Pkg.Pkg.Path(), r)
						rv, rp = nil, nil
					}
				}()
				if fn.Blocks == nil {
					return nil, nil
				}
				fr := &Frame{fn: fn, regs: map[ssa.Value]Value{}}
				return e.run(fr, fn.Blocks[0])
			}
		}
	}
	return nil
}

var intrinsics map[string]handler
var stubs map[string]handler

func init() {
	intrinsics = map[string]handler{
		"verifU8":  func(e *Exec, fn *ssa.Function, a []Value) (Value, *GoPanic) { return e.fresh(e.argStr(a[0]), 8), nil },
		"verifU16": func(e *Exec, fn *ssa.Function, a []Value) (Value, *GoPanic) { return e.fresh(e.argStr(a[0]), 16), nil },
		"verifU32": func(e *Exec, fn *ssa.Function, a []Value) (Value, *GoPanic) { return e.fresh(e.argStr(a[0]), 32), nil },
		"verifU64": func(e *Exec, fn *ssa.Function, a []Value) (Value, *GoPanic) { return e.fresh(e.argStr(a[0]), 64), nil },
		"verifBool": func(e *Exec, fn *ssa.Function, a []Value) (Value, *GoPanic) {
			return e.fresh(e.argStr(a[0]), 0), nil
		},
		"verifBytes": func(e *Exec, fn *ssa.Function, a []Value) (Value, *GoPanic) {
			name := e.argStr(a[0])
			n := e.argInt(a[1])
			s := e.newSlice(types.Typ[types.Uint8], n, n)
			if n > 0 {
				arr := sliceArr(s)
				for i := 0; i < n; i++ {
					arr.E[i] = e.fresh(name, 8)
				}
			}
			return s, nil
		},
		"verifHavoc": func(e *Exec, fn *ssa.Function, a []Value) (Value, *GoPanic) {
			name := e.argStr(a[0])
			s := a[1].(*SliceV)
			if s.Len > 0 {
				arr := sliceArr(s)
				for i := 0; i < s.Len; i++ {
					arr.E[s.Off+i] = e.fresh(name, 8)
				}
			}
			return nil, nil
		},
		"verifAssume": func(e *Exec, fn *ssa.Function, a []Value) (Value, *GoPanic) {
			e.assume(a[0].(*Term))
			return nil, nil
		},
		"verifAssert": func(e *Exec, fn *ssa.Function, a []Value) (Value, *GoPanic) {
			e.check(a[0].(*Term), e.argStr(a[1]), "assert", "")
			return nil, nil
		},
		"verifReach": func(e *Exec, fn *ssa.Function, a []Value) (Value, *GoPanic) {
			e.settleAssumptions()
			e.reached[e.argStr(a[0])] = true
			return nil, nil
		},
		"verifChoice": func(e *Exec, fn *ssa.Function, a []Value) (Value, *GoPanic) {
			name := e.argStr(a[0])
			n := e.argInt(a[1])
			w := 8
			if n > 255 {
				w = 16
			}
			if n > 65535 {
				panic(unsupported("verifChoice with more than 65535 alternatives"))
			}
			v := e.fresh(name, w)
			e.assume(e.tb.Ult(v, e.tb.Const(w, uint64(n))))
			c := e.concretize(v)
			return e.tb.Const(64, c), nil
		},
		"verifConcretize": func(e *Exec, fn *ssa.Function, a []Value) (Value, *GoPanic) {
			t := a[0].(*Term)
			return e.tb.Const(t.W, e.concretize(t)), nil
		},
		"verifObserve": func(e *Exec, fn *ssa.Function, a []Value) (Value, *GoPanic) {
			label := e.argStr(a[0])
			var bs []*Term
			for _, v := range e.sliceVals(a[1]) {
				bs = append(bs, v.(*Term))
			}
			e.observes = append(e.observes, Observation{label, bs})
			return nil, nil
		},
		"verifObserveInt": func(e *Exec, fn *ssa.Function, a []Value) (Value, *GoPanic) {
			label := e.argStr(a[0])
			t := e.tb.Resize(a[1].(*Term), 64, true)
			var bs []*Term
			for i := 7; i >= 0; i-- {
				bs = append(bs, e.tb.Extract(t, i*8+7, i*8))
			}
			e.observes = append(e.observes, Observation{label, bs})
			return nil, nil
		},
		"verifMapOrder": func(e *Exec, fn *ssa.Function, a []Value) (Value, *GoPanic) {
			e.symMapOrd = a[0].(*Term).IsTrue()
			return nil, nil
		},
		"verifAliases": func(e *Exec, fn *ssa.Function, a []Value) (Value, *GoPanic) {
			x, y := a[0].(*SliceV), a[1].(*SliceV)
			if x.Base == nil || y.Base == nil || x.Cap == 0 || y.Cap == 0 {
				return e.tb.F, nil
			}
			if !samePtr(x.Base, y.Base) {
				return e.tb.F, nil
			}
			// same backing array: overlapping capacity windows
			return e.tb.Bool(x.Off < y.Off+y.Cap && y.Off < x.Off+x.Cap), nil
		},
		"verifAnd": func(e *Exec, fn *ssa.Function, a []Value) (Value, *GoPanic) {
			return e.tb.And(a[0].(*Term), a[1].(*Term)), nil
		},
		"verifOr": func(e *Exec, fn *ssa.Function, a []Value) (Value, *GoPanic) {
			return e.tb.Or(a[0].(*Term), a[1].(*Term)), nil
		},
		"verifAt": func(e *Exec, fn *ssa.Function, a []Value) (Value, *GoPanic) {
			e.envInit()
			at := e.tb.Resize(a[0].(*Term), 64, true)
			f := a[1]
			var regVC vclock
			if e.race != nil && e.race.on {
				g, vc := e.gvc()
				regVC = vjoin(vc, nil)
				g.tick()
			}
			e.addEvent(at, "harness event", func() {
				e.forkVC = regVC
				e.spawn(deferred{fn: f})
				e.forkVC = nil
			})
			return nil, nil
		},
		"verifNow": func(e *Exec, fn *ssa.Function, a []Value) (Value, *GoPanic) {
			e.envInit()
			return e.env.now, nil
		},
		"verifSettle": func(e *Exec, fn *ssa.Function, a []Value) (Value, *GoPanic) {
			e.envInit()
			for i := 0; i < 2*len(e.env.gs)+2; i++ {
				e.yield()
			}
			return nil, nil
		},
		"verifGoroutines": func(e *Exec, fn *ssa.Function, a []Value) (Value, *GoPanic) {
			e.envInit()
			n := 0
			for _, g := range e.env.gs[1:] {
				if !g.finished {
					n++
				}
			}
			return e.tb.Const(64, uint64(n)), nil
		},
		"verifRaceDetect": func(e *Exec, fn *ssa.Function, a []Value) (Value, *GoPanic) {
			e.envInit()
			if e.race == nil {
				e.race = &raceState{locs: map[string]*locState{}, syncVC: map[string]vclock{}}
			}
			e.race.on = a[0].(*Term).IsTrue()
			return nil, nil
		},
		"verifSchedule": func(e *Exec, fn *ssa.Function, a []Value) (Value, *GoPanic) {
			e.envInit()
			e.env.explore = a[0].(*Term).IsTrue()
			return nil, nil
		},
		"verifScheduleAtomic": func(e *Exec, fn *ssa.Function, a []Value) (Value, *GoPanic) {
			e.envInit()
			e.env.exploreAtomic = a[0].(*Term).IsTrue()
			return nil, nil
		},
		"verifOverride": func(e *Exec, fn *ssa.Function, a []Value) (Value, *GoPanic) {
			// replace a callee by its contract (assume-guarantee): the contract is proved by a separate harness
			name := e.argStr(a[0])
			iv := a[1].(*IfaceV)
			if e.overrides == nil {
				e.overrides = map[string]*FuncV{}
			}
			if iv.T == nil {
				delete(e.overrides, name)
			} else {
				e.overrides[name] = iv.V.(*FuncV)
			}
			return nil, nil
		},
		"verifRetained": func(e *Exec, fn *ssa.Function, a []Value) (Value, *GoPanic) {
			return e.tb.Const(64, uint64(e.retained(a[0], map[interface{}]bool{}))), nil
		},
		// verifShares(a, b): do the two values reach a common byte-slice backing array (overlapping
		// capacity windows)?  Strings are immutable and do not count.
		"verifShares": func(e *Exec, fn *ssa.Function, a []Value) (Value, *GoPanic) {
			var sa, sb []*SliceV
			seenA, seenB := map[interface{}]bool{}, map[interface{}]bool{}
			e.byteSlices(a[0], seenA, &sa)
			e.byteSlices(a[1], seenB, &sb)
			// a map reachable from both is shared mutable state as well
			for k := range seenA {
				if m, ok := k.(*MapObj); ok && seenB[m] {
					return e.tb.T, nil
				}
			}
			for _, x := range sa {
				for _, y := range sb {
					if x.Base == nil || y.Base == nil || x.Cap == 0 || y.Cap == 0 || !samePtr(x.Base, y.Base) {
						continue
					}
					if x.Off < y.Off+y.Cap && y.Off < x.Off+x.Cap {
						return e.tb.T, nil
					}
				}
			}
			return e.tb.F, nil
		},
		"verifAllocBytes": func(e *Exec, fn *ssa.Function, a []Value) (Value, *GoPanic) {
			return e.tb.Const(64, uint64(e.alloc)), nil
		},
		// verifStrDigest(s): the bytes of s, or nil when s is a formatted (opaque) string whose
		// content is not modelled.
		"verifStrDigest": func(e *Exec, fn *ssa.Function, a []Value) (Value, *GoPanic) {
			sv := a[0].(*StrV)
			bt := types.Typ[types.Uint8]
			if sv.Opaque {
				return &SliceV{}, nil
			}
			sl := e.newSlice(bt, len(sv.B), len(sv.B))
			arr := sliceArr(sl)
			for i, t := range sv.B {
				arr.E[i] = t
			}
			return sl, nil
		},
		"verifSteps": func(e *Exec, fn *ssa.Function, a []Value) (Value, *GoPanic) {
			return e.tb.Const(64, uint64(e.steps)), nil
		},
	}

	// formatted strings are opaque, but their length is bounded below by the format text plus the
	// strings their operands render to; that much is charged to the allocation model and carried
	// by the result (an error that wraps an error wraps its text too)
	opaqueErr := func(e *Exec, fn *ssa.Function, a []Value) (Value, *GoPanic) {
		saved := e.fmtLen
		e.fmtLen = 0
		e.fmtOperands(a)
		n := e.fmtLen
		e.fmtLen = saved
		e.alloc += int64(n)
		er := e.newError(fn.String())
		(*er.(*IfaceV).V.(*Ptr).Obj).V.(*StructV).F[0].(*StrV).Cost = n
		return er, nil
	}
	opaqueString := func(e *Exec, fn *ssa.Function, a []Value) (Value, *GoPanic) {
		saved := e.fmtLen
		e.fmtLen = 0
		e.fmtOperands(a)
		n := e.fmtLen
		e.fmtLen = saved
		e.alloc += int64(n)
		r := e.opaqueStr()
		r.Cost = n
		return r, nil
	}
	_ = 0
	stubs = map[string]handler{
		"fmt.Errorf":   opaqueErr,
		"fmt.Sprintf":  opaqueString,
		"fmt.Sprint":   opaqueString,
		"fmt.Sprintln": opaqueString,
		"fmt.Printf": func(e *Exec, fn *ssa.Function, a []Value) (Value, *GoPanic) {
			e.fmtOperands(a)
			return e.zero(fn.Signature.Results()), nil
		},
		"fmt.Println": func(e *Exec, fn *ssa.Function, a []Value) (Value, *GoPanic) {
			e.fmtOperands(a)
			return e.zero(fn.Signature.Results()), nil
		},
		"fmt.Fprintf": func(e *Exec, fn *ssa.Function, a []Value) (Value, *GoPanic) {
			e.fmtOperands(a[1:])
			return e.zero(fn.Signature.Results()), nil
		},
		"log.Printf":  func(e *Exec, fn *ssa.Function, a []Value) (Value, *GoPanic) { e.fmtOperands(a); return nil, nil },
		"log.Print":   func(e *Exec, fn *ssa.Function, a []Value) (Value, *GoPanic) { e.fmtOperands(a); return nil, nil },
		"log.Println": func(e *Exec, fn *ssa.Function, a []Value) (Value, *GoPanic) { e.fmtOperands(a); return nil, nil },
		"(*log.Logger).Printf": func(e *Exec, fn *ssa.Function, a []Value) (Value, *GoPanic) {
			e.fmtOperands(a[1:])
			return nil, nil
		},
		"(*log.Logger).Print":   func(e *Exec, fn *ssa.Function, a []Value) (Value, *GoPanic) { e.fmtOperands(a[1:]); return nil, nil },
		"(*log.Logger).Println": func(e *Exec, fn *ssa.Function, a []Value) (Value, *GoPanic) { e.fmtOperands(a[1:]); return nil, nil },
		"log.New": func(e *Exec, fn *ssa.Function, a []Value) (Value, *GoPanic) {
			return &Ptr{Obj: e.newObj(e.zero(fn.Signature.Results().At(0).Type().(*types.Pointer).Elem()), "log.Logger")}, nil
		},
		"strconv.Itoa": func(e *Exec, fn *ssa.Function, a []Value) (Value, *GoPanic) {
			t := e.subst(a[0].(*Term))
			if t.IsConst() {
				return e.concStr(strconv.FormatInt(int64(t.V), 10)), nil
			}
			return e.opaqueStr(), nil
		},
		"strconv.FormatInt":  opaqueString,
		"strconv.FormatUint": opaqueString,
		"strconv.Quote":      opaqueString,
		"sort.Ints":          sortInts,
		"sort.Strings":       sortStrings,
		"sort.Slice":         sortSlice,
		"sort.SliceStable":   sortSlice, // the insertion sort below is stable
		"sort.SliceIsSorted": sortSliceIsSorted,
		"strings.Index":      stringsIndex,
		"strings.IndexByte":  stringsIndexByte,
		"bytes.IndexByte":    bytesIndexByte,
		"strings.Contains": func(e *Exec, fn *ssa.Function, a []Value) (Value, *GoPanic) {
			v, pan := stringsIndex(e, fn, a)
			if pan != nil {
				return nil, pan
			}
			return e.tb.Sle(e.tb.Const(64, 0), v.(*Term)), nil
		},
		"strings.Replace":    stringsNative3("Replace"),
		"strings.ReplaceAll": stringsNative3("ReplaceAll"),
		"strings.Repeat":     stringsNative3("Repeat"),
		"strings.TrimSpace":  stringsNative3("TrimSpace"),
		"strings.Count": func(e *Exec, fn *ssa.Function, a []Value) (Value, *GoPanic) {
			x, y := a[0].(*StrV), a[1].(*StrV)
			cx, ok1 := strConcrete(x)
			cy, ok2 := strConcrete(y)
			if ok1 && ok2 {
				return e.tb.Const(64, uint64(strings.Count(cx, cy))), nil
			}
			return e.tb.Const(64, 0), nil
		},
		"strings.Split":     stringsSplit,
		"strings.Join":      stringsJoin,
		"strings.ToLower":   stringsMapASCII(false),
		"strings.ToUpper":   stringsMapASCII(true),
		"strings.TrimRight": stringsTrimRight,
		"strings.HasPrefix": func(e *Exec, fn *ssa.Function, a []Value) (Value, *GoPanic) {
			s, p := a[0].(*StrV), a[1].(*StrV)
			if s.Opaque || p.Opaque {
				panic(unsupported("HasPrefix on formatted string"))
			}
			if len(p.B) > len(s.B) {
				return e.tb.F, nil
			}
			return e.eqValue(&StrV{B: s.B[:len(p.B)]}, p), nil
		},
		"strings.HasSuffix": func(e *Exec, fn *ssa.Function, a []Value) (Value, *GoPanic) {
			s, p := a[0].(*StrV), a[1].(*StrV)
			if s.Opaque || p.Opaque {
				panic(unsupported("HasSuffix on formatted string"))
			}
			if len(p.B) > len(s.B) {
				return e.tb.F, nil
			}
			return e.eqValue(&StrV{B: s.B[len(s.B)-len(p.B):]}, p), nil
		},
		"bytes.Equal": func(e *Exec, fn *ssa.Function, a []Value) (Value, *GoPanic) {
			x, y := a[0].(*SliceV), a[1].(*SliceV)
			if x.Len != y.Len {
				return e.tb.F, nil
			}
			r := e.tb.T
			xs, ys := e.sliceVals(x), e.sliceVals(y)
			for i := range xs {
				r = e.tb.And(r, e.tb.Eq(xs[i].(*Term), ys[i].(*Term)))
			}
			return r, nil
		},
		"errors.Is": func(e *Exec, fn *ssa.Function, a []Value) (Value, *GoPanic) {
			err, target := a[0].(*IfaceV), a[1].(*IfaceV)
			if err.T == nil || target.T == nil {
				return e.tb.Bool(err.T == nil && target.T == nil), nil
			}
			if types.Identical(err.T, target.T) {
				if pa, ok := err.V.(*Ptr); ok {
					if pb, ok := target.V.(*Ptr); ok && samePtr(pa, pb) {
						return e.tb.T, nil
					}
				}
			}
			// wrapped errors from the fmt.Errorf stub carry no chain: report unknown precisely
			return e.tb.F, nil
		},
		"(*sync.Mutex).Lock":      mutexLock,
		"(*sync.Mutex).Unlock":    mutexUnlock,
		"(*sync.RWMutex).Lock":    mutexLock,
		"(*sync.RWMutex).Unlock":  mutexUnlock,
		"(*sync.RWMutex).RLock":   mutexLock,
		"(*sync.RWMutex).RUnlock": mutexUnlock,
		// sync.Pool as seen by one P of the runtime: Put fills the private slot if it is empty, else
		// pushes on the shared list; Get takes the private slot first, then the most recently shared
		// item, then calls New (the runtime may also drop items at a GC; not modelled)
		"(*sync.Pool).Put": func(e *Exec, fn *ssa.Function, a []Value) (Value, *GoPanic) {
			e.envInit()
			k := syncKey(a[0].(*Ptr))
			if iv, ok := a[1].(*IfaceV); ok && iv.T == nil {
				return nil, nil
			}
			if e.env.poolPriv[k] == nil {
				e.env.poolPriv[k] = a[1]
			} else {
				e.env.pools[k] = append(e.env.pools[k], a[1])
			}
			return nil, nil
		},
		"(*sync.Pool).Get": func(e *Exec, fn *ssa.Function, a []Value) (Value, *GoPanic) {
			e.envInit()
			pp := a[0].(*Ptr)
			k := syncKey(pp)
			if v := e.env.poolPriv[k]; v != nil {
				e.env.poolPriv[k] = nil
				return v, nil
			}
			if l := e.env.pools[k]; len(l) > 0 {
				v := l[len(l)-1]
				e.env.pools[k] = l[:len(l)-1]
				return v, nil
			}
			st := e.load(pp).(*StructV)
			newFn, _ := st.F[len(st.F)-1].(*FuncV) // the exported field New is the last one
			if newFn == nil || newFn.Fn == nil {
				return &IfaceV{}, nil
			}
			return e.invoke(deferred{fn: newFn})
		},
		"(*sync.WaitGroup).Add":  wgAdd,
		"(*sync.WaitGroup).Done": wgDone,
		"(*sync.WaitGroup).Wait": wgWait,
		"sync/atomic.CompareAndSwapUint32": func(e *Exec, fn *ssa.Function, a []Value) (Value, *GoPanic) {
			p := a[0].(*Ptr)
			old := e.atomicLoad(p).(*Term)
			eq := e.tb.Eq(old, a[1].(*Term))
			if e.branch(eq) {
				e.atomicStore(p, a[2])
				e.atomicYield()
				return e.tb.T, nil
			}
			e.atomicYield()
			return e.tb.F, nil
		},
		"sync/atomic.LoadUint32": func(e *Exec, fn *ssa.Function, a []Value) (Value, *GoPanic) {
			v := e.atomicLoad(a[0].(*Ptr))
			e.atomicYield()
			return v, nil
		},
		"sync/atomic.StoreUint32": func(e *Exec, fn *ssa.Function, a []Value) (Value, *GoPanic) {
			e.atomicStore(a[0].(*Ptr), a[1])
			return nil, nil
		},
		"internal/bytealg.MakeNoZero": func(e *Exec, fn *ssa.Function, a []Value) (Value, *GoPanic) {
			n := e.argInt(a[0])
			return e.newSlice(types.Typ[types.Uint8], n, n), nil
		},
		"internal/bytealg.Equal": func(e *Exec, fn *ssa.Function, a []Value) (Value, *GoPanic) {
			return stubs["bytes.Equal"](e, fn, a)
		},
		"internal/bytealg.IndexByte":       bytesIndexByte,
		"internal/bytealg.IndexByteString": stringsIndexByte,
		"internal/bytealg.IndexString":     stringsIndex,
		"context.WithTimeout": func(e *Exec, fn *ssa.Function, a []Value) (Value, *GoPanic) {
			// the derived context is the parent: deadlines on randomness reads are environment behaviour
			return &TupleV{E: []Value{a[0], &FuncV{Fn: nopFn{}}}}, nil
		},
		"context.WithCancel": func(e *Exec, fn *ssa.Function, a []Value) (Value, *GoPanic) {
			return &TupleV{E: []Value{a[0], &FuncV{Fn: nopFn{}}}}, nil
		},
		"github.com/u-root/uio/rand.ReadContext": func(e *Exec, fn *ssa.Function, a []Value) (Value, *GoPanic) {
			return e.randomFill(a[1].(*SliceV)), nil
		},
		"github.com/u-root/uio/rand.Read": func(e *Exec, fn *ssa.Function, a []Value) (Value, *GoPanic) {
			return e.randomFill(a[0].(*SliceV)), nil
		},
		"crypto/rand.Read": func(e *Exec, fn *ssa.Function, a []Value) (Value, *GoPanic) {
			return e.randomFill(a[0].(*SliceV)), nil
		},
		"time.Date": func(e *Exec, fn *ssa.Function, a []Value) (Value, *GoPanic) {
			// calendar dates are outside the model: every date is the epoch of the virtual clock
			return e.zero(fn.Signature.Results().At(0).Type()), nil
		},
		"encoding/binary.Write": func(e *Exec, fn *ssa.Function, a []Value) (Value, *GoPanic) {
			w, data := a[0].(*IfaceV), a[2].(*IfaceV)
			sl, ok := data.V.(*SliceV)
			if !ok || data.T == nil || data.T.Underlying().String() != "[]byte" {
				panic(unsupported("encoding/binary.Write of a value that is not []byte"))
			}
			// binary.Write copies the bytes and hands them to w.Write
			cp := e.newSlice(types.Typ[types.Uint8], sl.Len, sl.Len)
			if sl.Len > 0 {
				copy(sliceArr(cp).E, e.sliceVals(sl))
			}
			wr := e.w.methodByName(w.T, "Write")
			if wr == nil {
				panic(unsupported("binary.Write: writer without Write method"))
			}
			r, pan := e.callFn(wr, []Value{w.V, cp}, nil)
			if pan != nil {
				return nil, pan
			}
			return r.(*TupleV).E[1], nil
		},
		"regexp.MustCompile": func(e *Exec, fn *ssa.Function, a []Value) (Value, *GoPanic) {
			// regular-expression matching is outside the model: the compiled object is a placeholder,
			// using it (MatchString, FindStringSubmatch, ...) makes the path inconclusive
			t := fn.Signature.Results().At(0).Type().(*types.Pointer).Elem()
			return &Ptr{Obj: e.newObj(e.zero(t), "regexp")}, nil
		},
		"internal/bytealg.Count": func(e *Exec, fn *ssa.Function, a []Value) (Value, *GoPanic) {
			tb := e.tb
			c := a[1].(*Term)
			n := tb.Const(64, 0)
			for _, v := range e.sliceVals(a[0]) {
				n = tb.Add(n, tb.Ite(tb.Eq(v.(*Term), c), tb.Const(64, 1), tb.Const(64, 0)))
			}
			return n, nil
		},
		"internal/bytealg.CountString": func(e *Exec, fn *ssa.Function, a []Value) (Value, *GoPanic) {
			tb := e.tb
			c := a[1].(*Term)
			n := tb.Const(64, 0)
			for _, v := range strBytes(a[0]) {
				n = tb.Add(n, tb.Ite(tb.Eq(v, c), tb.Const(64, 1), tb.Const(64, 0)))
			}
			return n, nil
		},
		"time.After": timeAfter,
		"time.Now":   timeNow,
		"time.Since": timeSince,
	}
	// the other widths of the sync/atomic functions behave alike
	atomicAdd := func(e *Exec, fn *ssa.Function, a []Value) (Value, *GoPanic) {
		p := a[0].(*Ptr)
		nv := e.tb.Add(e.atomicLoad(p).(*Term), a[1].(*Term))
		e.atomicStore(p, nv)
		return nv, nil
	}
	atomicSwap := func(e *Exec, fn *ssa.Function, a []Value) (Value, *GoPanic) {
		p := a[0].(*Ptr)
		old := e.atomicLoad(p)
		e.atomicStore(p, a[1])
		return old, nil
	}
	for _, w := range []string{"Int32", "Int64", "Uint32", "Uint64", "Uintptr"} {
		stubs["sync/atomic.Add"+w] = atomicAdd
		stubs["sync/atomic.Swap"+w] = atomicSwap
		if w != "Uint32" {
			stubs["sync/atomic.Load"+w] = stubs["sync/atomic.LoadUint32"]
			stubs["sync/atomic.Store"+w] = stubs["sync/atomic.StoreUint32"]
			stubs["sync/atomic.CompareAndSwap"+w] = stubs["sync/atomic.CompareAndSwapUint32"]
		}
	}

}

// fmtOperands models what fmt does with its operands: it calls Error()/String()
// on every operand that has one (and on elements of slices / exported fields),
// swallowing panics raised by those methods as fmt's catchPanic does.
func (e *Exec) fmtOperands(args []Value) {
	// a leading concrete string is the format: only the verbs v s x X q call String/Error
	var verbs []byte
	haveFormat := false
	for _, a := range args {
		if st, ok := a.(*StrV); ok && !haveFormat {
			if f, conc := strConcrete(st); conc {
				haveFormat = true
				e.fmtLen += len(f)
				for i := 0; i < len(f); i++ {
					if f[i] != '%' {
						continue
					}
					i++
					for i < len(f) && strings.IndexByte("+-# 0123456789.*[]", f[i]) >= 0 {
						i++
					}
					if i < len(f) && f[i] != '%' {
						verbs = append(verbs, f[i])
					}
				}
			}
			continue
		}
		if s, ok := a.(*SliceV); ok {
			// the variadic ...interface{} slice
			for i, v := range e.sliceVals(s) {
				if haveFormat && i < len(verbs) && strings.IndexByte("vsxXqw", verbs[i]) < 0 {
					continue
				}
				e.fmtValue(v, 0)
			}
		}
	}
}

func (e *Exec) fmtValue(v Value, depth int) {
	if depth > 3 {
		return
	}
	switch x := v.(type) {
	case *IfaceV:
		if x.T == nil {
			return
		}
		if rs, ok := x.V.(*StrV); ok {
			e.fmtLen += len(rs.B) + rs.Cost
			return
		}
		for _, name := range []string{"Error", "String"} {
			if fn := e.w.methodByName(x.T, name); fn != nil && fn.Signature.Params().Len() == 0 && fn.Signature.Results().Len() == 1 && isString(fn.Signature.Results().At(0).Type()) {
				if p, ok := x.V.(*Ptr); ok && p.IsNil() {
					return // fmt prints <nil> for nil receivers
				}
				// fmt recovers panics from String/Error methods
				if r, gp := e.callFn(fn, []Value{x.V}, nil); gp == nil {
					if rs, ok := r.(*StrV); ok {
						e.fmtLen += len(rs.B) + rs.Cost
					}
				}
				return
			}
		}
		// descend into composite values
		switch u := x.T.Underlying().(type) {
		case *types.Slice:
			el := u.Elem()
			for _, ev := range e.sliceVals(x.V) {
				e.fmtValue(e.boxAs(ev, el), depth+1)
			}
		case *types.Array:
			for _, ev := range x.V.(*ArrayV).E {
				e.fmtValue(e.boxAs(ev, u.Elem()), depth+1)
			}
		case *types.Struct:
			sv := x.V.(*StructV)
			for i := 0; i < u.NumFields(); i++ {
				if u.Field(i).Exported() {
					e.fmtValue(e.boxAs(sv.F[i], u.Field(i).Type()), depth+1)
				}
			}
		case *types.Pointer:
			if depth == 0 {
				if st, ok := u.Elem().Underlying().(*types.Struct); ok {
					p := x.V.(*Ptr)
					if !p.IsNil() {
						sv := (*e.concPtr(p).slot()).(*StructV)
						for i := 0; i < st.NumFields(); i++ {
							if st.Field(i).Exported() {
								e.fmtValue(e.boxAs(sv.F[i], st.Field(i).Type()), depth+1)
							}
						}
					}
				}
			}
		case *types.Map:
			if m := x.V.(*MapV).M; m != nil {
				for _, en := range m.Entries {
					e.fmtValue(e.boxAs(en.K, u.Key()), depth+1)
					e.fmtValue(e.boxAs(en.V, u.Elem()), depth+1)
				}
			}
		}
	}
}

func (e *Exec) boxAs(v Value, t types.Type) Value {
	if _, isIface := t.Underlying().(*types.Interface); isIface {
		return v
	}
	return &IfaceV{T: t, V: v}
}

// ---- sort ----

func sortInts(e *Exec, fn *ssa.Function, a []Value) (Value, *GoPanic) {
	s := a[0].(*SliceV)
	if s.Len < 2 {
		return nil, nil
	}
	arr := sliceArr(s)
	tb := e.tb
	// bubble network of compare-exchange (exact, no forks)
	for i := 0; i < s.Len; i++ {
		for j := 0; j+1 < s.Len-i; j++ {
			x, y := arr.E[s.Off+j].(*Term), arr.E[s.Off+j+1].(*Term)
			sw := tb.Slt(y, x)
			arr.E[s.Off+j] = tb.Ite(sw, y, x)
			arr.E[s.Off+j+1] = tb.Ite(sw, x, y)
		}
	}
	return nil, nil
}

func sortStrings(e *Exec, fn *ssa.Function, a []Value) (Value, *GoPanic) {
	s := a[0].(*SliceV)
	if s.Len < 2 {
		return nil, nil
	}
	arr := sliceArr(s)
	// insertion sort with forking comparisons
	for i := 1; i < s.Len; i++ {
		for j := i; j > 0; j-- {
			x, y := arr.E[s.Off+j-1].(*StrV), arr.E[s.Off+j].(*StrV)
			if !e.branch(e.strLess(y, x, token.LSS)) {
				break
			}
			arr.E[s.Off+j-1], arr.E[s.Off+j] = y, x
		}
	}
	return nil, nil
}

func sortSlice(e *Exec, fn *ssa.Function, a []Value) (Value, *GoPanic) {
	iv := a[0].(*IfaceV)
	s := iv.V.(*SliceV)
	less := a[1].(*FuncV)
	if s.Len < 2 {
		return nil, nil
	}
	arr := sliceArr(s)
	for i := 1; i < s.Len; i++ {
		for j := i; j > 0; j-- {
			r, pan := e.invoke(deferred{fn: less, args: []Value{e.tb.Const(64, uint64(j)), e.tb.Const(64, uint64(j-1))}})
			if pan != nil {
				return nil, pan
			}
			if !e.branch(r.(*Term)) {
				break
			}
			arr.E[s.Off+j-1], arr.E[s.Off+j] = arr.E[s.Off+j], arr.E[s.Off+j-1]
		}
	}
	return nil, nil
}

// sortSliceIsSorted: as package sort does it (from the end: less(i, i-1) for i = n-1 .. 1).
func sortSliceIsSorted(e *Exec, fn *ssa.Function, a []Value) (Value, *GoPanic) {
	s := a[0].(*IfaceV).V.(*SliceV)
	less := a[1].(*FuncV)
	for i := s.Len - 1; i > 0; i-- {
		r, pan := e.invoke(deferred{fn: less, args: []Value{e.tb.Const(64, uint64(i)), e.tb.Const(64, uint64(i-1))}})
		if pan != nil {
			return nil, pan
		}
		if e.branch(r.(*Term)) {
			return e.tb.F, nil
		}
	}
	return e.tb.T, nil
}

// ---- strings / bytes ----

func (e *Exec) indexOf(hay []*Term, needle []*Term) *Term {
	tb := e.tb
	if len(needle) == 0 {
		return tb.Const(64, 0)
	}
	r := tb.Const(64, ^uint64(0))
	for i := len(hay) - len(needle); i >= 0; i-- {
		m := tb.T
		for j := range needle {
			m = tb.And(m, tb.Eq(hay[i+j], needle[j]))
		}
		r = tb.Ite(m, tb.Const(64, uint64(i)), r)
	}
	return r
}

func strBytes(v Value) []*Term {
	s := v.(*StrV)
	if s.Opaque {
		panic(unsupported("search in formatted (opaque) string"))
	}
	return s.B
}

func stringsIndex(e *Exec, fn *ssa.Function, a []Value) (Value, *GoPanic) {
	if a[0].(*StrV).Opaque || a[1].(*StrV).Opaque {
		// content of formatted strings is not modelled; control flow that depends on it (layout
		// decisions of pretty-printers) follows the "substring absent" branch only (stated bound)
		return e.tb.Const(64, ^uint64(0)), nil
	}
	return e.indexOf(strBytes(a[0]), strBytes(a[1])), nil
}
func stringsIndexByte(e *Exec, fn *ssa.Function, a []Value) (Value, *GoPanic) {
	return e.indexOf(strBytes(a[0]), []*Term{a[1].(*Term)}), nil
}
func bytesIndexByte(e *Exec, fn *ssa.Function, a []Value) (Value, *GoPanic) {
	var hay []*Term
	for _, v := range e.sliceVals(a[0]) {
		hay = append(hay, v.(*Term))
	}
	return e.indexOf(hay, []*Term{a[1].(*Term)}), nil
}

func stringsSplit(e *Exec, fn *ssa.Function, a []Value) (Value, *GoPanic) {
	s, sep := strBytes(a[0]), strBytes(a[1])
	if len(sep) == 0 {
		panic(unsupported("strings.Split with empty separator"))
	}
	var parts []Value
	start := 0
	k := len(sep)
	for i := 0; i+k <= len(s); {
		m := e.tb.T
		for j := 0; j < k; j++ {
			m = e.tb.And(m, e.tb.Eq(s[i+j], sep[j]))
		}
		if e.branch(m) {
			parts = append(parts, &StrV{B: s[start:i]})
			i += k
			start = i
		} else {
			i++
		}
	}
	parts = append(parts, &StrV{B: s[start:]})
	sl := e.newSlice(types.Typ[types.String], len(parts), len(parts))
	copy(sliceArr(sl).E, parts)
	return sl, nil
}

func (e *Exec) strSlice(parts []string) *SliceV {
	sl := e.newSlice(types.Typ[types.String], len(parts), len(parts))
	arr := sliceArr(sl)
	for i, p := range parts {
		arr.E[i] = e.concStr(p)
	}
	return sl
}

func stringsJoin(e *Exec, fn *ssa.Function, a []Value) (Value, *GoPanic) {
	sep := a[1].(*StrV)
	var out []*Term
	for i, v := range e.sliceVals(a[0]) {
		s := v.(*StrV)
		if s.Opaque || sep.Opaque {
			return e.opaqueStr(), nil
		}
		if i > 0 {
			out = append(out, sep.B...)
		}
		out = append(out, s.B...)
	}
	e.alloc += int64(len(out))
	return &StrV{B: out}, nil
}

func stringsMapASCII(upper bool) handler {
	return func(e *Exec, fn *ssa.Function, a []Value) (Value, *GoPanic) {
		s := a[0].(*StrV)
		if s.Opaque {
			return s, nil
		}
		tb := e.tb
		out := make([]*Term, len(s.B))
		for i, b := range s.B {
			if !e.branch(tb.Ult(b, tb.Const(8, 0x80))) {
				panic(unsupported("case mapping of non-ASCII bytes"))
			}
			if upper {
				isL := tb.And(tb.Ule(tb.Const(8, 'a'), b), tb.Ule(b, tb.Const(8, 'z')))
				out[i] = tb.Ite(isL, tb.Sub(b, tb.Const(8, 32)), b)
			} else {
				isU := tb.And(tb.Ule(tb.Const(8, 'A'), b), tb.Ule(b, tb.Const(8, 'Z')))
				out[i] = tb.Ite(isU, tb.Add(b, tb.Const(8, 32)), b)
			}
		}
		return &StrV{B: out}, nil
	}
}

func stringsTrimRight(e *Exec, fn *ssa.Function, a []Value) (Value, *GoPanic) {
	s := strBytes(a[0])
	cut, ok := strConcrete(a[1].(*StrV))
	if !ok {
		panic(unsupported("TrimRight with symbolic cutset"))
	}
	n := len(s)
	for n > 0 {
		in := e.tb.F
		for i := 0; i < len(cut); i++ {
			in = e.tb.Or(in, e.tb.Eq(s[n-1], e.tb.Const(8, uint64(cut[i]))))
		}
		if !e.branch(in) {
			break
		}
		n--
	}
	return &StrV{B: s[:n]}, nil
}

var _ = fmt.Sprintf

// nopFn is a callable that does nothing (cancel functions of stubbed contexts).
type nopFn struct{}

// randomFill models a randomness source: arbitrary bytes, full length, no error.
func (e *Exec) randomFill(s *SliceV) Value {
	if s.Len > 0 {
		arr := sliceArr(s)
		var draw []*Term
		for i := 0; i < s.Len; i++ {
			t := e.fresh("random", 8)
			arr.E[s.Off+i] = t
			draw = append(draw, t)
		}
		// contract of the random source: independent draws of the same length (>= 3 bytes:
		// transaction ids) do not collide
		if s.Len >= 3 {
			for _, prev := range e.randomDraws {
				if len(prev) != len(draw) {
					continue
				}
				differ := e.tb.F
				for i := range draw {
					differ = e.tb.Or(differ, e.tb.Not(e.tb.Eq(draw[i], prev[i])))
				}
				e.assume(differ)
			}
			e.randomDraws = append(e.randomDraws, draw)
		}
	}
	return &TupleV{E: []Value{e.tb.Const(64, uint64(s.Len)), &IfaceV{}}}
}

func init() {
	loc := func(e *Exec) Value {
		g := e.w.pool.P.pkgs["time"].Var("utcLoc")
		return &Ptr{Obj: e.w.global(e, g)}
	}
	stdGlobalInit["time.UTC"] = loc
	stdGlobalInit["time.Local"] = loc
}

// stringsNative3 runs a pure strings function natively on concrete arguments; with formatted
// (opaque) or symbolic arguments the result is an opaque string.
func stringsNative3(name string) handler {
	return func(e *Exec, fn *ssa.Function, a []Value) (Value, *GoPanic) {
		var strs []string
		var ints []int
		conc := true
		for _, v := range a {
			switch x := v.(type) {
			case *StrV:
				c, ok := strConcrete(x)
				if !ok {
					conc = false
				}
				strs = append(strs, c)
			case *Term:
				t := e.subst(x)
				if !t.IsConst() {
					conc = false
				}
				ints = append(ints, int(int64(t.V)))
			}
		}
		if !conc {
			return e.opaqueStr(), nil
		}
		switch name {
		case "Replace":
			return e.concStr(strings.Replace(strs[0], strs[1], strs[2], ints[0])), nil
		case "ReplaceAll":
			return e.concStr(strings.ReplaceAll(strs[0], strs[1], strs[2])), nil
		case "Repeat":
			if ints[0] < 0 {
				return nil, &GoPanic{Msg: "strings: negative Repeat count"}
			}
			return e.concStr(strings.Repeat(strs[0], ints[0])), nil
		case "TrimSpace":
			return e.concStr(strings.TrimSpace(strs[0])), nil
		}
		panic(unsupported("strings." + name))
	}
}

// retained is the size in bytes of everything reachable from v in the executor's heap model:
// backing arrays once (capacity x element size), string bytes, struct/array cells, map entries.
// byteSlices collects the byte slices reachable from v (through pointers, structs, arrays,
// interfaces, maps and slices of anything).
func (e *Exec) byteSlices(v Value, seen map[interface{}]bool, out *[]*SliceV) {
	switch x := v.(type) {
	case *SliceV:
		if x.Base == nil {
			return
		}
		arr, _ := x.Base.Obj.V.(*ArrayV)
		isBytes := false
		if arr != nil && len(arr.E) > 0 {
			if t, ok := arr.E[0].(*Term); ok && t.W == 8 {
				isBytes = true
			}
		}
		if isBytes {
			*out = append(*out, x)
			return
		}
		if arr != nil && !seen[x.Base.Obj] {
			seen[x.Base.Obj] = true
			for i := x.Off; i < x.Off+x.Len && i < len(arr.E); i++ {
				e.byteSlices(arr.E[i], seen, out)
			}
		}
	case *Ptr:
		if !x.IsNil() && !seen[x.Obj] {
			seen[x.Obj] = true
			e.byteSlices(x.Obj.V, seen, out)
		}
	case *StructV:
		for _, f := range x.F {
			e.byteSlices(f, seen, out)
		}
	case *ArrayV:
		for _, f := range x.E {
			e.byteSlices(f, seen, out)
		}
	case *IfaceV:
		e.byteSlices(x.V, seen, out)
	case *MapV:
		if x.M != nil && !seen[x.M] {
			seen[x.M] = true
			for _, en := range x.M.Entries {
				e.byteSlices(en.K, seen, out)
				e.byteSlices(en.V, seen, out)
			}
		}
	case *TupleV:
		for _, f := range x.E {
			e.byteSlices(f, seen, out)
		}
	}
}

func (e *Exec) retained(v Value, seen map[interface{}]bool) int64 {
	switch x := v.(type) {
	case nil:
		return 0
	case *Term:
		if x.W == 0 {
			return 1
		}
		return int64(x.W / 8)
	case *FloatV:
		return 8
	case *StrV:
		return 16 + int64(len(x.B)) + int64(x.Cost)
	case *SliceV:
		n := int64(24)
		if x.Base != nil && !seen[x.Base.Obj] {
			seen[x.Base.Obj] = true
			n += e.retained(x.Base.Obj.V, seen)
		}
		return n
	case *Ptr:
		n := int64(8)
		if !x.IsNil() && !seen[x.Obj] {
			seen[x.Obj] = true
			n += e.retained(x.Obj.V, seen)
		}
		return n
	case *StructV:
		var n int64
		for _, f := range x.F {
			n += e.retained(f, seen)
		}
		return n
	case *ArrayV:
		var n int64
		for _, f := range x.E {
			n += e.retained(f, seen)
		}
		return n
	case *IfaceV:
		return 16 + e.retained(x.V, seen)
	case *MapV:
		n := int64(8)
		if x.M != nil && !seen[x.M] {
			seen[x.M] = true
			n += 48
			for _, en := range x.M.Entries {
				n += 16 + e.retained(en.K, seen) + e.retained(en.V, seen)
			}
		}
		return n
	case *FuncV:
		return 8
	case *TupleV:
		var n int64
		for _, f := range x.E {
			n += e.retained(f, seen)
		}
		return n
	}
	return 8
}

// atomic accesses synchronise (release/acquire on the location) and are not themselves racy
func (e *Exec) atomicLoad(p *Ptr) Value {
	e.raceAcquire("atomic" + ptrKey(p))
	r := e.race
	e.race = nil
	v := e.load(p)
	e.race = r
	return v
}

// atomicYield: when scheduling choices are explored, the END of an atomic operation is a
// scheduling point as well (a check-then-act sequence built from an atomic load and a later store
// can be split there; the operation itself is never split).
func (e *Exec) atomicYield() {
	if e.env != nil && e.env.explore && e.env.exploreAtomic {
		e.yield()
	}
}

func (e *Exec) atomicStore(p *Ptr, v Value) {
	e.raceRelease("atomic" + ptrKey(p))
	r := e.race
	e.race = nil
	e.store(p, v)
	e.race = r
}
