package main

// Loading, workers, the path work-queue and result collection.

import (
	"context"
	"fmt"
	"go/types"
	"os"
	"path/filepath"
	"regexp"
	"runtime/debug"
	"sort"
	"strings"
	"sync"
	"time"

	"golang.org/x/tools/go/packages"
	"golang.org/x/tools/go/ssa"
	"golang.org/x/tools/go/ssa/ssautil"
)

const modPath = "github.com/insomniacslk/dhcp"

type Config struct {
	MaxSteps  int
	TimeoutMs int
	Workers   int
	Verbose   bool
}

type Program struct {
	prog *ssa.Program
	pkgs map[string]*ssa.Package // by import path
	mu   sync.Mutex
}

// loadProgram builds SSA for the given repo packages with harness overlays.
func loadProgram(repo string, pkgPaths []string, overlay map[string][]byte) (*Program, error) {
	cfg := &packages.Config{
		Mode:       packages.LoadAllSyntax,
		Dir:        repo,
		Overlay:    overlay,
		BuildFlags: []string{"-tags=verif"},
		Env:        append(os.Environ(), "GOFLAGS=-mod=mod", "GOPROXY=off", "GOSUMDB=off", "GOTOOLCHAIN=local"),
	}
	pkgs, err := packages.Load(cfg, pkgPaths...)
	if err != nil {
		return nil, err
	}
	var errs []string
	packages.Visit(pkgs, nil, func(p *packages.Package) {
		for _, e := range p.Errors {
			errs = append(errs, e.Error())
		}
	})
	if len(errs) > 0 {
		if len(errs) > 20 {
			errs = errs[:20]
		}
		return nil, fmt.Errorf("package load errors:\n%s", strings.Join(errs, "\n"))
	}
	prog, _ := ssautil.AllPackages(pkgs, ssa.InstantiateGenerics)
	prog.Build()
	p := &Program{prog: prog, pkgs: map[string]*ssa.Package{}}
	for _, sp := range prog.AllPackages() {
		p.pkgs[sp.Pkg.Path()] = sp
	}
	return p, nil
}

type HarnessSpec struct {
	Pkg      string `json:"pkg"`
	Func     string `json:"func"`
	Params   []int  `json:"params,omitempty"`
	MaxSteps int    `json:"max_steps,omitempty"`
	MaxPaths int    `json:"max_paths,omitempty"`
	Expect   string `json:"expect,omitempty"` // "violation": planted twin (vacuity witness) must be violated
	Note     string `json:"note,omitempty"`
	// A harness shared between properties asserts clauses of several of them; a check counts only
	// the assertion labels of its own property: Only (if non-empty) lists label prefixes that count,
	// Ignore lists label prefixes that do not. Panics, deadlocks, races and termination candidates
	// always count unless AssertsOnly... (they are failures of the code whatever the property).
	Only   []string `json:"only_labels,omitempty"`
	Ignore []string `json:"ignore_labels,omitempty"`
}

// counts reports whether an assertion label is one this check is responsible for.
func (h *HarnessSpec) counts(label string) bool {
	for _, p := range h.Ignore {
		if strings.HasPrefix(label, p) {
			return false
		}
	}
	if len(h.Only) == 0 {
		return true
	}
	for _, p := range h.Only {
		if strings.HasPrefix(label, p) {
			return true
		}
	}
	return false
}

func (h *HarnessSpec) ID() string {
	s := h.Func
	for _, p := range h.Params {
		s += fmt.Sprintf("_%d", p)
	}
	return s
}

type HarnessRun struct {
	Spec *HarnessSpec
	fn   *ssa.Function

	mu           sync.Mutex
	outstanding  int
	Paths        int
	Vacuous      int
	Steps        int64
	SolverVCs    int
	SyntVCs      int
	Nontrivial   int
	Violations   []*Violation
	Inconclusive []string
	Reached      map[string]int
	Funcs        map[string]bool
	Sample       *PathSample
	Samples      []*PathSample
	MaxStepsSeen int
	start        time.Time
	Wall         float64
	stopped      bool
}

type PathSample struct {
	Pkg      string            `json:"pkg"`
	Harness  string            `json:"harness"`
	Params   []int             `json:"params,omitempty"`
	Decisive int               `json:"decisions"`
	PC       string            `json:"path_condition_excerpt"`
	Model    map[string]string `json:"model"`
	Observed map[string]string `json:"observed,omitempty"`
	Reach    []string          `json:"reach,omitempty"`
	inputs   []InputRec
	raw      map[string]uint64
	obs      []obsVal
	spec     *HarnessSpec // label scoping of the plan entry the sample belongs to
}

// countedFails drops native assertion failures whose labels the plan entry does not count (the
// native harness evaluates every assertion; the executor only those of the listing property).
func (s *PathSample) countedFails(fails []string) []string {
	if s.spec == nil {
		return fails
	}
	var out []string
	for _, f := range fails {
		if s.spec.counts(f) {
			out = append(out, f)
		}
	}
	return out
}

type obsVal struct {
	Label string
	Hex   string
}

type task struct {
	run    *HarnessRun
	prefix []Decision
}

type Pool struct {
	P          *Program
	cfg        Config
	mu         sync.Mutex
	cond       *sync.Cond
	stack      []task
	active     int
	closed     bool
	workers    []*Worker
	SolverQ    map[string]int
	SolverS    map[string]float64
	SolverU    map[string]int
	fresh      []task
	nonterm    int
	violations int
	// broken code can make exploration explode: once a violation is known the rest of the plan gets
	// a grace period and is then abandoned (the check is going to exit 1 anyway)
	firstViolation time.Time
	abort          bool
}

type Worker struct {
	id           int
	pool         *Pool
	prog         *ssa.Program
	cfg          Config
	tb           *TB
	solvers      map[string]*Solver
	globals      map[*ssa.Global]*Obj
	initializing bool
	initDone     map[*ssa.Package]bool
	cur          *HarnessRun
	methCache    map[string]*ssa.Function
}

func NewPool(p *Program, cfg Config) *Pool {
	pl := &Pool{P: p, cfg: cfg, SolverQ: map[string]int{}, SolverS: map[string]float64{}, SolverU: map[string]int{}}
	pl.cond = sync.NewCond(&pl.mu)
	return pl
}

func (pl *Pool) push(t task) {
	pl.mu.Lock()
	pl.stack = append(pl.stack, t)
	pl.mu.Unlock()
	pl.cond.Signal()
}

// RunAll explores all harness runs to completion.
func (pl *Pool) RunAll(runs []*HarnessRun) {
	for i := len(runs) - 1; i >= 0; i-- {
		r := runs[i]
		r.outstanding = 1
		r.Reached = map[string]int{}
		r.Funcs = map[string]bool{}
		r.start = time.Now()
		pl.fresh = append(pl.fresh, task{run: r}) // taken before continuations: every run starts early
	}
	var wg sync.WaitGroup
	for i := 0; i < pl.cfg.Workers; i++ {
		w := &Worker{id: i, pool: pl, prog: pl.P.prog, cfg: pl.cfg, tb: NewTB(), solvers: map[string]*Solver{},
			globals: map[*ssa.Global]*Obj{}, initDone: map[*ssa.Package]bool{}, methCache: map[string]*ssa.Function{}}
		pl.workers = append(pl.workers, w)
		wg.Add(1)
		go func() {
			defer wg.Done()
			w.loop()
			for k, s := range w.solvers {
				pl.mu.Lock()
				pl.SolverQ[k] += s.Queries
				pl.SolverS[k] += s.Secs
				pl.SolverU[k] += s.Unknown
				pl.mu.Unlock()
				s.Close()
			}
		}()
	}
	wg.Wait()
}

func (w *Worker) loop() {
	pl := w.pool
	for {
		pl.mu.Lock()
		for len(pl.stack) == 0 && len(pl.fresh) == 0 && pl.active > 0 {
			pl.cond.Wait()
		}
		if len(pl.stack) == 0 && len(pl.fresh) == 0 {
			pl.mu.Unlock()
			pl.cond.Broadcast()
			return
		}
		var t task
		if n := len(pl.fresh); n > 0 {
			// first paths of runs not started yet come first, so that an exploding run cannot
			// starve the others (and a violation elsewhere is found while it explodes)
			t = pl.fresh[n-1]
			pl.fresh = pl.fresh[:n-1]
		} else {
			t = pl.stack[len(pl.stack)-1]
			pl.stack = pl.stack[:len(pl.stack)-1]
		}
		pl.active++
		pl.mu.Unlock()

		w.runPath(t)

		pl.mu.Lock()
		pl.active--
		pl.mu.Unlock()
		pl.cond.Broadcast()
	}
}

func (w *Worker) solver(kind string) *Solver {
	s := w.solvers[kind]
	if s == nil {
		var err error
		tmo := w.cfg.TimeoutMs
		if kind == "z3-new" && tmo > 3000 {
			tmo = 3000 // first tier: what it cannot do quickly goes to the portfolio
		}
		s, err = NewSolver(kind, tmo)
		if err != nil {
			panic(fmt.Sprintf("cannot start solver %s: %v", kind, err))
		}
		w.solvers[kind] = s
	}
	return s
}

// solve decides a conjunction.  Easy queries go to the persistent incremental z3 (short
// timeout); queries with wide multiplication/division, and whatever the incremental solver gives
// up on, go to a portfolio of fresh one-shot solvers run in parallel (integer encoding in z3,
// cvc5's bv-as-int, plain bit-vectors); the first definite answer wins.
func (w *Worker) solve(as []*Term, wantModel bool) (SatResult, map[string]uint64) {
	hard := false
	for _, a := range as {
		if a.Hard {
			hard = true
			break
		}
	}
	if !hard {
		r, m := w.solver("z3-new").Check(as, wantModel, nil)
		if r != Unknown {
			return r, m
		}
	}
	return w.portfolio(as, wantModel, hard)
}

type portfolioResult struct {
	kind string
	r    SatResult
	m    map[string]uint64
}

func (w *Worker) portfolio(as []*Term, wantModel bool, hard bool) (SatResult, map[string]uint64) {
	kinds := []string{"z3-int", "cvc5-int", "z3-bv1"}
	ctx, cancel := context.WithCancel(context.Background())
	ch := make(chan portfolioResult, len(kinds))
	for _, k := range kinds {
		s := w.solver(k)
		s.ctx = ctx
		go func(k string, s *Solver) {
			r, m := s.Check(as, wantModel, nil)
			ch <- portfolioResult{k, r, m}
		}(k, s)
	}
	var res portfolioResult
	res.r = Unknown
	for range kinds {
		x := <-ch
		if x.r != Unknown && res.r == Unknown {
			res = x
			cancel() // stop the losers; their (killed) runs report unknown and are discarded
		}
	}
	cancel()
	return res.r, res.m
}

func (w *Worker) noteInconclusive(msg string) {
	r := w.cur
	r.mu.Lock()
	if len(r.Inconclusive) < 50 {
		r.Inconclusive = append(r.Inconclusive, msg)
	} else if len(r.Inconclusive) == 50 {
		r.Inconclusive = append(r.Inconclusive, "…")
	}
	r.mu.Unlock()
}

func (w *Worker) reportViolation(e *Exec, label, kind, msg string, m map[string]uint64) {
	r := w.cur
	if kind == "assert" && !r.Spec.counts(label) {
		return // a clause of another property, asserted by a shared harness
	}
	v := &Violation{ScheduleDependent: e.env != nil && e.env.explore, Pkg: r.Spec.Pkg, Harness: r.Spec.Func, Params: r.Spec.Params, Label: label, Kind: kind, Msg: msg, Model: m,
		Inputs: append([]InputRec(nil), e.inputs...), Trace: append([]Decision(nil), e.trace...), Pos: e.curCallPos}
	r.mu.Lock()
	// keep at most a few per label
	n := 0
	for _, o := range r.Violations {
		if o.Label == label {
			n++
		}
	}
	if n < 3 {
		r.Violations = append(r.Violations, v)
	}
	if len(r.Violations) >= 4 || kind == "nontermination" {
		// enough counterexamples from this harness run: the rest of its paths is not explored
		// (a violated check does not need to be exhaustive, and broken code can explode; a path
		// that exhausts its budget costs minutes, so one termination candidate per run is enough)
		r.stopped = true
	}
	r.mu.Unlock()
	w.pool.mu.Lock()
	w.pool.violations++
	if w.pool.firstViolation.IsZero() {
		w.pool.firstViolation = time.Now()
	}
	if kind == "nontermination" {
		w.pool.nonterm++
	}
	if w.pool.violations >= 24 || w.pool.nonterm >= 3 {
		w.pool.abort = true
	}
	w.pool.mu.Unlock()
}

func (w *Worker) lookupMethod(t types.Type, m *types.Func) *ssa.Function {
	key := t.String() + "." + m.Id()
	if f, ok := w.methCache[key]; ok {
		return f
	}
	ms := w.prog.MethodSets.MethodSet(t)
	sel := ms.Lookup(m.Pkg(), m.Name())
	var f *ssa.Function
	if sel != nil {
		f = w.prog.MethodValue(sel)
	}
	w.methCache[key] = f
	return f
}

// methodByName finds method name on dynamic type t (value or pointer receiver as available).
func (w *Worker) methodByName(t types.Type, name string) *ssa.Function {
	ms := w.prog.MethodSets.MethodSet(t)
	for i := 0; i < ms.Len(); i++ {
		s := ms.At(i)
		if s.Obj().Name() == name {
			return w.prog.MethodValue(s)
		}
	}
	return nil
}

func (w *Worker) global(e *Exec, g *ssa.Global) *Obj {
	if o, ok := w.globals[g]; ok {
		return o
	}
	et := g.Type().Underlying().(*types.Pointer).Elem()
	o := &Obj{ID: -len(w.globals) - 1, V: e.zero(et), Frozen: true, Note: g.String()}
	w.globals[g] = o
	if g.Pkg != nil && !w.initDone[g.Pkg] && w.initializing && !allowInit(g.Pkg.Pkg.Path()) {
		// a dependency's variable read by a package initialiser of the repo
		if init := stdGlobalInit[g.String()]; init != nil {
			o.V = init(e)
		} else if isErrorType(et) {
			o.V = e.newError(g.String())
		} else if !strings.HasSuffix(g.Name(), "$guard") {
			fmt.Fprintf(os.Stderr, "warning: %s read during package initialisation is not modelled (zero value used)\n", g.String())
		}
	}
	if g.Pkg != nil && !w.initDone[g.Pkg] && !w.initializing {
		if init := stdGlobalInit[g.String()]; init != nil {
			save := w.initializing
			w.initializing = true
			o.V = init(e)
			w.initializing = save
		} else if isErrorType(et) {
			// a sentinel error of a package whose initialiser is not executed
			o.V = e.newError(g.String())
		} else if !allowInit(g.Pkg.Pkg.Path()) {
			if !strings.HasSuffix(g.Name(), "$guard") && g.String() != "time.utcLoc" {
				panic(unsupported("package-level variable of a package that is not initialised: " + g.String()))
			}
		}
	}
	return o
}

func isErrorType(t types.Type) bool {
	n, ok := t.(*types.Named)
	return ok && n.Obj().Pkg() == nil && n.Obj().Name() == "error"
}

func allowInit(path string) bool {
	return strings.HasPrefix(path, modPath) || strings.HasPrefix(path, "github.com/u-root/uio") ||
		path == "encoding/binary" || path == "io" || path == "unicode/utf8" || path == "math/bits"
}

// ensureInit runs the package initialisers (concretely) once per worker.
func (w *Worker) ensureInit(pkg *ssa.Package) {
	if w.initDone[pkg] {
		return
	}
	w.initDone[pkg] = true
	e := w.newExec(nil)
	save := w.initializing
	w.initializing = true
	defer func() {
		w.initializing = save
		if r := recover(); r != nil {
			if pe, ok := r.(pathEnd); ok {
				fmt.Fprintf(os.Stderr, "warning: init of %s incomplete: %s %s\n", pkg.Pkg.Path(), pe.kind, pe.msg)
				return
			}
			fmt.Fprintf(os.Stderr, "internal panic during init of %s: %v\n  in%s\n", pkg.Pkg.Path(), r, e.stackString())
			panic(r)
		}
	}()
	initFn := pkg.Func("init")
	_, pan := e.callFn(initFn, nil, nil)
	if pan != nil {
		fmt.Fprintf(os.Stderr, "warning: init of %s panicked: %s\n", pkg.Pkg.Path(), pan.Msg)
	}
}

func (w *Worker) newExec(prefix []Decision) *Exec {
	return &Exec{w: w, tb: w.tb, prefix: prefix, symCnt: map[string]int{}, subMem: map[*Term]*Term{}, reached: map[string]bool{}, objN: 0, maxSteps: w.cfg.MaxSteps}
}

func (w *Worker) runPath(t task) {
	r := t.run
	w.cur = r
	defer func() {
		r.mu.Lock()
		r.outstanding--
		if r.outstanding == 0 {
			r.Wall = time.Since(r.start).Seconds()
			if os.Getenv("GOSYM_PROGRESS") != "" {
				fmt.Fprintf(os.Stderr, "done %s paths=%d steps=%d wall=%.1fs\n", r.Spec.ID(), r.Paths, r.Steps, r.Wall)
			}
		}
		r.mu.Unlock()
	}()
	w.pool.mu.Lock()
	if !w.pool.firstViolation.IsZero() && time.Since(w.pool.firstViolation) > 90*time.Second {
		w.pool.abort = true
	}
	aborted := w.pool.abort
	w.pool.mu.Unlock()
	r.mu.Lock()
	if aborted {
		r.stopped = true
	}
	stopped := r.stopped
	if r.Spec.MaxPaths > 0 && r.Paths >= r.Spec.MaxPaths && !stopped {
		r.stopped = true
		stopped = true
		r.Inconclusive = append(r.Inconclusive, fmt.Sprintf("path bound %d reached", r.Spec.MaxPaths))
	}
	r.mu.Unlock()
	if stopped {
		return
	}
	w.ensureInit(r.fn.Pkg)
	e := w.newExec(t.prefix)
	e.funcs = map[string]bool{}
	if r.Spec.MaxSteps > 0 {
		// per harness override handled through cfg copy
	}
	kind, msg := w.execute(e, r)
	e.undoGlobalWrites()
	// publish
	r.mu.Lock()
	r.Steps += int64(e.steps)
	if e.steps > r.MaxStepsSeen {
		r.MaxStepsSeen = e.steps
	}
	r.SolverVCs += e.solverVCs
	r.SyntVCs += e.syntVCs
	for f := range e.funcs {
		r.Funcs[f] = true
	}
	switch kind {
	case "done":
		r.Paths++
		if e.nontriv {
			r.Nontrivial++
		}
		for l := range e.reached {
			r.Reached[l]++
		}
	case "vacuous":
		r.Vacuous++
	case "stop":
		r.Paths++
	default:
		r.Paths++
		if len(r.Inconclusive) < 50 {
			r.Inconclusive = append(r.Inconclusive, kind+": "+msg)
		}
	}
	r.outstanding += len(e.pending)
	r.mu.Unlock()
	for i := len(e.pending) - 1; i >= 0; i-- {
		w.pool.push(task{run: r, prefix: e.pending[i]})
	}
	if kind == "done" {
		w.maybeSample(e, r)
	}
}

func (w *Worker) maybeSample(e *Exec, r *HarnessRun) {
	r.mu.Lock()
	need := len(r.Samples) < 4
	r.mu.Unlock()
	if !need {
		return
	}
	m := e.model
	if m == nil {
		res, mm := e.sat(e.tb.T, true)
		if res != Sat {
			return
		}
		m = mm
	}
	if sm := e.preferStrict(e.tb.T); sm != nil {
		m = sm
	}
	ps := &PathSample{Pkg: r.Spec.Pkg, Harness: r.Spec.Func, Params: r.Spec.Params, Decisive: len(e.trace), Model: map[string]string{}, raw: m, inputs: e.inputs, spec: r.Spec}
	var pcs []string
	for i, c := range e.pc {
		if i >= 4 {
			pcs = append(pcs, "…")
			break
		}
		s := c.String()
		if len(s) > 160 {
			s = s[:160] + "…"
		}
		pcs = append(pcs, s)
	}
	ps.PC = strings.Join(pcs, " ∧ ")
	names := make([]string, 0, len(e.inputs))
	for _, in := range e.inputs {
		names = append(names, in.Name)
	}
	sort.Strings(names)
	for i, n := range names {
		if i >= 24 {
			ps.Model["…"] = fmt.Sprintf("%d more inputs", len(names)-i)
			break
		}
		ps.Model[n] = fmt.Sprintf("%#x", m[n])
	}
	memo := map[*Term]uint64{}
	for _, o := range e.observes {
		var sb strings.Builder
		for _, b := range o.Bytes {
			fmt.Fprintf(&sb, "%02x", Eval(b, m, memo))
		}
		ps.obs = append(ps.obs, obsVal{o.Label, sb.String()})
	}
	for l := range e.reached {
		ps.Reach = append(ps.Reach, l)
	}
	sort.Strings(ps.Reach)
	r.mu.Lock()
	r.Samples = append(r.Samples, ps)
	r.mu.Unlock()
}

// execute runs one path and classifies how it ended.
func (w *Worker) execute(e *Exec, r *HarnessRun) (kind, msg string) {
	defer func() {
		e.killGoroutines()
		if x := recover(); x != nil {
			if pe, ok := x.(pathEnd); ok {
				kind, msg = pe.kind, pe.msg
				return
			}
			kind = "internal"
			msg = fmt.Sprintf("%v\n in%s\n%s", x, e.stackString(), debug.Stack())
			if len(msg) > 3000 {
				msg = msg[:3000]
			}
		}
	}()
	args := make([]Value, len(r.Spec.Params))
	for i, p := range r.Spec.Params {
		args[i] = e.tb.Const(64, uint64(int64(p)))
	}
	if len(args) != len(r.fn.Params) {
		return "internal", fmt.Sprintf("harness %s takes %d parameters, plan gives %d", r.fn, len(r.fn.Params), len(args))
	}
	if r.Spec.MaxSteps > 0 {
		e.maxSteps = r.Spec.MaxSteps
	}
	_, pan := e.runMain(r.fn, args)
	if pan != nil {
		// an uncaught Go panic in the harness: a violation if reachable (it is: the path is feasible)
		m := e.model
		if m == nil {
			res, mm := e.sat(e.tb.T, true)
			if res == Sat {
				m = mm
			} else {
				w.noteInconclusive("panic path without model: " + pan.Msg)
				return "done", ""
			}
		}
		w.reportViolation(e, "panic:"+pan.Pos, "panic", pan.Msg+" at "+pan.Pos+" via "+strings.Join(pan.Stack, " < "), m)
		return "done", ""
	}
	if e.pos < len(e.prefix) {
		return "internal", "path ended before its decision prefix was consumed (non-deterministic replay)"
	}
	return "done", ""
}

func findHarness(p *Program, spec *HarnessSpec) (*ssa.Function, error) {
	pkg := p.pkgs[spec.Pkg]
	if pkg == nil {
		return nil, fmt.Errorf("package %s not loaded", spec.Pkg)
	}
	fn := pkg.Func(spec.Func)
	if fn == nil {
		return nil, fmt.Errorf("harness %s.%s not found", spec.Pkg, spec.Func)
	}
	return fn, nil
}

// overlayFor builds the overlay map for the harness directory tree:
// <harnessDir>/<rel pkg dir>/*.go  ->  <repo>/<rel pkg dir>/zz_verif_<name>.go
// plus, per package directory, the intrinsic runtime (mode "sym": stubs; "native": replay runtime).
func overlayFor(repo, harnessDir, mode string) (map[string][]byte, map[string]string, error) {
	ov := map[string][]byte{}
	files := map[string]string{} // virtual -> real
	pkgName := map[string]string{}
	pkgRe := regexp.MustCompile(`(?m)^package (\w+)`)
	err := filepath.Walk(harnessDir, func(path string, info os.FileInfo, err error) error {
		if err != nil {
			return err
		}
		if info.IsDir() || !strings.HasSuffix(path, ".go") {
			return nil
		}
		rel, _ := filepath.Rel(harnessDir, path)
		dir := filepath.Dir(rel)
		if strings.HasPrefix(dir, "_") {
			return nil
		}
		data, err := os.ReadFile(path)
		if err != nil {
			return err
		}
		v := filepath.Join(repo, dir, "zz_verif_"+filepath.Base(path))
		ov[v] = data
		files[v] = path
		if m := pkgRe.FindSubmatch(data); m != nil {
			pkgName[dir] = string(m[1])
		}
		return nil
	})
	if err != nil {
		return nil, nil, err
	}
	base := mode
	if mode == "native_sync" {
		base = "native"
	}
	tmplPath := filepath.Join(harnessDir, "_shared", "rt_"+base+".go.tmpl")
	tmpl, err := os.ReadFile(tmplPath)
	if err != nil {
		return nil, nil, err
	}
	if base == "native" {
		tmpl = []byte(selectSections(string(tmpl), mode == "native_sync"))
	}
	// generated harness parts (from the repository's types)
	gen, err := generateHarnessCached(repo)
	if err != nil {
		return nil, nil, err
	}
	genDir := filepath.Join(filepath.Dir(harnessDir), "out", "gen")
	for rel, data := range gen.files {
		v := filepath.Join(repo, rel)
		ov[v] = data
		real := filepath.Join(genDir, rel)
		os.MkdirAll(filepath.Dir(real), 0o755)
		os.WriteFile(real, data, 0o644)
		files[v] = real
	}
	for dir, name := range pkgName {
		v := filepath.Join(repo, dir, "zz_verif_rt.go")
		ov[v] = []byte(strings.Replace(string(tmpl), "package PKG", "package "+name, 1))
		files[v] = tmplPath
	}
	return ov, files, nil
}

// selectSections keeps //SYNC-BEGIN..//SYNC-END blocks when sync, //NOSYNC- blocks otherwise.
func selectSections(src string, sync bool) string {
	var out []string
	skip := false
	for _, l := range strings.Split(src, "\n") {
		t := strings.TrimSpace(l)
		switch t {
		case "//SYNC-BEGIN":
			skip = !sync
			continue
		case "//NOSYNC-BEGIN":
			skip = sync
			continue
		case "//SYNC-END", "//NOSYNC-END":
			skip = false
			continue
		}
		if !skip {
			out = append(out, l)
		}
	}
	return strings.Join(out, "\n")
}

var genCache struct {
	sync.Mutex
	res *genResult
	err error
	ok  bool
}

func generateHarnessCached(repo string) (*genResult, error) {
	genCache.Lock()
	defer genCache.Unlock()
	if !genCache.ok {
		genCache.res, genCache.err = generateHarness(repo)
		genCache.ok = true
	}
	return genCache.res, genCache.err
}
