package main

// SMT-LIB2 printing and persistent solver processes.

import (
	"bufio"
	"context"
	"fmt"
	"io"
	"os"
	"os/exec"
	"strconv"
	"strings"
	"time"
)

type SatResult int

const (
	Unsat SatResult = iota
	Sat
	Unknown
)

func (r SatResult) String() string { return [...]string{"unsat", "sat", "unknown"}[r] }

type Solver struct {
	kind    string
	cmd     *exec.Cmd
	in      *bufio.Writer
	inRaw   io.WriteCloser
	out     *bufio.Reader
	defined map[int]bool
	Queries int
	Secs    float64
	Unknown int
	timeout int // ms
	log     io.Writer
	nq      int // queries since (re)start
	oneShot bool
	ctx     context.Context // cancels a running one-shot process
	defLog  []int
	marks   []int
	stack   []*Term // path-condition conjuncts currently asserted, one push level each
}

func solverArgs(kind string, timeoutMs int) (string, []string) {
	switch kind {
	case "z3":
		return "z3", []string{"-in", "-t:" + strconv.Itoa(timeoutMs)}
	case "z3-new":
		return "z3-new", []string{"-in", "-t:" + strconv.Itoa(timeoutMs)}
	case "cvc5":
		return "cvc5", []string{"--incremental", "--produce-models", "--lang=smt2", "--tlimit-per=" + strconv.Itoa(timeoutMs)}
	case "cvc5-int":
		return "cvc5", []string{"--incremental", "--produce-models", "--lang=smt2", "--solve-bv-as-int=sum", "--tlimit-per=" + strconv.Itoa(timeoutMs)}
	case "z3-bv1":
		return "z3-new", []string{"-in", "-t:" + strconv.Itoa(timeoutMs)}
	}
	panic("unknown solver " + kind)
}

func NewSolver(kind string, timeoutMs int) (*Solver, error) {
	s := &Solver{kind: kind, timeout: timeoutMs}
	if kind == "cvc5-int" || kind == "z3-int" || kind == "z3-bv1" {
		// cvc5's integer encoding degrades badly with accumulated incremental state:
		// every query goes to a fresh process with only the definitions it needs
		s.oneShot = true
		return s, nil
	}
	if d := os.Getenv("GOSYM_SMTLOG"); d != "" {
		f, _ := os.CreateTemp(d, "smt-"+kind+"-*.smt2")
		s.log = f
	}
	if err := s.start(); err != nil {
		return nil, err
	}
	return s, nil
}

func (s *Solver) start() error {
	bin, args := solverArgs(s.kind, s.timeout)
	s.cmd = exec.Command(bin, args...)
	w, err := s.cmd.StdinPipe()
	if err != nil {
		return err
	}
	r, err := s.cmd.StdoutPipe()
	if err != nil {
		return err
	}
	s.cmd.Stderr = nil
	if err := s.cmd.Start(); err != nil {
		return err
	}
	s.inRaw = w
	s.in = bufio.NewWriterSize(w, 1<<16)
	s.out = bufio.NewReaderSize(r, 1<<16)
	s.defined = map[int]bool{}
	s.nq = 0
	s.stack = nil
	s.defLog = nil
	s.marks = nil
	if strings.HasPrefix(s.kind, "cvc5") {
		s.send("(set-logic ALL)\n")
	}
	return nil
}

func (s *Solver) Close() {
	if s.cmd != nil {
		s.inRaw.Close()
		s.cmd.Process.Kill()
		s.cmd.Wait()
		s.cmd = nil
	}
}

func (s *Solver) restart() {
	s.Close()
	if err := s.start(); err != nil {
		panic(err)
	}
}

func (s *Solver) send(str string) {
	if s.log != nil {
		io.WriteString(s.log, str)
	}
	s.in.WriteString(str)
}

func sortOf(w int) string {
	if w == 0 {
		return "Bool"
	}
	return "(_ BitVec " + strconv.Itoa(w) + ")"
}

func constLit(w int, v uint64) string {
	if w == 0 {
		if v != 0 {
			return "true"
		}
		return "false"
	}
	if w%4 == 0 {
		return fmt.Sprintf("#x%0*x", w/4, v)
	}
	return fmt.Sprintf("#b%0*b", w, v)
}

func quoteName(n string) string { return "|" + n + "|" }

func (s *Solver) ref(t *Term) string {
	switch t.Op {
	case OpConst:
		return constLit(t.W, t.V)
	case OpVar:
		return quoteName(t.Name)
	}
	return "t" + strconv.Itoa(t.ID)
}

// define makes sure t and its sub-terms are known to the solver.
func (s *Solver) define(t *Term) {
	if t.Op == OpConst || s.defined[t.ID] {
		return
	}
	// iterative post-order to avoid deep recursion on long chains
	type fr struct {
		t *Term
		i int
	}
	st := []fr{{t, 0}}
	for len(st) > 0 {
		f := &st[len(st)-1]
		if f.t.Op == OpConst || s.defined[f.t.ID] {
			st = st[:len(st)-1]
			continue
		}
		if f.i < len(f.t.A) {
			c := f.t.A[f.i]
			f.i++
			if c.Op != OpConst && !s.defined[c.ID] {
				st = append(st, fr{c, 0})
			}
			continue
		}
		s.emitDef(f.t)
		s.defined[f.t.ID] = true
		s.defLog = append(s.defLog, f.t.ID)
		st = st[:len(st)-1]
	}
}

func (s *Solver) emitDef(t *Term) {
	if t.Op == OpVar {
		s.send("(declare-const " + quoteName(t.Name) + " " + sortOf(t.W) + ")\n")
		return
	}
	var sb strings.Builder
	sb.WriteString("(define-fun t")
	sb.WriteString(strconv.Itoa(t.ID))
	sb.WriteString(" () ")
	sb.WriteString(sortOf(t.W))
	sb.WriteString(" ")
	switch t.Op {
	case OpExtract:
		fmt.Fprintf(&sb, "((_ extract %d %d) %s)", t.Hi, t.Lo, s.ref(t.A[0]))
	case OpZExt:
		fmt.Fprintf(&sb, "((_ zero_extend %d) %s)", t.W-t.A[0].W, s.ref(t.A[0]))
	case OpSExt:
		fmt.Fprintf(&sb, "((_ sign_extend %d) %s)", t.W-t.A[0].W, s.ref(t.A[0]))
	default:
		sb.WriteString("(")
		sb.WriteString(opNames[t.Op])
		for _, a := range t.A {
			sb.WriteString(" ")
			sb.WriteString(s.ref(a))
		}
		sb.WriteString(")")
	}
	sb.WriteString(")\n")
	s.send(sb.String())
}

func (s *Solver) push() {
	s.send("(push 1)\n")
	s.marks = append(s.marks, len(s.defLog))
}

func (s *Solver) pop(n int) {
	if n <= 0 {
		return
	}
	s.send("(pop " + strconv.Itoa(n) + ")\n")
	m := s.marks[len(s.marks)-n]
	for _, id := range s.defLog[m:] {
		delete(s.defined, id)
	}
	s.defLog = s.defLog[:m]
	s.marks = s.marks[:len(s.marks)-n]
}

func (s *Solver) readLine() (string, error) {
	l, err := s.out.ReadString('\n')
	return strings.TrimSpace(l), err
}

// readSexp reads a balanced s-expression (possibly multi-line).
func (s *Solver) readSexp() (string, error) {
	var sb strings.Builder
	depth := 0
	started := false
	inBar := false
	for {
		c, err := s.out.ReadByte()
		if err != nil {
			return sb.String(), err
		}
		sb.WriteByte(c)
		if c == '|' {
			inBar = !inBar
		}
		if inBar {
			continue
		}
		if c == '(' {
			depth++
			started = true
		} else if c == ')' {
			depth--
			if started && depth == 0 {
				return sb.String(), nil
			}
		}
	}
}

// Check decides satisfiability of the conjunction of asserts.  When sat and
// wantModel, the model of every variable occurring in asserts (plus extra) is returned.
func (s *Solver) Check(asserts []*Term, wantModel bool, extra []*Term) (SatResult, map[string]uint64) {
	if s.kind == "z3-int" {
		return s.checkInt(asserts, wantModel)
	}
	if s.oneShot {
		return s.checkOneShot(asserts, wantModel)
	}
	t0 := time.Now()
	defer func() { s.Secs += time.Since(t0).Seconds(); s.Queries++ }()
	if s.nq > 50000 {
		s.restart()
	}
	s.nq++
	for _, a := range asserts {
		if a.IsFalse() {
			return Unsat, nil
		}
	}
	// the last assertion is the query; the others are the path condition, kept on the
	// solver's assertion stack across queries (one push level per conjunct)
	pc := asserts[:len(asserts)-1]
	q := asserts[len(asserts)-1]
	common := 0
	for common < len(s.stack) && common < len(pc) && s.stack[common] == pc[common] {
		common++
	}
	if n := len(s.stack) - common; n > 0 {
		s.pop(n)
		s.stack = s.stack[:common]
	}
	for _, a := range pc[common:] {
		s.push()
		s.define(a)
		if !a.IsTrue() {
			s.send("(assert " + s.ref(a) + ")\n")
		}
		s.stack = append(s.stack, a)
	}
	s.push()
	s.define(q)
	for _, a := range extra {
		s.define(a)
	}
	if !q.IsTrue() {
		s.send("(assert " + s.ref(q) + ")\n")
	}
	s.send("(check-sat)\n")
	s.in.Flush()
	line, err := s.readLine()
	for err == nil && line == "" {
		line, err = s.readLine()
	}
	res := Unknown
	switch {
	case err != nil:
		s.restart()
		s.Unknown++
		return Unknown, nil
	case line == "sat":
		res = Sat
	case line == "unsat":
		res = Unsat
	default:
		// unknown, timeout or (error ...): inconclusive
		res = Unknown
		s.Unknown++
		if strings.HasPrefix(line, "(error") {
			// state may be inconsistent: restart
			s.restart()
			return Unknown, nil
		}
	}
	var model map[string]uint64
	if res == Sat && wantModel {
		seen := map[*Term]bool{}
		var vars []*Term
		for _, a := range asserts {
			Vars(a, seen, &vars)
		}
		for _, a := range extra {
			Vars(a, seen, &vars)
		}
		model = map[string]uint64{}
		if len(vars) > 0 {
			var sb strings.Builder
			sb.WriteString("(get-value (")
			for _, v := range vars {
				sb.WriteString(quoteName(v.Name))
				sb.WriteString(" ")
			}
			sb.WriteString("))\n")
			s.send(sb.String())
			s.in.Flush()
			txt, err := s.readSexp()
			if err != nil || strings.Contains(txt, "(error") {
				s.restart()
				s.Unknown++
				return Unknown, nil
			}
			parseModel(txt, model)
		}
	}
	s.pop(1)
	return res, model
}

func parseModel(txt string, m map[string]uint64) {
	// ((|name| #x..) (|name2| true) ...)
	i := 0
	n := len(txt)
	for i < n {
		j := strings.IndexByte(txt[i:], '|')
		if j < 0 {
			return
		}
		i += j + 1
		k := strings.IndexByte(txt[i:], '|')
		if k < 0 {
			return
		}
		name := txt[i : i+k]
		i += k + 1
		// value token up to ')'
		e := strings.IndexByte(txt[i:], ')')
		if e < 0 {
			return
		}
		val := strings.TrimSpace(txt[i : i+e])
		i += e + 1
		switch {
		case val == "true":
			m[name] = 1
		case val == "false":
			m[name] = 0
		case strings.HasPrefix(val, "#x"):
			v, _ := strconv.ParseUint(val[2:], 16, 64)
			m[name] = v
		case strings.HasPrefix(val, "#b"):
			v, _ := strconv.ParseUint(val[2:], 2, 64)
			m[name] = v
		case len(val) > 0 && val[0] >= '0' && val[0] <= '9':
			v, _ := strconv.ParseUint(val, 10, 64)
			m[name] = v
		case strings.HasPrefix(val, "(_ bv"):
			f := strings.Fields(val[5:])
			v, _ := strconv.ParseUint(f[0], 10, 64)
			m[name] = v
			// consumed only up to first ')', fine
		}
	}
}

// checkOneShot runs a fresh solver process on a self-contained script.
func (s *Solver) checkOneShot(asserts []*Term, wantModel bool) (SatResult, map[string]uint64) {
	t0 := time.Now()
	defer func() { s.Secs += time.Since(t0).Seconds(); s.Queries++ }()
	for _, a := range asserts {
		if a.IsFalse() {
			return Unsat, nil
		}
	}
	var script strings.Builder
	saveIn, saveDef, saveLog := s.in, s.defined, s.log
	s.in = bufio.NewWriter(&script)
	s.defined = map[int]bool{}
	s.log = nil
	s.send("(set-logic ALL)\n")
	for _, a := range asserts {
		s.define(a)
	}
	for _, a := range asserts {
		if !a.IsTrue() {
			s.send("(assert " + s.ref(a) + ")\n")
		}
	}
	s.send("(check-sat)\n")
	var vars []*Term
	if wantModel {
		seen := map[*Term]bool{}
		for _, a := range asserts {
			Vars(a, seen, &vars)
		}
		if len(vars) > 0 {
			s.send("(get-value (")
			for _, v := range vars {
				s.send(quoteName(v.Name) + " ")
			}
			s.send("))\n")
		}
	}
	s.in.Flush()
	s.in, s.defined, s.log = saveIn, saveDef, saveLog
	if saveLog != nil {
		io.WriteString(saveLog, "; ---- one-shot ----\n"+script.String())
	}
	bin, args := solverArgs(s.kind, s.timeout)
	var a2 []string
	for _, a := range args {
		if a != "--incremental" {
			a2 = append(a2, a)
		}
	}
	cmd := exec.CommandContext(s.ctxOrBackground(), bin, a2...)
	cmd.Stdin = strings.NewReader(script.String())
	out, _ := cmd.Output()
	txt := string(out)
	first := strings.TrimSpace(txt)
	if i := strings.IndexByte(first, '\n'); i >= 0 {
		first = strings.TrimSpace(first[:i])
	}
	switch first {
	case "unsat":
		return Unsat, nil
	case "sat":
		m := map[string]uint64{}
		if wantModel && len(vars) > 0 {
			if strings.Contains(txt, "(error") {
				s.Unknown++
				return Unknown, nil
			}
			parseModel(txt, m)
		}
		return Sat, m
	}
	s.Unknown++
	return Unknown, nil
}

// ---- integer encoding (mathematical Int with explicit mod 2^w) ----

type intPrinter struct {
	sb      strings.Builder
	defined map[int]bool
	vars    []*Term
	err     error
}

func pow2(w int) string {
	if w < 63 {
		return strconv.FormatUint(uint64(1)<<uint(w), 10)
	}
	if w == 63 {
		return "9223372036854775808"
	}
	return "18446744073709551616"
}

func (p *intPrinter) ref(t *Term) string {
	switch t.Op {
	case OpConst:
		if t.W == 0 {
			if t.V != 0 {
				return "true"
			}
			return "false"
		}
		return strconv.FormatUint(t.V, 10)
	case OpVar:
		return quoteName(t.Name)
	}
	return "i" + strconv.Itoa(t.ID)
}

func (p *intPrinter) signed(t *Term) string {
	r := p.ref(t)
	return "(ite (>= " + r + " " + pow2(t.W-1) + ") (- " + r + " " + pow2(t.W) + ") " + r + ")"
}

func (p *intPrinter) define(t *Term) {
	if t.Op == OpConst || p.defined[t.ID] || p.err != nil {
		return
	}
	for _, a := range t.A {
		p.define(a)
	}
	p.defined[t.ID] = true
	if t.Op == OpVar {
		p.vars = append(p.vars, t)
		if t.W == 0 {
			p.sb.WriteString("(declare-const " + quoteName(t.Name) + " Bool)\n")
		} else {
			p.sb.WriteString("(declare-const " + quoteName(t.Name) + " Int)\n")
			p.sb.WriteString("(assert (and (<= 0 " + quoteName(t.Name) + ") (< " + quoteName(t.Name) + " " + pow2(t.W) + ")))\n")
		}
		return
	}
	sort := "Int"
	if t.W == 0 {
		sort = "Bool"
	}
	a := func(i int) string { return p.ref(t.A[i]) }
	m := pow2(t.W)
	var e string
	switch t.Op {
	case OpNot:
		e = "(not " + a(0) + ")"
	case OpAnd:
		e = "(and " + a(0) + " " + a(1) + ")"
	case OpOr:
		e = "(or " + a(0) + " " + a(1) + ")"
	case OpIte:
		e = "(ite " + a(0) + " " + a(1) + " " + a(2) + ")"
	case OpEq:
		e = "(= " + a(0) + " " + a(1) + ")"
	case OpUlt:
		e = "(< " + a(0) + " " + a(1) + ")"
	case OpUle:
		e = "(<= " + a(0) + " " + a(1) + ")"
	case OpSlt:
		e = "(< " + p.signed(t.A[0]) + " " + p.signed(t.A[1]) + ")"
	case OpSle:
		e = "(<= " + p.signed(t.A[0]) + " " + p.signed(t.A[1]) + ")"
	case OpAdd:
		e = "(mod (+ " + a(0) + " " + a(1) + ") " + m + ")"
	case OpSub:
		e = "(mod (- " + a(0) + " " + a(1) + ") " + m + ")"
	case OpMul:
		e = "(mod (* " + a(0) + " " + a(1) + ") " + m + ")"
	case OpNeg:
		e = "(mod (- " + a(0) + ") " + m + ")"
	case OpBNot:
		e = "(- " + strconv.FormatUint(mask(t.W), 10) + " " + a(0) + ")"
	case OpUDiv:
		e = "(ite (= " + a(1) + " 0) " + strconv.FormatUint(mask(t.W), 10) + " (div " + a(0) + " " + a(1) + "))"
	case OpURem:
		e = "(ite (= " + a(1) + " 0) " + a(0) + " (mod " + a(0) + " " + a(1) + "))"
	case OpSDiv, OpSRem:
		// truncated division on the signed readings (divisor assumed non-zero: Go panics before)
		x, y := p.signed(t.A[0]), p.signed(t.A[1])
		q := "(ite (>= " + x + " 0) (ite (> " + y + " 0) (div " + x + " " + y + ") (- (div " + x + " (- " + y + "))))" +
			" (ite (> " + y + " 0) (- (div (- " + x + ") " + y + ")) (div (- " + x + ") (- " + y + "))))"
		if t.Op == OpSDiv {
			e = "(ite (= " + a(1) + " 0) 0 (mod " + q + " " + m + "))"
		} else {
			e = "(ite (= " + a(1) + " 0) " + a(0) + " (mod (- " + x + " (* " + y + " " + q + ")) " + m + "))"
		}
	case OpConcat:
		e = "(+ (* " + a(0) + " " + pow2(t.A[1].W) + ") " + a(1) + ")"
	case OpExtract:
		e = "(mod (div " + a(0) + " " + pow2(t.Lo) + ") " + pow2(t.Hi-t.Lo+1) + ")"
	case OpZExt:
		e = a(0)
	case OpSExt:
		e = "(mod " + p.signed(t.A[0]) + " " + m + ")"
	case OpBAnd, OpBOr, OpBXor:
		// supported only when both operands are single bits wide or one is a low mask (handled by the simplifier)
		if t.W == 1 {
			switch t.Op {
			case OpBAnd:
				e = "(* " + a(0) + " " + a(1) + ")"
			case OpBOr:
				e = "(- (+ " + a(0) + " " + a(1) + ") (* " + a(0) + " " + a(1) + "))"
			default:
				e = "(mod (+ " + a(0) + " " + a(1) + ") 2)"
			}
		} else {
			p.err = fmt.Errorf("bitwise %s on non-constant operands has no integer encoding", opNames[t.Op])
			return
		}
	default:
		p.err = fmt.Errorf("%s has no integer encoding", opNames[t.Op])
		return
	}
	p.sb.WriteString("(define-fun i" + strconv.Itoa(t.ID) + " () " + sort + " " + e + ")\n")
}

// checkInt decides the conjunction in the integer encoding with a fresh z3 process.
func (s *Solver) checkInt(asserts []*Term, wantModel bool) (SatResult, map[string]uint64) {
	t0 := time.Now()
	defer func() { s.Secs += time.Since(t0).Seconds(); s.Queries++ }()
	p := &intPrinter{defined: map[int]bool{}}
	for _, a := range asserts {
		if a.IsFalse() {
			return Unsat, nil
		}
		p.define(a)
	}
	if p.err != nil {
		s.Unknown++
		return Unknown, nil
	}
	for _, a := range asserts {
		if !a.IsTrue() {
			p.sb.WriteString("(assert " + p.ref(a) + ")\n")
		}
	}
	p.sb.WriteString("(check-sat)\n")
	if wantModel && len(p.vars) > 0 {
		p.sb.WriteString("(get-value (")
		for _, v := range p.vars {
			p.sb.WriteString(quoteName(v.Name) + " ")
		}
		p.sb.WriteString("))\n")
	}
	if s.log != nil {
		io.WriteString(s.log, "; ---- int one-shot ----\n"+p.sb.String())
	}
	cmd := exec.CommandContext(s.ctxOrBackground(), "z3-new", "-in", "-t:"+strconv.Itoa(s.timeout))
	cmd.Stdin = strings.NewReader(p.sb.String())
	out, _ := cmd.Output()
	txt := string(out)
	first := strings.TrimSpace(txt)
	if i := strings.IndexByte(first, '\n'); i >= 0 {
		first = strings.TrimSpace(first[:i])
	}
	switch first {
	case "unsat":
		return Unsat, nil
	case "sat":
		m := map[string]uint64{}
		if wantModel && len(p.vars) > 0 {
			if strings.Contains(txt, "(error") {
				s.Unknown++
				return Unknown, nil
			}
			parseModel(txt, m)
		}
		return Sat, m
	}
	s.Unknown++
	return Unknown, nil
}

func (s *Solver) ctxOrBackground() context.Context {
	if s.ctx != nil {
		return s.ctx
	}
	return context.Background()
}
