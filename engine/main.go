package main

import (
	"flag"
	"fmt"
	"os"
	"strconv"
	"strings"
)

func main() {
	if len(os.Args) < 2 {
		fmt.Fprintln(os.Stderr, "usage: gosym run|check|replay ...")
		os.Exit(2)
	}
	switch os.Args[1] {
	case "run":
		cmdRun(os.Args[2:])
	case "check":
		os.Exit(cmdCheck(os.Args[2:]))
	case "replay":
		os.Exit(cmdReplay(os.Args[2:]))
	default:
		fmt.Fprintln(os.Stderr, "unknown command", os.Args[1])
		os.Exit(2)
	}
}

func parseInts(s string) []int {
	var r []int
	for _, f := range strings.Split(s, ",") {
		if f == "" {
			continue
		}
		v, err := strconv.Atoi(f)
		if err != nil {
			panic(err)
		}
		r = append(r, v)
	}
	return r
}

// cmdRun: debug entry, runs one harness and prints a summary.
func cmdRun(args []string) {
	fs := flag.NewFlagSet("run", flag.ExitOnError)
	repo := fs.String("repo", "/repo", "repository")
	hdir := fs.String("harness", "/verif/harness", "harness dir")
	pkg := fs.String("pkg", "", "package import path (relative to module ok)")
	fn := fs.String("func", "", "harness function")
	params := fs.String("params", "", "comma separated ints")
	workers := fs.Int("j", 16, "workers")
	steps := fs.Int("steps", 2000000, "max steps per path")
	tmo := fs.Int("timeout", 10000, "solver timeout ms")
	maxPaths := fs.Int("paths", 0, "stop after this many paths")
	fs.Parse(args)
	p := *pkg
	if !strings.Contains(p, ".") {
		p = modPath + "/" + p
	}
	ov, _, err := overlayFor(*repo, *hdir, "sym")
	if err != nil {
		panic(err)
	}
	prog, err := loadProgram(*repo, []string{p}, ov)
	if err != nil {
		fmt.Fprintln(os.Stderr, err)
		os.Exit(2)
	}
	spec := &HarnessSpec{Pkg: p, Func: *fn, Params: parseInts(*params), MaxPaths: *maxPaths}
	f, err := findHarness(prog, spec)
	if err != nil {
		fmt.Fprintln(os.Stderr, err)
		os.Exit(2)
	}
	run := &HarnessRun{Spec: spec, fn: f}
	pool := NewPool(prog, Config{MaxSteps: *steps, TimeoutMs: *tmo, Workers: *workers})
	if os.Getenv("GOSYM_FORKS") != "" {
		forkStats = map[string]int{}
	}
	pool.RunAll([]*HarnessRun{run})
	for k, v := range forkStats {
		if v > 3 {
			fmt.Printf("forks %6d  %s\n", v, k)
		}
	}
	fmt.Printf("harness %s: paths=%d vacuous=%d steps=%d solverVCs=%d syntVCs=%d wall=%.2fs\n", spec.ID(), run.Paths, run.Vacuous, run.Steps, run.SolverVCs, run.SyntVCs, run.Wall)
	fmt.Printf("reached: %v\n", run.Reached)
	for k, q := range pool.SolverQ {
		fmt.Printf("solver %s: %d queries %.2fs unknown=%d\n", k, q, pool.SolverS[k], pool.SolverU[k])
	}
	for _, m := range run.Inconclusive {
		fmt.Println("INCONCLUSIVE:", m)
	}
	for _, v := range run.Violations {
		fmt.Printf("VIOLATION %s [%s] %s\n", v.Label, v.Kind, v.Msg)
		for _, in := range v.Inputs {
			fmt.Printf("   %s = %#x\n", in.Name, v.Model[in.Name])
		}
	}
}
