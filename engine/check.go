package main

// The registered check: plan expansion, exploration, native replay/validation,
// known findings, evidence.

import (
	"bufio"
	"bytes"
	"encoding/json"
	"fmt"
	"os"
	"os/exec"
	"path/filepath"
	"sort"
	"strconv"
	"strings"
	"time"
)

type PlanSpec struct {
	Pkg      string   `json:"pkg"`
	Func     string   `json:"func"`
	Params   []int    `json:"params,omitempty"`
	Sweep    [][]int  `json:"sweep,omitempty"` // per parameter [lo,hi] inclusive: cartesian product
	Sets     [][]int  `json:"sets,omitempty"`  // explicit parameter tuples
	MaxSteps int      `json:"max_steps,omitempty"`
	MaxPaths int      `json:"max_paths,omitempty"`
	Note     string   `json:"note,omitempty"`
	Only     []string `json:"only_labels,omitempty"`
	Ignore   []string `json:"ignore_labels,omitempty"`
}

type PlanProp struct {
	Level       string     `json:"level"`
	Explanation string     `json:"explanation"`
	Bounds      []string   `json:"bounds"`
	Outside     []string   `json:"outside_bounds"`
	Assumptions []string   `json:"assumptions"`
	Stubs       []string   `json:"stubs"`
	Quick       []PlanSpec `json:"quick"`
	Thorough    []PlanSpec `json:"thorough"`
	Native      string     `json:"native,omitempty"` // "", "none", "synctest"
}

type KnownFinding struct {
	Property string `json:"property"`
	Harness  string `json:"harness"`
	Label    string `json:"label"`
	Status   string `json:"status"` // open | fixed
	Commit   string `json:"commit,omitempty"`
	What     string `json:"what"`
}

func expand(ps []PlanSpec) []*HarnessSpec {
	var out []*HarnessSpec
	for _, p := range ps {
		pkg := p.Pkg
		if !strings.Contains(pkg, ".") {
			pkg = modPath + "/" + pkg
		}
		if p.MaxPaths == 0 {
			// a run that forks without end (a change that makes a slice offset depend on input
			// bytes, say) ends as inconclusive instead of occupying the check for hours
			p.MaxPaths = 1000000
		}
		mk := func(params []int) {
			out = append(out, &HarnessSpec{Pkg: pkg, Func: p.Func, Params: append([]int(nil), params...), MaxSteps: p.MaxSteps, MaxPaths: p.MaxPaths, Note: p.Note, Only: p.Only, Ignore: p.Ignore})
		}
		switch {
		case len(p.Sweep) > 0:
			var rec func(i int, cur []int)
			rec = func(i int, cur []int) {
				if i == len(p.Sweep) {
					mk(cur)
					return
				}
				r := p.Sweep[i]
				if len(r) == 1 {
					rec(i+1, append(cur, r[0]))
					return
				}
				if len(r) == 2 {
					for v := r[0]; v <= r[1]; v++ {
						rec(i+1, append(cur, v))
					}
					return
				}
				for _, v := range r { // explicit list (3+ values)
					rec(i+1, append(cur, v))
				}
			}
			rec(0, nil)
		case len(p.Sets) > 0:
			for _, s := range p.Sets {
				mk(s)
			}
		default:
			mk(p.Params)
		}
	}
	return out
}

type nativeCase struct {
	Pkg     string            `json:"pkg"`
	ID      string            `json:"id"`
	Harness string            `json:"harness"`
	Params  []int             `json:"params"`
	Inputs  map[string]uint64 `json:"inputs"`
}

type nativeResult struct {
	Race   bool
	Fails  []string
	Reach  []string
	Obs    []obsVal
	Panic  string
	Seen   bool
	Assume bool
}

type checkCtx struct {
	repo, verif, hdir, outDir string
	prop                      string
	tier                      string
	seed                      int
	goBin                     string
	raceRun                   bool
	watchdog                  bool
	repeat                    int
	outBase                   string
}

func envOr(k, d string) string {
	if v := os.Getenv(k); v != "" {
		return v
	}
	return d
}

func cmdCheck(args []string) int {
	if len(args) < 1 {
		fmt.Fprintln(os.Stderr, "usage: gosym check <PROPERTY> [quick|thorough]")
		return 2
	}
	c := &checkCtx{repo: envOr("VERIF_REPO", "/repo"), verif: envOr("VERIF_DIR", "/verif"), prop: args[0], tier: "quick"}
	if len(args) > 1 {
		c.tier = args[1]
	}
	if t := os.Getenv("VERIF_TIER"); t != "" && len(args) < 2 {
		c.tier = t
	}
	c.seed, _ = strconv.Atoi(envOr("VERIF_SEED", "0"))
	c.hdir = filepath.Join(c.verif, "harness")
	c.outBase = envOr("VERIF_OUT", c.verif) // scratch evaluations (seeded changes) write elsewhere
	c.outDir = filepath.Join(c.outBase, "out", c.prop)
	os.MkdirAll(c.outDir, 0o755)
	t0 := time.Now()

	var plan map[string]*PlanProp
	data, err := os.ReadFile(filepath.Join(c.hdir, "plan.json"))
	if err != nil {
		fmt.Fprintln(os.Stderr, err)
		return 2
	}
	if err := json.Unmarshal(data, &plan); err != nil {
		fmt.Fprintln(os.Stderr, "plan.json:", err)
		return 2
	}
	pp := plan[c.prop]
	if pp == nil {
		fmt.Fprintln(os.Stderr, "no plan for property", c.prop)
		return 2
	}
	ps := pp.Quick
	if c.tier == "thorough" && len(pp.Thorough) > 0 {
		ps = pp.Thorough
	}
	gen, gerr := generateHarnessCached(c.repo)
	if gerr != nil {
		fmt.Fprintln(os.Stderr, "INCONCLUSIVE property="+c.prop+" reason=harness-generation-failed")
		fmt.Fprintln(os.Stderr, gerr)
		return 2
	}
	ps = append(append([]PlanSpec(nil), ps...), gen.specs[c.prop]...)
	specs := expand(ps)
	pkgSet := map[string]bool{}
	for _, s := range specs {
		pkgSet[s.Pkg] = true
	}
	var pkgs []string
	for p := range pkgSet {
		pkgs = append(pkgs, p)
	}
	sort.Strings(pkgs)

	ov, _, err := overlayFor(c.repo, c.hdir, "sym")
	if err != nil {
		fmt.Fprintln(os.Stderr, err)
		return 2
	}
	tl := time.Now()
	prog, err := loadProgram(c.repo, pkgs, ov)
	if err != nil {
		fmt.Fprintln(os.Stderr, "INCONCLUSIVE property="+c.prop+" reason=load-failed")
		fmt.Fprintln(os.Stderr, err)
		return 2
	}
	loadS := time.Since(tl).Seconds()
	var runs []*HarnessRun
	for _, s := range specs {
		f, err := findHarness(prog, s)
		if err != nil {
			fmt.Fprintln(os.Stderr, err)
			return 2
		}
		runs = append(runs, &HarnessRun{Spec: s, fn: f})
	}
	workers, _ := strconv.Atoi(envOr("VERIF_WORKERS", "16"))
	defTmo := "60000"
	if c.tier == "thorough" {
		defTmo = "240000" // the 1500-byte checksum composition needs minutes on a busy machine
	}
	tmo, _ := strconv.Atoi(envOr("VERIF_SOLVER_TIMEOUT_MS", defTmo))
	pool := NewPool(prog, Config{MaxSteps: 3000000, TimeoutMs: tmo, Workers: workers})
	te := time.Now()
	pool.RunAll(runs)
	exploreS := time.Since(te).Seconds()

	// ---- collect ----
	var inconclusive []string
	var viols []*Violation
	totalPaths, totalSteps, vac, solverVCs, syntVCs, nontriv := 0, int64(0), 0, 0, 0, 0
	funcs := map[string]bool{}
	var samples []*PathSample
	maxSteps := 0
	noEnd := 0
	for _, r := range runs {
		totalPaths += r.Paths
		totalSteps += r.Steps
		vac += r.Vacuous
		solverVCs += r.SolverVCs
		syntVCs += r.SyntVCs
		nontriv += r.Nontrivial
		if r.MaxStepsSeen > maxSteps {
			maxSteps = r.MaxStepsSeen
		}
		for f := range r.Funcs {
			funcs[f] = true
		}
		for _, m := range r.Inconclusive {
			inconclusive = append(inconclusive, r.Spec.ID()+": "+m)
		}
		viols = append(viols, r.Violations...)
		samples = append(samples, r.Samples...)
		if r.Reached["end"] == 0 && len(r.Violations) == 0 {
			noEnd++
			inconclusive = append(inconclusive, r.Spec.ID()+": vacuous harness (no path reaches the end)")
		}
	}

	// ---- native validation of sampled paths and replay of counterexamples ----
	var cases []nativeCase
	byID := map[string]*PathSample{}
	limit := 60
	if c.tier == "thorough" {
		limit = 200
	}
	// spread the samples over the runs
	sort.SliceStable(samples, func(i, j int) bool { return false })
	step := 1
	if len(samples) > limit {
		step = (len(samples) + limit - 1) / limit
	}
	for i := (c.seed % step); i < len(samples); i += step {
		s := samples[i]
		id := fmt.Sprintf("s%d", i)
		byID[id] = s
		cases = append(cases, nativeCase{Pkg: s.Pkg, ID: id, Harness: s.Harness, Params: s.Params, Inputs: s.raw})
	}
	violByID := map[string]*Violation{}
	for i, v := range viols {
		id := fmt.Sprintf("v%d", i)
		violByID[id] = v
		// counterexamples are replayed one per process, apart from the sampled paths (below): a
		// replay that ends in a fatal error (deadlock under synctest, a panic in another goroutine)
		// takes the test binary down and must not take other cases with it
	}
	validated, mismatches := 0, 0
	nativeRetries := 0
	nativeS := 0.0
	var results map[string]*nativeResult
	pkgOf := map[string]string{}
	for _, s := range specs {
		pkgOf[s.Func] = s.Pkg
	}
	if pp.Native != "none" && len(cases) > 0 {
		tn := time.Now()
		results, err = c.runNative(prog, specs, cases, pkgOf, pp.Native)
		nativeS = time.Since(tn).Seconds()
		if err != nil {
			inconclusive = append(inconclusive, "native replay failed: "+err.Error())
			if len(viols) > 0 {
				err = nil // on a broken tree sampled paths may die; the counterexamples are replayed below
			}
		}
	}
	if results == nil {
		results = map[string]*nativeResult{}
	}
	if pp.Native != "none" {
		// one process per counterexample, one counterexample per (harness, label), at most 8
		tn := time.Now()
		seenKey := map[string]bool{}
		nrun := 0
		vids := make([]string, 0, len(violByID))
		for id := range violByID {
			vids = append(vids, id)
		}
		sort.Slice(vids, func(i, j int) bool {
			a, _ := strconv.Atoi(vids[i][1:])
			b, _ := strconv.Atoi(vids[j][1:])
			return a < b
		})
		for _, id := range vids {
			v := violByID[id]
			key := v.Pkg + "|" + v.Harness + "|" + v.Label
			if v.Kind == "nontermination" || v.Kind == "race" || seenKey[key] || nrun >= 8 {
				continue
			}
			seenKey[key] = true
			nrun++
			c.repeat = 1
			if v.ScheduleDependent {
				c.repeat = 3000
			}
			if r2, err2 := c.runNative(prog, specs, []nativeCase{{Pkg: v.Pkg, ID: id, Harness: v.Harness, Params: v.Params, Inputs: v.Model}}, pkgOf, pp.Native); err2 == nil || len(r2) > 0 {
				for id2, r := range r2 {
					results[id2] = r
				}
			}
			c.repeat = 1
		}
		nativeS += time.Since(tn).Seconds()
	}
	sampleOK := func(s *PathSample, r *nativeResult) bool {
		if r == nil || !r.Seen || r.Panic != "" || len(s.countedFails(r.Fails)) > 0 || r.Assume || len(r.Obs) != len(s.obs) {
			return false
		}
		for i := range r.Obs {
			if r.Obs[i] != s.obs[i] {
				return false
			}
		}
		nr := append([]string(nil), r.Reach...)
		sort.Strings(nr)
		return strings.Join(uniq(nr), ",") == strings.Join(s.Reach, ",")
	}
	// the native scheduler and timers are not perfectly repeatable: a sampled path that disagrees
	// is replayed once more before it counts as a mismatch
	if pp.Native != "none" && err == nil {
		var again []nativeCase
		for _, cs := range cases {
			if s, ok := byID[cs.ID]; ok && !sampleOK(s, results[cs.ID]) {
				again = append(again, cs)
			}
		}
		if len(again) > 0 && len(again) <= 20 {
			if r2, err2 := c.runNative(prog, specs, again, pkgOf, pp.Native); err2 == nil {
				for id, r := range r2 {
					if sampleOK(byID[id], r) {
						results[id] = r
						nativeRetries++
					}
				}
			}
		}
	}
	// data races reported by the executor's happens-before analysis are confirmed by Go's race
	// detector on the same inputs
	if pp.Native != "none" {
		var raceCases []nativeCase
		for id, v := range violByID {
			if v.Kind == "race" {
				raceCases = append(raceCases, nativeCase{Pkg: v.Pkg, ID: id, Harness: v.Harness, Params: v.Params, Inputs: v.Model})
			}
		}
		if len(raceCases) > 0 {
			c.raceRun = true
			if r2, err2 := c.runNative(prog, specs, raceCases, pkgOf, pp.Native); err2 == nil {
				for id, r := range r2 {
					results[id] = r
				}
			}
			c.raceRun = false
		}
	}
	// paths that hit the unwinding bound: replayed one by one under a watchdog
	if pp.Native != "none" && pp.Native != "synctest" {
		n := 0
		for id, v := range violByID {
			if v.Kind != "nontermination" || n >= 3 {
				continue
			}
			n++
			c.watchdog = true
			if r2, err2 := c.runNative(prog, specs, []nativeCase{{Pkg: v.Pkg, ID: id, Harness: v.Harness, Params: v.Params, Inputs: v.Model}}, pkgOf, pp.Native); err2 == nil {
				for id2, r := range r2 {
					results[id2] = r
				}
			}
			c.watchdog = false
		}
	}
	for id, s := range byID {
		r := results[id]
		if r == nil || !r.Seen {
			if pp.Native != "none" && err == nil {
				inconclusive = append(inconclusive, "native run of sample "+id+" produced no result")
			}
			continue
		}
		ok := r.Panic == "" && len(s.countedFails(r.Fails)) == 0 && !r.Assume
		if ok {
			// compare observations and reach labels
			if len(r.Obs) != len(s.obs) {
				ok = false
			} else {
				for i := range r.Obs {
					if r.Obs[i] != s.obs[i] {
						ok = false
					}
				}
			}
			nr := append([]string(nil), r.Reach...)
			sort.Strings(nr)
			nr = uniq(nr)
			if strings.Join(nr, ",") != strings.Join(s.Reach, ",") {
				ok = false
			}
		}
		if ok {
			validated++
		} else {
			mismatches++
			inconclusive = append(inconclusive, fmt.Sprintf("replay-mismatch on sampled path %s %v: native fails=%v panic=%q assume=%v reach=%v obs=%v; predicted reach=%v obs=%v", s.Harness, s.Params, r.Fails, r.Panic, r.Assume, r.Reach, r.Obs, s.Reach, s.obs))
		}
	}

	// ---- violations: confirm natively, match known findings ----
	var known []KnownFinding
	if data, err := os.ReadFile(filepath.Join(c.verif, "known_findings.json")); err == nil {
		json.Unmarshal(data, &known)
	}
	reported := map[string]bool{}
	nViol := 0
	var violSamples []map[string]interface{}
	knownPrinted := map[int]bool{}
	ids := make([]string, 0, len(violByID))
	for id := range violByID {
		ids = append(ids, id)
	}
	sort.Slice(ids, func(i, j int) bool { a, _ := strconv.Atoi(ids[i][1:]); b, _ := strconv.Atoi(ids[j][1:]); return a < b })
	for _, id := range ids {
		v := violByID[id]
		key := v.Pkg + "|" + v.Harness + "|" + v.Label
		if reported[key] {
			continue
		}
		confirmed := true
		why := ""
		if pp.Native != "none" {
			r := results[id]
			switch {
			case r == nil || !r.Seen:
				confirmed = false
				why = "no native result"
			case v.Kind == "panic":
				confirmed = r.Panic != ""
				why = "native run did not panic"
			case v.Kind == "race":
				confirmed = r.Race
				why = "Go's race detector reported nothing on the replay"
			case v.Kind == "deadlock":
				confirmed = r.Panic != "" || contains(r.Fails, "deadlock")
				why = "native run did not deadlock"
			case v.Kind == "nontermination":
				confirmed = contains(r.Fails, "terminates")
				why = "native run ended within the watchdog's 20 s: the unwinding bound is too small for this path, not a termination failure"
			default:
				confirmed = contains(r.Fails, v.Label)
				why = fmt.Sprintf("native run did not fail label %q (fails=%v panic=%q)", v.Label, r.Fails, r.Panic)
			}
		}
		if !confirmed {
			inconclusive = append(inconclusive, fmt.Sprintf("replay-mismatch: counterexample for %s label %q does not reproduce natively (%s)", v.Harness, v.Label, why))
			continue
		}
		reported[key] = true
		cexPath := filepath.Join(c.outDir, fmt.Sprintf("cex-%s-%s-%s.json", sanitize(filepath.Base(v.Pkg)), v.Harness, sanitize(v.Label)))
		cex := map[string]interface{}{"property": c.prop, "harness": v.Harness, "params": v.Params, "label": v.Label, "kind": v.Kind, "message": v.Msg, "inputs": v.Model, "pkg": v.Pkg, "tier": c.tier}
		cd, _ := json.MarshalIndent(cex, "", " ")
		os.WriteFile(cexPath, cd, 0o644)
		isKnown := false
		for ki, k := range known {
			if k.Property == c.prop && k.Status == "open" && labelMatch(k.Harness, v.Harness) && labelMatch(k.Label, v.Label) {
				if !knownPrinted[ki] { // one line per listed finding, however many harnesses reach it
					fmt.Printf("KNOWN-FINDING: property=%s %s\n", c.prop, k.What)
					knownPrinted[ki] = true
				}
				isKnown = true
				break
			}
		}
		violSamples = append(violSamples, map[string]interface{}{"harness": v.Harness, "params": v.Params, "label": v.Label, "kind": v.Kind, "message": v.Msg, "known": isKnown, "replay": cexPath})
		if !isKnown {
			nViol++
			fmt.Printf("VIOLATION property=%s replay=%s\n", c.prop, cexPath)
			fmt.Printf("  harness=%s params=%v label=%q kind=%s %s\n", v.Harness, v.Params, v.Label, v.Kind, v.Msg)
		}
	}

	// ---- evidence ----
	fl := make([]string, 0, len(funcs))
	for f := range funcs {
		if !strings.Contains(f, ".Verif") && !strings.Contains(f, ".verif") && !strings.Contains(f, ".ref") {
			fl = append(fl, f)
		}
	}
	sort.Strings(fl)
	var sampleOut []interface{}
	for i, s := range samples {
		if i >= 6 {
			break
		}
		sampleOut = append(sampleOut, s)
	}
	for _, v := range violSamples {
		sampleOut = append(sampleOut, v)
	}
	if len(sampleOut) == 0 {
		sampleOut = append(sampleOut, map[string]string{"note": "no completed path"})
	}
	solverStats := map[string]interface{}{}
	queries := 0
	for k, q := range pool.SolverQ {
		solverStats[k] = map[string]interface{}{"queries": q, "seconds": round3(pool.SolverS[k]), "unknown": pool.SolverU[k]}
		queries += q
	}
	hl := []map[string]interface{}{}
	for i, r := range runs {
		if i >= 400 {
			break
		}
		hl = append(hl, map[string]interface{}{"harness": r.Spec.Func, "params": r.Spec.Params, "paths": r.Paths, "vacuous": r.Vacuous, "solver_vcs": r.SolverVCs, "syntactic_vcs": r.SyntVCs, "steps": r.Steps, "wall_s": round3(r.Wall), "violations": len(r.Violations)})
	}
	level := pp.Level
	if level == "" {
		level = "model_checking"
	}
	states := totalPaths
	if states < 1 {
		states = 1
	}
	trans := totalSteps
	if trans < 1 {
		trans = 1
	}
	ev := map[string]interface{}{
		"property_id": c.prop,
		"tier":        c.tier,
		"seed":        c.seed,
		"level":       level,
		"wall_s":      round3(time.Since(t0).Seconds()),
		"violations":  nViol,
		"assumptions": append([]string{"go/ssa translation of the source (x/tools v0.29.0)", "gosym's semantics of the SSA instructions it executes, validated per run by native replay of sampled paths", "SMT solvers z3 4.8.12 / cvc5 1.0.3 / z3 5.1.0"}, pp.Assumptions...),
		"coverage": map[string]interface{}{
			"explanation":                   pp.Explanation,
			"states":                        states,
			"transitions":                   trans,
			"traces_validated_against_impl": validated,
			"samples":                       sampleOut,
			"exhaustive":                    len(inconclusive) == 0,
			"evaluations":                   totalPaths,
			"distinct_nontrivial":           nontriv,
			"rule":                          "one evaluation = one explored symbolic path (a set of inputs sharing control flow); non-trivial = the path took at least one solver-decided branch, concretisation or assertion",
			"obligations":                   solverVCs + syntVCs,
			"discharged":                    solverVCs + syntVCs - len(viols),
			"obligations_solver":            solverVCs,
			"obligations_syntactic":         syntVCs,
			"vacuous_paths":                 vac,
			"functions_encoded":             fl,
			"bounds":                        pp.Bounds,
			"outside_bounds":                pp.Outside,
			"stubs":                         pp.Stubs,
			"solver":                        solverStats,
			"queries_discharged":            queries,
			"harness_runs":                  hl,
			"harness_runs_total":            len(runs),
			"max_steps_on_a_path":           maxSteps,
			"step_bound":                    3000000,
			"replay_mismatches":             mismatches,
			"native_replays_repeated":       nativeRetries,
			"inconclusive":                  inconclusive,
			"timing_s":                      map[string]float64{"load_and_ssa": round3(loadS), "explore": round3(exploreS), "native": round3(nativeS)},
			"trusted_base":                  []string{"go/ssa", "gosym executor", "z3/cvc5", "stub contracts listed under stubs"},
			"checker_cmd":                   "bin/gosym check " + c.prop + " " + c.tier,
			"generated_from_source":         map[string]interface{}{"counts": gen.counts, "uncovered": gen.uncovered},
		},
	}
	os.MkdirAll(filepath.Join(c.outBase, "evidence"), 0o755)
	ed, _ := json.MarshalIndent(ev, "", " ")
	os.WriteFile(filepath.Join(c.outBase, "evidence", c.prop+".json"), ed, 0o644)

	fmt.Printf("%s %s: %d harness runs, %d paths (%d vacuous), %d solver-decided + %d syntactic obligations, %d solver queries, %d native validations, wall %.1fs\n",
		c.prop, c.tier, len(runs), totalPaths, vac, solverVCs, syntVCs, queries, validated, time.Since(t0).Seconds())
	if nViol > 0 {
		return 1
	}
	if len(inconclusive) > 0 {
		for i, m := range inconclusive {
			if i >= 15 {
				fmt.Printf("  … %d more\n", len(inconclusive)-i)
				break
			}
			if len(m) > 1500 {
				m = m[:1500] + "…"
			}
			fmt.Printf("INCONCLUSIVE property=%s reason=%s\n", c.prop, m)
		}
		return 2
	}
	return 0
}

func labelMatch(pattern, label string) bool {
	if strings.HasSuffix(pattern, "*") {
		return strings.HasPrefix(label, strings.TrimSuffix(pattern, "*"))
	}
	return pattern == label
}

func round3(f float64) float64 { return float64(int64(f*1000+0.5)) / 1000 }

func contains(l []string, s string) bool {
	for _, x := range l {
		if x == s {
			return true
		}
	}
	return false
}

func uniq(l []string) []string {
	var r []string
	for i, s := range l {
		if i == 0 || s != l[i-1] {
			r = append(r, s)
		}
	}
	return r
}

func sanitize(s string) string {
	var sb strings.Builder
	for _, c := range s {
		if c >= 'a' && c <= 'z' || c >= 'A' && c <= 'Z' || c >= '0' && c <= '9' || c == '-' || c == '_' {
			sb.WriteRune(c)
		} else {
			sb.WriteByte('_')
		}
	}
	r := sb.String()
	if len(r) > 80 {
		r = r[:80]
	}
	return r
}

// runNative executes cases against the real build through `go test -overlay`.
func (c *checkCtx) runNative(prog *Program, specs []*HarnessSpec, cases []nativeCase, pkgOf map[string]string, mode string) (map[string]*nativeResult, error) {
	results := map[string]*nativeResult{}
	// group by package
	byPkg := map[string][]nativeCase{}
	for _, cs := range cases {
		p := cs.Pkg
		if p == "" {
			p = pkgOf[cs.Harness]
		}
		byPkg[p] = append(byPkg[p], cs)
	}
	ovMode := "native"
	if mode == "synctest" {
		ovMode = "native_sync"
	}
	ov, files, err := overlayFor(c.repo, c.hdir, ovMode)
	if err != nil {
		return nil, err
	}
	scratch := filepath.Join(c.outDir, "native")
	os.RemoveAll(scratch)
	os.MkdirAll(scratch, 0o755)
	replace := map[string]string{}
	n := 0
	for v, data := range ov {
		real := files[v]
		if strings.HasSuffix(real, ".tmpl") {
			n++
			real = filepath.Join(scratch, fmt.Sprintf("rt_%d.go", n))
			os.WriteFile(real, data, 0o644)
		}
		replace[v] = real
	}
	pkgs := make([]string, 0, len(byPkg))
	for p := range byPkg {
		pkgs = append(pkgs, p)
	}
	sort.Strings(pkgs)
	// dispatcher per package that has harnesses in the plan
	for _, p := range pkgs {
		sp := prog.pkgs[p]
		rel := strings.TrimPrefix(strings.TrimPrefix(p, modPath), "/")
		var sb strings.Builder
		sb.WriteString("//go:build verif\n\npackage " + sp.Pkg.Name() + "\n\nimport (\n\t\"encoding/json\"\n\t\"fmt\"\n\t\"os\"\n\t\"runtime\"\n\t\"strconv\"\n\t\"testing\"\n\t\"time\"\n")
		if mode == "synctest" {
			sb.WriteString("\t\"testing/synctest\"\n")
		}
		sb.WriteString(")\n\n")
		sb.WriteString("func verifDispatch(name string, p []int) {\n\tswitch name {\n")
		seen := map[string]bool{}
		for _, s := range specs {
			if s.Pkg != p || seen[s.Func] {
				continue
			}
			seen[s.Func] = true
			fn := sp.Func(s.Func)
			sb.WriteString("\tcase \"" + s.Func + "\":\n\t\t" + s.Func + "(")
			for i := range fn.Params {
				if i > 0 {
					sb.WriteString(", ")
				}
				fmt.Fprintf(&sb, "p[%d]", i)
			}
			sb.WriteString(")\n")
		}
		sb.WriteString("\tdefault:\n\t\tpanic(\"unknown harness \" + name)\n\t}\n}\n\n")
		sb.WriteString(`func TestVerifReplay(t *testing.T) {
	data, err := os.ReadFile(os.Getenv("VERIF_CASES"))
	if err != nil {
		t.Fatal(err)
	}
	var cases []struct {
		ID      string            ` + "`json:\"id\"`" + `
		Harness string            ` + "`json:\"harness\"`" + `
		Params  []int             ` + "`json:\"params\"`" + `
		Inputs  map[string]uint64 ` + "`json:\"inputs\"`" + `
	}
	if err := json.Unmarshal(data, &cases); err != nil {
		t.Fatal(err)
	}
	for _, c := range cases {
		fmt.Printf("VERIF-CASE %s\n", c.ID)
		if os.Getenv("VERIF_WATCHDOG") != "" {
			// termination check: the case runs beside a watchdog; a run that has not ended when
			// it expires is reported and the test binary exits
			done := make(chan struct{})
			c := c
			go func() {
				defer close(done)
				defer func() {
					if r := recover(); r != nil {
						fmt.Printf("VERIF-PANIC %v\n", r)
					}
				}()
				verifLoadCase(verifCase{Inputs: c.Inputs}, os.Stdout)
				verifDispatch(c.Harness, c.Params)
			}()
			deadline := time.After(20 * time.Second)
			tick := time.NewTicker(50 * time.Millisecond)
		wait:
			for {
				select {
				case <-done:
					break wait
				case <-deadline:
					fmt.Printf("VERIF-FAIL terminates\nVERIF-ENDCASE\n")
					os.Exit(0)
				case <-tick.C:
					// a run that never ends may also allocate without bound: stop at 1 GiB
					var ms runtime.MemStats
					runtime.ReadMemStats(&ms)
					if ms.HeapAlloc > 1<<30 {
						fmt.Printf("VERIF-FAIL terminates\nVERIF-ENDCASE\n")
						os.Exit(0)
					}
				}
			}
			tick.Stop()
			fmt.Printf("VERIF-ENDCASE\n")
			continue
		}
		// a counterexample that depends on the schedule is repeated (VERIF_REPEAT) until it shows:
		// the native scheduler cannot be told which interleaving to take
		reps := 1
		if n, err := strconv.Atoi(os.Getenv("VERIF_REPEAT")); err == nil && n > 1 {
			reps = n
		}
		for rep := 0; rep < reps; rep++ {
			before := verifFailCount
			panicked := false
			verifWrap(t, func() {
				defer func() {
					if r := recover(); r != nil {
						if _, ok := r.(verifAssumeFailed); ok {
							fmt.Printf("VERIF-ASSUME-FAILED\n")
							return
						}
						panicked = true
						fmt.Printf("VERIF-PANIC %v\n", r)
					}
				}()
				verifLoadCase(verifCase{Inputs: c.Inputs}, os.Stdout)
				verifResetClock()
				verifDispatch(c.Harness, c.Params)
			})
			if panicked || verifFailCount != before {
				break
			}
		}
		fmt.Printf("VERIF-ENDCASE\n")
	}
}
`)
		if mode == "synctest" {
			sb.WriteString("\nfunc verifWrap(t *testing.T, f func()) {\n\tsynctest.Test(t, func(t *testing.T) {\n\t\tverifBaseGoroutines = runtime.NumGoroutine()\n\t\tf()\n\t})\n}\n")
		} else {
			sb.WriteString("\nfunc verifWrap(t *testing.T, f func()) { f() }\n")
		}
		tf := filepath.Join(scratch, "replay_"+sanitize(rel)+"_test.go")
		os.WriteFile(tf, []byte(sb.String()), 0o644)
		replace[filepath.Join(c.repo, rel, "zz_verif_replay_test.go")] = tf
	}
	od, _ := json.Marshal(map[string]interface{}{"Replace": replace})
	ovPath := filepath.Join(scratch, "overlay.json")
	os.WriteFile(ovPath, od, 0o644)
	for _, p := range pkgs {
		rel := strings.TrimPrefix(strings.TrimPrefix(p, modPath), "/")
		cf := filepath.Join(scratch, "cases_"+sanitize(rel)+".json")
		cd, _ := json.Marshal(byPkg[p])
		os.WriteFile(cf, cd, 0o644)
		goBin := "go"
		env := append(os.Environ(), "GOFLAGS=-mod=mod", "GOPROXY=off", "GOSUMDB=off", "GOTOOLCHAIN=local", "VERIF_CASES="+cf)
		args := []string{"test", "-v", "-tags", "verif", "-vet=off", "-count=1", "-timeout", "8m", "-overlay", ovPath, "-run", "^TestVerifReplay$", "./" + rel}
		if mode == "synctest" {
			goBin = "go1.26.8"
		}
		if c.raceRun {
			args = append(args[:2], append([]string{"-race"}, args[2:]...)...)
		}
		if c.watchdog {
			env = append(env, "VERIF_WATCHDOG=20")
		}
		if c.repeat > 1 {
			env = append(env, fmt.Sprintf("VERIF_REPEAT=%d", c.repeat))
		}
		cmd := exec.Command(goBin, args...)
		cmd.Dir = c.repo
		cmd.Env = env
		var out bytes.Buffer
		cmd.Stdout = &out
		cmd.Stderr = &out
		runErr := cmd.Run()
		parseNative(out.Bytes(), results)
		os.WriteFile(filepath.Join(scratch, "output_"+sanitize(rel)+".txt"), out.Bytes(), 0o644)
		if runErr != nil && !bytes.Contains(out.Bytes(), []byte("VERIF-CASE")) {
			tail := out.String()
			if len(tail) > 2000 {
				tail = tail[len(tail)-2000:]
			}
			return results, fmt.Errorf("go test for %s: %v\n%s", p, runErr, tail)
		}
	}
	return results, nil
}

func parseNative(out []byte, results map[string]*nativeResult) {
	sc := bufio.NewScanner(bytes.NewReader(out))
	sc.Buffer(make([]byte, 1<<20), 1<<26)
	var cur *nativeResult
	for sc.Scan() {
		l := sc.Text()
		switch {
		case strings.HasPrefix(l, "VERIF-CASE "):
			cur = &nativeResult{}
			results[strings.TrimPrefix(l, "VERIF-CASE ")] = cur
		case cur == nil:
		case l == "VERIF-ENDCASE":
			cur.Seen = true
			cur = nil
		case strings.HasPrefix(l, "VERIF-FAIL "):
			cur.Fails = append(cur.Fails, strings.TrimPrefix(l, "VERIF-FAIL "))
		case strings.HasPrefix(l, "VERIF-REACH "):
			cur.Reach = append(cur.Reach, strings.TrimPrefix(l, "VERIF-REACH "))
		case strings.HasPrefix(l, "VERIF-OBS "):
			f := strings.Fields(l)
			o := obsVal{Label: f[1]}
			if len(f) > 2 {
				o.Hex = f[2]
			}
			cur.Obs = append(cur.Obs, o)
		case strings.Contains(l, "WARNING: DATA RACE"):
			cur.Race = true
		case strings.HasPrefix(l, "VERIF-PANIC "):
			cur.Panic = strings.TrimPrefix(l, "VERIF-PANIC ")
		case l == "VERIF-ASSUME-FAILED":
			cur.Assume = true
		}
	}
	// a test binary that died (uncaught panic in another goroutine, fatal error) leaves cur open
	if cur != nil {
		cur.Seen = true
		if cur.Panic == "" {
			cur.Panic = "test binary terminated abnormally"
		}
	}
}

// cmdReplay re-runs a recorded counterexample natively against the real build.
func cmdReplay(args []string) int {
	if len(args) < 1 {
		fmt.Fprintln(os.Stderr, "usage: gosym replay <cex.json>")
		return 2
	}
	data, err := os.ReadFile(args[0])
	if err != nil {
		fmt.Fprintln(os.Stderr, err)
		return 2
	}
	var cex struct {
		Property string            `json:"property"`
		Harness  string            `json:"harness"`
		Params   []int             `json:"params"`
		Label    string            `json:"label"`
		Kind     string            `json:"kind"`
		Pkg      string            `json:"pkg"`
		Inputs   map[string]uint64 `json:"inputs"`
	}
	if err := json.Unmarshal(data, &cex); err != nil {
		fmt.Fprintln(os.Stderr, err)
		return 2
	}
	c := &checkCtx{repo: envOr("VERIF_REPO", "/repo"), verif: envOr("VERIF_DIR", "/verif"), prop: cex.Property}
	c.hdir = filepath.Join(c.verif, "harness")
	c.outDir = filepath.Join(c.verif, "out", cex.Property+"-replay")
	os.MkdirAll(c.outDir, 0o755)
	ov, _, err := overlayFor(c.repo, c.hdir, "sym")
	if err != nil {
		fmt.Fprintln(os.Stderr, err)
		return 2
	}
	prog, err := loadProgram(c.repo, []string{cex.Pkg}, ov)
	if err != nil {
		fmt.Fprintln(os.Stderr, err)
		return 2
	}
	spec := &HarnessSpec{Pkg: cex.Pkg, Func: cex.Harness, Params: cex.Params}
	mode := ""
	var plan map[string]*PlanProp
	if pd, err := os.ReadFile(filepath.Join(c.hdir, "plan.json")); err == nil {
		json.Unmarshal(pd, &plan)
		if pp := plan[cex.Property]; pp != nil {
			mode = pp.Native
		}
	}
	c.watchdog = cex.Kind == "nontermination"
	res, err := c.runNative(prog, []*HarnessSpec{spec}, []nativeCase{{Pkg: cex.Pkg, ID: "cex", Harness: cex.Harness, Params: cex.Params, Inputs: cex.Inputs}}, map[string]string{cex.Harness: cex.Pkg}, mode)
	if err != nil {
		fmt.Fprintln(os.Stderr, err)
		return 2
	}
	r := res["cex"]
	if r == nil {
		fmt.Println("no result from native run")
		return 2
	}
	fmt.Printf("native replay of %s %v: failed assertions=%v panic=%q\n", cex.Harness, cex.Params, r.Fails, r.Panic)
	reproduced := false
	switch cex.Kind {
	case "panic", "deadlock":
		reproduced = r.Panic != "" || contains(r.Fails, "deadlock")
	default:
		reproduced = contains(r.Fails, cex.Label)
	}
	if reproduced {
		fmt.Printf("REPRODUCED property=%s label=%q\n", cex.Property, cex.Label)
		return 1
	}
	fmt.Println("not reproduced")
	return 0
}
