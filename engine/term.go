package main

// Term IR: hash-consed bit-vector / bool terms with a simplifier and a
// concrete evaluator.  Width 0 means Bool.

import (
	"fmt"
	"strconv"
	"strings"
)

type Op uint8

const (
	OpConst Op = iota
	OpVar
	OpNot
	OpAnd
	OpOr
	OpIte
	OpEq
	OpUlt
	OpUle
	OpSlt
	OpSle
	OpAdd
	OpSub
	OpMul
	OpUDiv
	OpURem
	OpSDiv
	OpSRem
	OpBAnd
	OpBOr
	OpBXor
	OpBNot
	OpNeg
	OpShl
	OpLShr
	OpAShr
	OpConcat
	OpExtract
	OpZExt
	OpSExt
)

var opNames = map[Op]string{
	OpNot: "not", OpAnd: "and", OpOr: "or", OpIte: "ite", OpEq: "=",
	OpUlt: "bvult", OpUle: "bvule", OpSlt: "bvslt", OpSle: "bvsle",
	OpAdd: "bvadd", OpSub: "bvsub", OpMul: "bvmul", OpUDiv: "bvudiv", OpURem: "bvurem",
	OpSDiv: "bvsdiv", OpSRem: "bvsrem", OpBAnd: "bvand", OpBOr: "bvor", OpBXor: "bvxor",
	OpBNot: "bvnot", OpNeg: "bvneg", OpShl: "bvshl", OpLShr: "bvlshr", OpAShr: "bvashr",
	OpConcat: "concat",
}

type Term struct {
	Op     Op
	W      int // bit width, 0 = Bool
	A      []*Term
	V      uint64 // constant value
	Name   string // variable name
	Hi, Lo int    // extract
	ID     int
	Hard   bool // contains wide multiplication/division: bit-blasting is hopeless, prefer the integer encoding
}

func (t *Term) IsConst() bool { return t.Op == OpConst }
func (t *Term) IsTrue() bool  { return t.Op == OpConst && t.W == 0 && t.V == 1 }
func (t *Term) IsFalse() bool { return t.Op == OpConst && t.W == 0 && t.V == 0 }

func mask(w int) uint64 {
	if w >= 64 {
		return ^uint64(0)
	}
	return (uint64(1) << uint(w)) - 1
}

func signExt(v uint64, w int) int64 {
	if w >= 64 {
		return int64(v)
	}
	if v&(1<<uint(w-1)) != 0 {
		return int64(v | ^mask(w))
	}
	return int64(v)
}

// TB is a term builder with hash-consing.  One per worker (not thread safe).
type TB struct {
	tab  map[string]*Term
	next int
	T, F *Term
}

func NewTB() *TB {
	b := &TB{tab: map[string]*Term{}}
	b.T = b.mk(&Term{Op: OpConst, W: 0, V: 1})
	b.F = b.mk(&Term{Op: OpConst, W: 0, V: 0})
	return b
}

func (b *TB) mk(t *Term) *Term {
	var sb strings.Builder
	sb.WriteByte(byte(t.Op) + 'A')
	sb.WriteString(strconv.Itoa(t.W))
	switch t.Op {
	case OpConst:
		sb.WriteByte(':')
		sb.WriteString(strconv.FormatUint(t.V, 16))
	case OpVar:
		sb.WriteByte(':')
		sb.WriteString(t.Name)
	case OpExtract:
		sb.WriteByte(':')
		sb.WriteString(strconv.Itoa(t.Hi))
		sb.WriteByte(':')
		sb.WriteString(strconv.Itoa(t.Lo))
	}
	for _, a := range t.A {
		sb.WriteByte(',')
		sb.WriteString(strconv.Itoa(a.ID))
	}
	k := sb.String()
	if x, ok := b.tab[k]; ok {
		return x
	}
	switch t.Op {
	case OpMul, OpUDiv, OpURem, OpSDiv, OpSRem:
		if t.W >= 32 {
			t.Hard = true
		}
	}
	for _, a := range t.A {
		if a.Hard {
			t.Hard = true
		}
	}
	t.ID = b.next
	b.next++
	b.tab[k] = t
	return t
}

func (b *TB) Const(w int, v uint64) *Term {
	if w == 0 {
		if v != 0 {
			return b.T
		}
		return b.F
	}
	return b.mk(&Term{Op: OpConst, W: w, V: v & mask(w)})
}
func (b *TB) Bool(v bool) *Term {
	if v {
		return b.T
	}
	return b.F
}
func (b *TB) Var(w int, name string) *Term { return b.mk(&Term{Op: OpVar, W: w, Name: name}) }

func (b *TB) Not(x *Term) *Term {
	if x.W != 0 {
		panic("Not on non-bool")
	}
	if x.IsConst() {
		return b.Bool(x.V == 0)
	}
	if x.Op == OpNot {
		return x.A[0]
	}
	return b.mk(&Term{Op: OpNot, W: 0, A: []*Term{x}})
}

func (b *TB) And(x, y *Term) *Term {
	if x.IsFalse() || y.IsFalse() {
		return b.F
	}
	if x.IsTrue() {
		return y
	}
	if y.IsTrue() {
		return x
	}
	if x == y {
		return x
	}
	if (x.Op == OpNot && x.A[0] == y) || (y.Op == OpNot && y.A[0] == x) {
		return b.F
	}
	return b.mk(&Term{Op: OpAnd, W: 0, A: []*Term{x, y}})
}

func (b *TB) Or(x, y *Term) *Term {
	if x.IsTrue() || y.IsTrue() {
		return b.T
	}
	if x.IsFalse() {
		return y
	}
	if y.IsFalse() {
		return x
	}
	if x == y {
		return x
	}
	if (x.Op == OpNot && x.A[0] == y) || (y.Op == OpNot && y.A[0] == x) {
		return b.T
	}
	return b.mk(&Term{Op: OpOr, W: 0, A: []*Term{x, y}})
}

func (b *TB) AndN(xs ...*Term) *Term {
	r := b.T
	for _, x := range xs {
		r = b.And(r, x)
	}
	return r
}

func (b *TB) Ite(c, x, y *Term) *Term {
	if c.W != 0 || x.W != y.W {
		panic(fmt.Sprintf("Ite width mismatch %d %d %d", c.W, x.W, y.W))
	}
	if c.IsConst() {
		if c.V != 0 {
			return x
		}
		return y
	}
	if x == y {
		return x
	}
	if x.W == 0 {
		if x.IsTrue() && y.IsFalse() {
			return c
		}
		if x.IsFalse() && y.IsTrue() {
			return b.Not(c)
		}
		if x.IsTrue() {
			return b.Or(c, y)
		}
		if x.IsFalse() {
			return b.And(b.Not(c), y)
		}
		if y.IsTrue() {
			return b.Or(b.Not(c), x)
		}
		if y.IsFalse() {
			return b.And(c, x)
		}
	}
	if c.Op == OpNot {
		return b.Ite(c.A[0], y, x)
	}
	// ite(c, ite(c, a, b), y) -> ite(c, a, y)
	if x.Op == OpIte && x.A[0] == c {
		return b.Ite(c, x.A[1], y)
	}
	if y.Op == OpIte && y.A[0] == c {
		return b.Ite(c, x, y.A[2])
	}
	return b.mk(&Term{Op: OpIte, W: x.W, A: []*Term{c, x, y}})
}

// maxU returns an upper bound on the unsigned value of t.
func maxU(t *Term) uint64 {
	switch t.Op {
	case OpConst:
		return t.V
	case OpZExt:
		return maxU(t.A[0])
	case OpConcat:
		// hi bits zero?
		hi := t.A[0]
		if hi.IsConst() && hi.V == 0 {
			return maxU(t.A[1])
		}
	case OpIte:
		a, c := maxU(t.A[1]), maxU(t.A[2])
		if a > c {
			return a
		}
		return c
	case OpBAnd:
		a, c := maxU(t.A[0]), maxU(t.A[1])
		if a < c {
			return a
		}
		return c
	case OpURem:
		if t.A[1].IsConst() && t.A[1].V > 0 {
			return t.A[1].V - 1
		}
	case OpLShr:
		if t.A[1].IsConst() && t.A[1].V < 64 {
			return maxU(t.A[0]) >> t.A[1].V
		}
	}
	return mask(t.W)
}

func (b *TB) Eq(x, y *Term) *Term {
	if x.W != y.W {
		panic(fmt.Sprintf("Eq width mismatch %d %d: %s vs %s", x.W, y.W, x.String(), y.String()))
	}
	if x == y {
		return b.T
	}
	if x.IsConst() && y.IsConst() {
		return b.Bool(x.V == y.V)
	}
	if x.IsConst() {
		x, y = y, x
	}
	if x.W == 0 {
		if y.IsTrue() {
			return x
		}
		if y.IsFalse() {
			return b.Not(x)
		}
	}
	if y.IsConst() {
		switch x.Op {
		case OpIte:
			a, c := x.A[1], x.A[2]
			if a.IsConst() && c.IsConst() {
				ea, ec := a.V == y.V, c.V == y.V
				switch {
				case ea && ec:
					return b.T
				case ea:
					return x.A[0]
				case ec:
					return b.Not(x.A[0])
				default:
					return b.F
				}
			}
			if a.IsConst() || c.IsConst() {
				return b.Ite(x.A[0], b.Eq(a, y), b.Eq(c, y))
			}
		case OpZExt:
			in := x.A[0]
			if y.V > mask(in.W) {
				return b.F
			}
			return b.Eq(in, b.Const(in.W, y.V))
		case OpConcat:
			hi, lo := x.A[0], x.A[1]
			return b.And(b.Eq(hi, b.Const(hi.W, y.V>>uint(lo.W))), b.Eq(lo, b.Const(lo.W, y.V)))
		}
		if y.V > maxU(x) {
			return b.F
		}
	}
	if x.Op == OpZExt && y.Op == OpZExt && x.A[0].W == y.A[0].W {
		return b.Eq(x.A[0], y.A[0])
	}
	if x.ID > y.ID {
		x, y = y, x
	}
	return b.mk(&Term{Op: OpEq, W: 0, A: []*Term{x, y}})
}

func (b *TB) cmp(op Op, x, y *Term) *Term {
	if x.W != y.W {
		panic(fmt.Sprintf("cmp width mismatch %d %d", x.W, y.W))
	}
	w := x.W
	if x.IsConst() && y.IsConst() {
		switch op {
		case OpUlt:
			return b.Bool(x.V < y.V)
		case OpUle:
			return b.Bool(x.V <= y.V)
		case OpSlt:
			return b.Bool(signExt(x.V, w) < signExt(y.V, w))
		case OpSle:
			return b.Bool(signExt(x.V, w) <= signExt(y.V, w))
		}
	}
	if x == y {
		return b.Bool(op == OpUle || op == OpSle)
	}
	// bound based reasoning, only when both sides are known non-negative small
	mx, my := maxU(x), maxU(y)
	small := func(m uint64) bool { return w >= 64 && m < 1<<62 || w < 64 && m < 1<<uint(w-1) }
	signedOK := small(mx) && small(my)
	if op == OpSlt && signedOK {
		op = OpUlt
	}
	if op == OpSle && signedOK {
		op = OpUle
	}
	switch op {
	case OpUlt:
		if y.IsConst() && y.V == 0 {
			return b.F
		}
		if y.IsConst() && mx < y.V {
			return b.T
		}
		if x.IsConst() && x.V >= my {
			return b.F
		}
		if x.Op == OpZExt && y.Op == OpZExt && x.A[0].W == y.A[0].W {
			return b.cmp(OpUlt, x.A[0], y.A[0])
		}
		if x.Op == OpZExt && y.IsConst() && y.V <= mask(x.A[0].W) {
			return b.cmp(OpUlt, x.A[0], b.Const(x.A[0].W, y.V))
		}
		if y.Op == OpZExt && x.IsConst() && x.V <= mask(y.A[0].W) {
			return b.cmp(OpUlt, b.Const(y.A[0].W, x.V), y.A[0])
		}
	case OpUle:
		if x.IsConst() && x.V == 0 {
			return b.T
		}
		if y.IsConst() && mx <= y.V {
			return b.T
		}
		if x.IsConst() && x.V > my {
			return b.F
		}
		if x.Op == OpZExt && y.Op == OpZExt && x.A[0].W == y.A[0].W {
			return b.cmp(OpUle, x.A[0], y.A[0])
		}
		if x.Op == OpZExt && y.IsConst() && y.V <= mask(x.A[0].W) {
			return b.cmp(OpUle, x.A[0], b.Const(x.A[0].W, y.V))
		}
		if y.Op == OpZExt && x.IsConst() && x.V <= mask(y.A[0].W) {
			return b.cmp(OpUle, b.Const(y.A[0].W, x.V), y.A[0])
		}
	}
	return b.mk(&Term{Op: op, W: 0, A: []*Term{x, y}})
}

func (b *TB) Ult(x, y *Term) *Term { return b.cmp(OpUlt, x, y) }
func (b *TB) Ule(x, y *Term) *Term { return b.cmp(OpUle, x, y) }
func (b *TB) Slt(x, y *Term) *Term { return b.cmp(OpSlt, x, y) }
func (b *TB) Sle(x, y *Term) *Term { return b.cmp(OpSle, x, y) }

// seg is a run of bits: T==nil means zero bits.
type seg struct {
	w int
	t *Term
}

// segments decomposes t (msb first) into concatenated pieces.
func (b *TB) segments(t *Term) []seg {
	switch t.Op {
	case OpConst:
		if t.V == 0 {
			return []seg{{t.W, nil}}
		}
	case OpConcat:
		return append(b.segments(t.A[0]), b.segments(t.A[1])...)
	case OpZExt:
		return append([]seg{{t.W - t.A[0].W, nil}}, b.segments(t.A[0])...)
	}
	return []seg{{t.W, t}}
}

func (b *TB) fromSegments(s []seg) *Term {
	var r *Term
	for _, x := range s {
		t := x.t
		if t == nil {
			t = b.Const(x.w, 0)
		}
		if r == nil {
			r = t
		} else {
			r = b.Concat(r, t)
		}
	}
	return r
}

// mergeDisjoint merges x and y if their non-zero segments do not overlap
// (then x|y == x^y == x+y).
func (b *TB) mergeDisjoint(x, y *Term) *Term {
	sx, sy := b.segments(x), b.segments(y)
	if len(sx) == 1 && sx[0].t != nil && len(sy) == 1 && sy[0].t != nil {
		return nil
	}
	// walk both from msb
	var out []seg
	i, j := 0, 0
	var cx, cy seg
	hx, hy := false, false
	for {
		if !hx {
			if i >= len(sx) {
				break
			}
			cx = sx[i]
			i++
			hx = true
		}
		if !hy {
			if j >= len(sy) {
				break
			}
			cy = sy[j]
			j++
			hy = true
		}
		w := cx.w
		if cy.w < w {
			w = cy.w
		}
		if cx.t != nil && cy.t != nil {
			return nil
		}
		take := func(c *seg) *Term {
			if c.t == nil {
				return nil
			}
			if c.w == w {
				return c.t
			}
			return b.Extract(c.t, c.w-1, c.w-w)
		}
		tx, ty := take(&cx), take(&cy)
		t := tx
		if t == nil {
			t = ty
		}
		out = append(out, seg{w, t})
		rest := func(c *seg, h *bool) {
			if c.w == w {
				*h = false
				return
			}
			if c.t != nil {
				c.t = b.Extract(c.t, c.w-w-1, 0)
			}
			c.w -= w
		}
		rest(&cx, &hx)
		rest(&cy, &hy)
	}
	return b.fromSegments(out)
}

func (b *TB) bin(op Op, x, y *Term) *Term {
	if x.W != y.W || x.W == 0 {
		panic(fmt.Sprintf("bin %v width mismatch %d %d", opNames[op], x.W, y.W))
	}
	w := x.W
	m := mask(w)
	if x.IsConst() && y.IsConst() {
		return b.Const(w, foldBin(op, w, x.V, y.V))
	}
	commut := op == OpAdd || op == OpMul || op == OpBAnd || op == OpBOr || op == OpBXor
	if commut && x.IsConst() {
		x, y = y, x
	}
	if y.IsConst() {
		c := y.V
		switch op {
		case OpAdd, OpSub, OpBOr, OpBXor:
			if c == 0 {
				return x
			}
			if op == OpBOr && c == m {
				return y
			}
		case OpMul:
			if c == 0 {
				return y
			}
			if c == 1 {
				return x
			}
			if c&(c-1) == 0 {
				k := 0
				for c>>uint(k) != 1 {
					k++
				}
				return b.bin(OpShl, x, b.Const(w, uint64(k)))
			}
		case OpUDiv, OpSDiv:
			if c == 1 {
				return x
			}
		case OpBAnd:
			if c == 0 {
				return y
			}
			if c == m {
				return x
			}
			// mask of low k bits
			if c&(c+1) == 0 {
				k := 0
				for c>>uint(k) != 0 {
					k++
				}
				return b.ZExt(b.Extract(x, k-1, 0), w)
			}
			// mask of high bits within a byte etc: single contiguous run
			{
				lo := 0
				for (c>>uint(lo))&1 == 0 {
					lo++
				}
				run := c >> uint(lo)
				if run&(run+1) == 0 {
					k := 0
					for run>>uint(k) != 0 {
						k++
					}
					mid := b.Extract(x, lo+k-1, lo)
					r := b.Concat(mid, b.Const(lo, 0))
					return b.ZExt(r, w)
				}
			}
		case OpShl:
			if c == 0 {
				return x
			}
			if c >= uint64(w) {
				return b.Const(w, 0)
			}
			return b.Concat(b.Extract(x, w-1-int(c), 0), b.Const(int(c), 0))
		case OpLShr:
			if c == 0 {
				return x
			}
			if c >= uint64(w) {
				return b.Const(w, 0)
			}
			return b.ZExt(b.Extract(x, w-1, int(c)), w)
		case OpAShr:
			if c == 0 {
				return x
			}
		}
	}
	if x.IsConst() && x.V == 0 {
		switch op {
		case OpShl, OpLShr, OpAShr, OpUDiv, OpURem, OpMul, OpBAnd:
			return x
		}
	}
	if x == y {
		switch op {
		case OpSub, OpBXor:
			return b.Const(w, 0)
		case OpBAnd, OpBOr:
			return x
		}
	}
	if op == OpBOr || op == OpBXor || op == OpAdd {
		if r := b.mergeDisjoint(x, y); r != nil {
			return r
		}
	}
	// (x + c1) + c2
	if op == OpAdd && y.IsConst() && x.Op == OpAdd && x.A[1].IsConst() {
		return b.bin(OpAdd, x.A[0], b.Const(w, x.A[1].V+y.V))
	}
	if op == OpSub && y.IsConst() {
		return b.bin(OpAdd, x, b.Const(w, -y.V))
	}
	if commut && x.ID > y.ID && !y.IsConst() {
		x, y = y, x
	}
	return b.mk(&Term{Op: op, W: w, A: []*Term{x, y}})
}

func foldBin(op Op, w int, a, c uint64) uint64 {
	m := mask(w)
	var r uint64
	switch op {
	case OpAdd:
		r = a + c
	case OpSub:
		r = a - c
	case OpMul:
		r = a * c
	case OpUDiv:
		if c == 0 {
			r = m
		} else {
			r = a / c
		}
	case OpURem:
		if c == 0 {
			r = a
		} else {
			r = a % c
		}
	case OpSDiv:
		sa, sc := signExt(a, w), signExt(c, w)
		if sc == 0 {
			if sa < 0 {
				r = 1
			} else {
				r = m
			}
		} else if sc == -1 {
			r = uint64(-sa)
		} else {
			r = uint64(sa / sc)
		}
	case OpSRem:
		sa, sc := signExt(a, w), signExt(c, w)
		if sc == 0 {
			r = a
		} else if sc == -1 {
			r = 0
		} else {
			r = uint64(sa % sc)
		}
	case OpBAnd:
		r = a & c
	case OpBOr:
		r = a | c
	case OpBXor:
		r = a ^ c
	case OpShl:
		if c >= uint64(w) {
			r = 0
		} else {
			r = a << c
		}
	case OpLShr:
		if c >= uint64(w) {
			r = 0
		} else {
			r = a >> c
		}
	case OpAShr:
		sa := signExt(a, w)
		if c >= uint64(w) {
			if sa < 0 {
				r = m
			} else {
				r = 0
			}
		} else {
			r = uint64(sa >> c)
		}
	}
	return r & m
}

func (b *TB) Add(x, y *Term) *Term  { return b.bin(OpAdd, x, y) }
func (b *TB) Sub(x, y *Term) *Term  { return b.bin(OpSub, x, y) }
func (b *TB) Mul(x, y *Term) *Term  { return b.bin(OpMul, x, y) }
func (b *TB) BAnd(x, y *Term) *Term { return b.bin(OpBAnd, x, y) }
func (b *TB) BOr(x, y *Term) *Term  { return b.bin(OpBOr, x, y) }
func (b *TB) BXor(x, y *Term) *Term { return b.bin(OpBXor, x, y) }

func (b *TB) BNot(x *Term) *Term {
	if x.IsConst() {
		return b.Const(x.W, ^x.V)
	}
	if x.Op == OpBNot {
		return x.A[0]
	}
	return b.mk(&Term{Op: OpBNot, W: x.W, A: []*Term{x}})
}
func (b *TB) Neg(x *Term) *Term {
	if x.IsConst() {
		return b.Const(x.W, -x.V)
	}
	return b.mk(&Term{Op: OpNeg, W: x.W, A: []*Term{x}})
}

func (b *TB) Concat(hi, lo *Term) *Term {
	if hi.W == 0 || lo.W == 0 {
		panic("concat of bool")
	}
	w := hi.W + lo.W
	if w > 64 {
		panic("concat wider than 64")
	}
	if hi.IsConst() && lo.IsConst() {
		return b.Const(w, hi.V<<uint(lo.W)|lo.V)
	}
	if hi.IsConst() && hi.V == 0 {
		return b.ZExt(lo, w)
	}
	// adjacent extracts of the same term
	if hi.Op == OpExtract && lo.Op == OpExtract && hi.A[0] == lo.A[0] && hi.Lo == lo.Hi+1 {
		return b.Extract(hi.A[0], hi.Hi, lo.Lo)
	}
	// concat(a, concat(b,c)) where a,b adjacent extracts
	if hi.Op == OpExtract && lo.Op == OpConcat && lo.A[0].Op == OpExtract && hi.A[0] == lo.A[0].A[0] && hi.Lo == lo.A[0].Hi+1 {
		return b.Concat(b.Extract(hi.A[0], hi.Hi, lo.A[0].Lo), lo.A[1])
	}
	// left-assoc normal form: concat(concat(a,b),c) with b,c adjacent
	if hi.Op == OpConcat && hi.A[1].Op == OpExtract && lo.Op == OpExtract && hi.A[1].A[0] == lo.A[0] && hi.A[1].Lo == lo.Hi+1 {
		return b.Concat(hi.A[0], b.Extract(lo.A[0], hi.A[1].Hi, lo.Lo))
	}
	if hi.Op == OpZExt {
		// zext(x) ++ lo  == zext(x ++ lo)
		return b.ZExt(b.Concat(hi.A[0], lo), w)
	}
	return b.mk(&Term{Op: OpConcat, W: w, A: []*Term{hi, lo}})
}

func (b *TB) Extract(x *Term, hi, lo int) *Term {
	if hi < lo || hi >= x.W || lo < 0 {
		panic(fmt.Sprintf("bad extract %d %d of width %d", hi, lo, x.W))
	}
	w := hi - lo + 1
	if w == x.W {
		return x
	}
	switch x.Op {
	case OpConst:
		return b.Const(w, x.V>>uint(lo))
	case OpExtract:
		return b.Extract(x.A[0], x.Lo+hi, x.Lo+lo)
	case OpZExt:
		in := x.A[0]
		if hi < in.W {
			return b.Extract(in, hi, lo)
		}
		if lo >= in.W {
			return b.Const(w, 0)
		}
		return b.ZExt(b.Extract(in, in.W-1, lo), w)
	case OpSExt:
		in := x.A[0]
		if hi < in.W {
			return b.Extract(in, hi, lo)
		}
	case OpConcat:
		h, l := x.A[0], x.A[1]
		if hi < l.W {
			return b.Extract(l, hi, lo)
		}
		if lo >= l.W {
			return b.Extract(h, hi-l.W, lo-l.W)
		}
		return b.Concat(b.Extract(h, hi-l.W, 0), b.Extract(l, l.W-1, lo))
	case OpIte:
		if x.A[1].IsConst() || x.A[2].IsConst() {
			return b.Ite(x.A[0], b.Extract(x.A[1], hi, lo), b.Extract(x.A[2], hi, lo))
		}
	case OpBAnd, OpBOr, OpBXor:
		if lo == 0 || true {
			return b.bin(x.Op, b.Extract(x.A[0], hi, lo), b.Extract(x.A[1], hi, lo))
		}
	case OpAdd, OpSub, OpMul:
		if lo == 0 {
			return b.bin(x.Op, b.Extract(x.A[0], hi, 0), b.Extract(x.A[1], hi, 0))
		}
	}
	return b.mk(&Term{Op: OpExtract, W: w, A: []*Term{x}, Hi: hi, Lo: lo})
}

func (b *TB) ZExt(x *Term, w int) *Term {
	if w == x.W {
		return x
	}
	if w < x.W {
		panic("zext to narrower")
	}
	if x.IsConst() {
		return b.Const(w, x.V)
	}
	if x.Op == OpZExt {
		return b.ZExt(x.A[0], w)
	}
	if x.Op == OpIte && (x.A[1].IsConst() || x.A[2].IsConst()) {
		return b.Ite(x.A[0], b.ZExt(x.A[1], w), b.ZExt(x.A[2], w))
	}
	return b.mk(&Term{Op: OpZExt, W: w, A: []*Term{x}})
}

func (b *TB) SExt(x *Term, w int) *Term {
	if w == x.W {
		return x
	}
	if w < x.W {
		panic("sext to narrower")
	}
	if x.IsConst() {
		return b.Const(w, uint64(signExt(x.V, x.W)))
	}
	if x.Op == OpZExt {
		return b.ZExt(x.A[0], w)
	}
	if x.Op == OpIte && (x.A[1].IsConst() || x.A[2].IsConst()) {
		return b.Ite(x.A[0], b.SExt(x.A[1], w), b.SExt(x.A[2], w))
	}
	return b.mk(&Term{Op: OpSExt, W: w, A: []*Term{x}})
}

// Resize converts x to width w (truncating or extending).
func (b *TB) Resize(x *Term, w int, signed bool) *Term {
	if w == x.W {
		return x
	}
	if w < x.W {
		return b.Extract(x, w-1, 0)
	}
	if signed {
		return b.SExt(x, w)
	}
	return b.ZExt(x, w)
}

// Eval computes the concrete value of t under model m (missing vars = 0).
func Eval(t *Term, m map[string]uint64, memo map[*Term]uint64) uint64 {
	if t.Op == OpConst {
		return t.V
	}
	if v, ok := memo[t]; ok {
		return v
	}
	var r uint64
	a := func(i int) uint64 { return Eval(t.A[i], m, memo) }
	w := t.W
	switch t.Op {
	case OpVar:
		r = m[t.Name] & maskB(w)
	case OpNot:
		r = 1 - a(0)
	case OpAnd:
		if a(0) != 0 && a(1) != 0 {
			r = 1
		}
	case OpOr:
		if a(0) != 0 || a(1) != 0 {
			r = 1
		}
	case OpIte:
		if a(0) != 0 {
			r = a(1)
		} else {
			r = a(2)
		}
	case OpEq:
		if a(0) == a(1) {
			r = 1
		}
	case OpUlt:
		if a(0) < a(1) {
			r = 1
		}
	case OpUle:
		if a(0) <= a(1) {
			r = 1
		}
	case OpSlt:
		if signExt(a(0), t.A[0].W) < signExt(a(1), t.A[0].W) {
			r = 1
		}
	case OpSle:
		if signExt(a(0), t.A[0].W) <= signExt(a(1), t.A[0].W) {
			r = 1
		}
	case OpBNot:
		r = ^a(0) & mask(w)
	case OpNeg:
		r = -a(0) & mask(w)
	case OpConcat:
		r = a(0)<<uint(t.A[1].W) | a(1)
	case OpExtract:
		r = (a(0) >> uint(t.Lo)) & mask(w)
	case OpZExt:
		r = a(0)
	case OpSExt:
		r = uint64(signExt(a(0), t.A[0].W)) & mask(w)
	default:
		// binary arithmetic: reuse constant folder semantics
		x, y := a(0), a(1)
		r = foldBin(t.Op, w, x, y)
	}
	memo[t] = r
	return r
}

func maskB(w int) uint64 {
	if w == 0 {
		return 1
	}
	return mask(w)
}

func (t *Term) String() string {
	var sb strings.Builder
	t.write(&sb, 0)
	return sb.String()
}

func (t *Term) write(sb *strings.Builder, depth int) {
	if depth > 6 {
		sb.WriteString("…")
		return
	}
	switch t.Op {
	case OpConst:
		if t.W == 0 {
			if t.V != 0 {
				sb.WriteString("true")
			} else {
				sb.WriteString("false")
			}
		} else {
			fmt.Fprintf(sb, "%d:%d", t.V, t.W)
		}
	case OpVar:
		sb.WriteString(t.Name)
	case OpExtract:
		fmt.Fprintf(sb, "(extract %d %d ", t.Hi, t.Lo)
		t.A[0].write(sb, depth+1)
		sb.WriteString(")")
	case OpZExt, OpSExt:
		if t.Op == OpZExt {
			fmt.Fprintf(sb, "(zext%d ", t.W)
		} else {
			fmt.Fprintf(sb, "(sext%d ", t.W)
		}
		t.A[0].write(sb, depth+1)
		sb.WriteString(")")
	default:
		sb.WriteString("(" + opNames[t.Op])
		for _, a := range t.A {
			sb.WriteString(" ")
			a.write(sb, depth+1)
		}
		sb.WriteString(")")
	}
}

// Vars collects variable terms reachable from t.
func Vars(t *Term, seen map[*Term]bool, out *[]*Term) {
	if seen[t] {
		return
	}
	seen[t] = true
	if t.Op == OpVar {
		*out = append(*out, t)
		return
	}
	for _, a := range t.A {
		Vars(a, seen, out)
	}
}
