package main

// Path state: path condition, decisions, feasibility checks.

import (
	"fmt"
	"sync"
	"time"

	"golang.org/x/tools/go/ssa"
)

var forkStats map[string]int
var forkMu sync.Mutex

type Decision struct {
	Choice int    // branch: 1=true 0=false; choose: index; concretize: 0 = equal to Val, 1 = different
	Val    uint64 // concretize value
	Forced bool
}

// control-flow exits of a path (Go panics caught by the worker)
type pathEnd struct {
	kind string // "done", "vacuous", "unsupported", "bound", "stop"
	msg  string
}

func unsupported(msg string) pathEnd { return pathEnd{kind: "unsupported", msg: msg} }

type Violation struct {
	ScheduleDependent bool // found under explored scheduling choices: native replay repeats it
	Pkg               string
	Harness           string
	Params            []int
	Label             string
	Kind              string // "assert" or "panic"
	Msg               string
	Model             map[string]uint64
	Inputs            []InputRec
	Trace             []Decision
	Pos               string
}

type InputRec struct {
	Name string
	W    int
}

type Exec struct {
	w      *Worker
	tb     *TB
	pc     []*Term
	prefix []Decision
	trace  []Decision
	pos    int
	model  map[string]uint64 // a model of pc, or nil if none cached
	bind   map[*Term]*Term   // var -> const implied by pc
	known  map[*Term]bool    // boolean terms whose value is implied by pc
	subMem map[*Term]*Term
	symCnt map[string]int
	inputs []InputRec
	steps  int
	depth  int
	objN   int
	// results
	pending         [][]Decision
	reached         map[string]bool
	observes        []Observation
	symMapOrd       bool
	solverVCs       int
	syntVCs         int
	nontriv         bool
	held            map[*Obj]bool // mutexes held (sequential mode)
	funcs           map[string]bool
	env             *Env
	boundReported   bool
	undo            []func()
	globalWrites    int
	randomDraws     [][]*Term
	pathStart       time.Time
	frames          []*Frame
	stack           []*ssa.Function
	curCallPos      string
	alloc           int64
	fmtLen          int // length model of the formatted string being built (see opaqueErr)
	maxSteps        int
	curPos          string
	overrides       map[string]*FuncV
	strictPrefs     []*Term
	race            *raceState
	forkVC          vclock
	uncheckedAssume bool
	inOverride      bool
}

type Observation struct {
	Label string
	Bytes []*Term
}

func (e *Exec) newObj(v Value, note string) *Obj {
	e.objN++
	return &Obj{ID: e.objN, V: v, Frozen: e.w.initializing, Note: note}
}

func (e *Exec) fresh(name string, w int) *Term {
	k := e.symCnt[name]
	e.symCnt[name] = k + 1
	full := fmt.Sprintf("%s#%d", name, k)
	e.inputs = append(e.inputs, InputRec{full, w})
	return e.tb.Var(w, full)
}

// subst rewrites t using variable bindings implied by the path condition.
func (e *Exec) subst(t *Term) *Term {
	if len(e.bind) == 0 || t.Op == OpConst {
		return t
	}
	if r, ok := e.subMem[t]; ok {
		return r
	}
	var r *Term
	if t.Op == OpVar {
		if c, ok := e.bind[t]; ok {
			r = c
		} else {
			r = t
		}
	} else {
		changed := false
		na := make([]*Term, len(t.A))
		for i, a := range t.A {
			na[i] = e.subst(a)
			if na[i] != a {
				changed = true
			}
		}
		if !changed {
			r = t
		} else {
			r = e.tb.rebuild(t, na)
		}
	}
	e.subMem[t] = r
	return r
}

func (b *TB) rebuild(t *Term, a []*Term) *Term {
	switch t.Op {
	case OpNot:
		return b.Not(a[0])
	case OpAnd:
		return b.And(a[0], a[1])
	case OpOr:
		return b.Or(a[0], a[1])
	case OpIte:
		return b.Ite(a[0], a[1], a[2])
	case OpEq:
		return b.Eq(a[0], a[1])
	case OpUlt, OpUle, OpSlt, OpSle:
		return b.cmp(t.Op, a[0], a[1])
	case OpBNot:
		return b.BNot(a[0])
	case OpNeg:
		return b.Neg(a[0])
	case OpConcat:
		return b.Concat(a[0], a[1])
	case OpExtract:
		return b.Extract(a[0], t.Hi, t.Lo)
	case OpZExt:
		return b.ZExt(a[0], t.W)
	case OpSExt:
		return b.SExt(a[0], t.W)
	default:
		return b.bin(t.Op, a[0], a[1])
	}
}

// addPC appends c to the path condition and harvests var==const bindings.
func (e *Exec) addPC(c *Term) {
	if c.IsTrue() {
		return
	}
	if c.Op == OpAnd {
		e.addPC(c.A[0])
		e.addPC(c.A[1])
		return
	}
	e.pc = append(e.pc, c)
	e.setKnown(c, true)
	if e.model != nil {
		if Eval(c, e.model, map[*Term]uint64{}) == 0 {
			e.model = nil
		}
	}
	var v, k *Term
	switch {
	case c.Op == OpEq && c.A[0].Op == OpVar && c.A[1].IsConst():
		v, k = c.A[0], c.A[1]
	case c.Op == OpEq && c.A[1].Op == OpVar && c.A[0].IsConst():
		v, k = c.A[1], c.A[0]
	case c.Op == OpVar && c.W == 0:
		v, k = c, e.tb.T
	case c.Op == OpNot && c.A[0].Op == OpVar:
		v, k = c.A[0], e.tb.F
	}
	if v != nil {
		if e.bind == nil {
			e.bind = map[*Term]*Term{}
		}
		e.bind[v] = k
		e.subMem = map[*Term]*Term{}
	}
}

// sat asks whether pc ∧ extra is satisfiable.
func (e *Exec) sat(extra *Term, wantModel bool) (SatResult, map[string]uint64) {
	as := make([]*Term, 0, len(e.pc)+1)
	as = append(as, e.pc...)
	as = append(as, extra)
	r, m := e.w.solve(as, wantModel)
	return r, m
}

func (e *Exec) record(d Decision) {
	e.trace = append(e.trace, d)
}

func (e *Exec) pushAlt(d Decision) {
	alt := make([]Decision, len(e.trace)+1)
	copy(alt, e.trace)
	alt[len(e.trace)] = d
	e.pending = append(e.pending, alt)
}

func (e *Exec) nextPrefix() (Decision, bool) {
	if e.pos < len(e.prefix) {
		d := e.prefix[e.pos]
		e.pos++
		return d, true
	}
	return Decision{}, false
}

func (e *Exec) setKnown(c *Term, v bool) {
	if e.known == nil {
		e.known = map[*Term]bool{}
	}
	e.known[c] = v
	if c.Op == OpNot {
		e.known[c.A[0]] = !v
	}
}

// branch decides which way a symbolic condition goes on this path.
func (e *Exec) branch(c *Term) bool {
	c = e.subst(c)
	if c.IsConst() {
		return c.V != 0
	}
	if v, ok := e.known[c]; ok {
		return v
	}
	e.nontriv = true
	e.pathBudget()
	if d, ok := e.nextPrefix(); ok {
		e.record(d)
		if !d.Forced {
			if d.Choice == 1 {
				e.addPC(c)
			} else {
				e.addPC(e.tb.Not(c))
			}
		} else {
			e.setKnown(c, d.Choice == 1)
		}
		return d.Choice == 1
	}
	nc := e.tb.Not(c)
	var tOK, fOK bool
	var tKnown, fKnown bool
	if e.model != nil {
		if Eval(c, e.model, map[*Term]uint64{}) != 0 {
			tOK, tKnown = true, true
		} else {
			fOK, fKnown = true, true
		}
	}
	var mT, mF map[string]uint64
	if !tKnown {
		r, m := e.sat(c, true)
		tOK = r != Unsat
		if r == Sat {
			mT = m
		}
		if r == Unsat && !fKnown {
			fOK, fKnown = true, true // pc is satisfiable, so the other side must be
		}
	}
	if !fKnown {
		r, m := e.sat(nc, true)
		fOK = r != Unsat
		if r == Sat {
			mF = m
		}
	}
	switch {
	case tOK && fOK:
		if forkStats != nil && len(e.stack) > 0 {
			forkMu.Lock()
			forkStats[e.stack[len(e.stack)-1].String()+" @"+e.curPos]++
			if forkStats[e.stack[len(e.stack)-1].String()+" @"+e.curPos] < 6 {
				fmt.Printf("FORK at %s depth=%d cond=%s\n", e.stack[len(e.stack)-1].String(), len(e.trace), c.String())
			}
			e.curPos = ""
			forkMu.Unlock()
		}
		e.pushAlt(Decision{Choice: 0})
		e.record(Decision{Choice: 1})
		e.addPC(c)
		if e.model == nil && mT != nil {
			e.model = mT
		}
		_ = mF
		return true
	case tOK:
		e.record(Decision{Choice: 1, Forced: true})
		e.setKnown(c, true)
		return true
	case fOK:
		e.record(Decision{Choice: 0, Forced: true})
		e.setKnown(c, false)
		return false
	}
	// both unsat: pc itself is unsatisfiable (can only follow an 'unknown')
	panic(pathEnd{kind: "vacuous", msg: "infeasible path"})
}

// concretize forks on the value of t until one value is fixed.
func (e *Exec) concretize(t *Term) uint64 {
	for {
		t = e.subst(t)
		if t.IsConst() {
			return t.V
		}
		e.nontriv = true
		if d, ok := e.nextPrefix(); ok {
			e.record(d)
			k := e.tb.Const(t.W, d.Val)
			if d.Choice == 0 {
				if !d.Forced {
					e.addPC(e.tb.Eq(t, k))
				}
				return d.Val
			}
			e.addPC(e.tb.Not(e.tb.Eq(t, k)))
			continue
		}
		var v uint64
		if e.model != nil {
			v = Eval(t, e.model, map[*Term]uint64{})
		} else {
			r, m := e.sat(e.tb.T, true)
			if r != Sat {
				panic(pathEnd{kind: "unknown", msg: "solver could not produce a model for concretization"})
			}
			e.model = m
			v = Eval(t, m, map[*Term]uint64{})
		}
		k := e.tb.Const(t.W, v)
		ne := e.tb.Not(e.tb.Eq(t, k))
		r, _ := e.sat(ne, false)
		if r == Unsat {
			// value implied by pc; remember it to avoid re-asking
			e.record(Decision{Choice: 0, Val: v})
			e.addPC(e.tb.Eq(t, k))
			return v
		}
		e.pushAlt(Decision{Choice: 1, Val: v})
		e.record(Decision{Choice: 0, Val: v})
		e.addPC(e.tb.Eq(t, k))
		return v
	}
}

// choose picks one of n alternatives, all of which are explored.
func (e *Exec) choose(n int) int {
	if n <= 1 {
		return 0
	}
	e.nontriv = true
	if d, ok := e.nextPrefix(); ok {
		e.record(d)
		return d.Choice
	}
	for i := n - 1; i >= 1; i-- {
		e.pushAlt(Decision{Choice: i})
	}
	e.record(Decision{Choice: 0})
	return 0
}

func (e *Exec) assume(c *Term) {
	c = e.subst(c)
	if c.IsTrue() {
		return
	}
	if c.IsFalse() {
		panic(pathEnd{kind: "vacuous"})
	}
	if e.pos < len(e.prefix) {
		// replaying: feasibility was established when the prefix was created
		e.addPC(c)
		return
	}
	if e.model != nil && Eval(c, e.model, map[*Term]uint64{}) != 0 {
		e.addPC(c)
		return
	}
	if c.Hard {
		// expensive arithmetic: defer the feasibility check to the next reach point (one query
		// for the whole batch of assumptions instead of one each)
		e.addPC(c)
		e.model = nil
		e.uncheckedAssume = true
		return
	}
	r, m := e.sat(c, true)
	if r == Unsat {
		panic(pathEnd{kind: "vacuous"})
	}
	e.addPC(c)
	if r == Sat {
		e.model = m
	}
}

// check is an assertion: a violation is reported when pc ∧ ¬c is satisfiable.
func (e *Exec) check(c *Term, label string, kind string, msg string) {
	c = e.subst(c)
	if c.IsTrue() {
		e.syntVCs++
		return
	}
	if kind == "assert" && !e.w.cur.Spec.counts(label) {
		return // a clause of another property, asserted by a shared harness: not this check's
	}
	e.nontriv = true
	if d, ok := e.nextPrefix(); ok {
		// this VC was already decided on the path that created the prefix
		e.record(d)
		if d.Choice == 1 {
			e.addPC(c)
		}
		return
	}
	e.solverVCs++
	r, m := e.sat(e.tb.Not(c), true)
	switch r {
	case Unsat:
		e.record(Decision{Choice: 0, Forced: true})
		return
	case Unknown:
		e.w.noteInconclusive(fmt.Sprintf("solver unknown on assertion %q", label))
		e.record(Decision{Choice: 1, Forced: true})
		e.addPC(c)
		return
	}
	if sm := e.preferStrict(e.tb.Not(c)); sm != nil {
		m = sm
	}
	e.w.reportViolation(e, label, kind, msg, m)
	e.record(Decision{Choice: 1, Forced: true})
	// continue under the assumption that the assertion holds
	if e.model != nil && Eval(c, e.model, map[*Term]uint64{}) == 0 {
		e.model = nil
	}
	r2, m2 := e.sat(c, true)
	if r2 == Unsat {
		panic(pathEnd{kind: "stop", msg: "assertion fails on every input of this path"})
	}
	e.addPC(c)
	if r2 == Sat {
		e.model = m2
	}
}

func (e *Exec) stackString() string {
	s := ""
	for i := len(e.stack) - 1; i >= 0 && i >= len(e.stack)-12; i-- {
		s += " < " + e.stack[i].String()
	}
	return s
}

// settleAssumptions checks that the path condition is still satisfiable after assumptions whose
// feasibility check was deferred.
func (e *Exec) settleAssumptions() {
	if !e.uncheckedAssume {
		return
	}
	e.uncheckedAssume = false
	r, m := e.sat(e.tb.T, true)
	switch r {
	case Unsat:
		panic(pathEnd{kind: "vacuous"})
	case Sat:
		e.model = m
	default:
		e.w.noteInconclusive("solver unknown on the feasibility of deferred assumptions")
	}
}

// preferStrict looks for a model of pc ∧ extra that also satisfies as many of the recorded
// strictness preferences as possible (all at once, else greedily); nil if none is found.
func (e *Exec) preferStrict(extra *Term) map[string]uint64 {
	if len(e.strictPrefs) == 0 {
		return nil
	}
	all := extra
	for _, p := range e.strictPrefs {
		all = e.tb.And(all, p)
	}
	if r, m := e.sat(all, true); r == Sat {
		return m
	}
	acc := extra
	var best map[string]uint64
	for _, p := range e.strictPrefs {
		try := e.tb.And(acc, p)
		if r, m := e.sat(try, true); r == Sat {
			acc = try
			best = m
		}
	}
	return best
}
