package main

// Happens-before data-race detection over the explored schedules (vector clocks).
// Goroutines switch only at blocking operations in this executor, so a missing lock never
// changes a result here; it is reported instead as a pair of conflicting accesses that no
// synchronisation orders (go statement, mutex unlock->lock, channel send->receive,
// close->receive, WaitGroup Done->Wait, atomic store->load).

import (
	"fmt"
)

type vclock []int

func (v vclock) get(i int) int {
	if i < len(v) {
		return v[i]
	}
	return 0
}

func vjoin(a, b vclock) vclock {
	n := len(a)
	if len(b) > n {
		n = len(b)
	}
	r := make(vclock, n)
	for i := range r {
		r[i] = a.get(i)
		if x := b.get(i); x > r[i] {
			r[i] = x
		}
	}
	return r
}

type epoch struct {
	g, c int
	pos  string
}

type locState struct {
	w     epoch
	hasW  bool
	reads []epoch
}

type raceState struct {
	on     bool
	locs   map[string]*locState
	syncVC map[string]vclock
	found  bool
}

func (e *Exec) raceOn() bool {
	return e.race != nil && e.race.on && e.env != nil && len(e.env.gs) > 1 && !e.w.initializing
}

func (e *Exec) gvc() (*G, vclock) {
	g := e.env.cur
	if g.vc == nil {
		g.vc = make(vclock, g.id+1)
		g.vc[g.id] = 1
	}
	return g, g.vc
}

func (g *G) tick() {
	for len(g.vc) <= g.id {
		g.vc = append(g.vc, 0)
	}
	g.vc[g.id]++
}

// hb: did epoch x happen before the current point of goroutine with clock vc?
func hb(x epoch, vc vclock) bool { return x.c <= vc.get(x.g) }

func (e *Exec) raceAccess(key string, write bool) {
	if !e.raceOn() || e.race.found {
		return
	}
	g, vc := e.gvc()
	ls := e.race.locs[key]
	if ls == nil {
		ls = &locState{}
		e.race.locs[key] = ls
	}
	pos := e.curCallPos
	if len(e.stack) > 0 {
		pos = e.stack[len(e.stack)-1].String()
	}
	me := epoch{g.id, vc.get(g.id), pos}
	report := func(prev epoch, kind string) {
		e.race.found = true
		m := e.model
		if m == nil {
			if res, mm := e.sat(e.tb.T, true); res == Sat {
				m = mm
			}
		}
		msg := fmt.Sprintf("%s of %s by goroutine %d in %s is not ordered after the %s by goroutine %d in %s", map[bool]string{true: "write", false: "read"}[write], key, g.id, pos, kind, prev.g, prev.pos)
		if m != nil {
			e.w.reportViolation(e, "data-race", "race", msg, m)
		} else {
			e.w.noteInconclusive("data race without model: " + msg)
		}
	}
	if ls.hasW && ls.w.g != g.id && !hb(ls.w, vc) {
		report(ls.w, "write")
		return
	}
	if write {
		for _, r := range ls.reads {
			if r.g != g.id && !hb(r, vc) {
				report(r, "read")
				return
			}
		}
		ls.w, ls.hasW, ls.reads = me, true, nil
		return
	}
	for i, r := range ls.reads {
		if r.g == g.id {
			ls.reads[i] = me
			return
		}
	}
	ls.reads = append(ls.reads, me)
}

func ptrKey(p *Ptr) string { return fmt.Sprintf("obj%d%v", p.Obj.ID, p.Path) }

// release: the current goroutine publishes its clock on sync object k; acquire: it learns k's clock.
func (e *Exec) raceRelease(k string) {
	if !e.raceOn() {
		return
	}
	g, vc := e.gvc()
	e.race.syncVC[k] = vjoin(e.race.syncVC[k], vc)
	g.tick()
}

func (e *Exec) raceAcquire(k string) {
	if !e.raceOn() {
		return
	}
	g, vc := e.gvc()
	g.vc = vjoin(vc, e.race.syncVC[k])
}

// raceFork gives a new goroutine the clock of its creator.
func (e *Exec) raceFork(child *G) {
	if e.race == nil || !e.race.on || e.env == nil {
		return
	}
	g, vc := e.gvc()
	if e.forkVC != nil {
		// a timer/event callback: ordered after the goroutine that registered it, not after
		// whichever goroutine happened to advance the clock
		child.vc = vjoin(e.forkVC, nil)
	} else {
		child.vc = vjoin(vc, nil)
	}
	for len(child.vc) <= child.id {
		child.vc = append(child.vc, 0)
	}
	child.vc[child.id] = 1
	g.tick()
}
