package main

// Harness parts generated at check time from the repository's types, so that they follow the
// source: lists of read-only methods (niladic, exported, with results) of the message and option
// types, the option codes of dhcpv6.ParseOption's switch, and one harness per dhcpv4 option
// constructor with arguments synthesised from the parameter types.

import (
	"fmt"
	"go/ast"
	"go/constant"
	"go/types"
	"os"
	"sort"
	"strings"

	"golang.org/x/tools/go/packages"
)

type genResult struct {
	files     map[string][]byte // path relative to the repo -> content
	uncovered []string
	specs     map[string][]PlanSpec // property -> extra harness runs
	counts    map[string]int
}

func qualifier(pkg *types.Package) types.Qualifier {
	return func(p *types.Package) string {
		if p == pkg {
			return ""
		}
		return p.Name()
	}
}

// readers lists niladic exported methods with at least one result in the method set of t.
func readers(t types.Type) []*types.Func {
	ms := types.NewMethodSet(t)
	var out []*types.Func
	for i := 0; i < ms.Len(); i++ {
		f, ok := ms.At(i).Obj().(*types.Func)
		if !ok || !f.Exported() {
			continue
		}
		sig := f.Type().(*types.Signature)
		if sig.Params().Len() != 0 || sig.Results().Len() == 0 {
			continue
		}
		out = append(out, f)
	}
	sort.Slice(out, func(i, j int) bool { return out[i].Name() < out[j].Name() })
	return out
}

// digestHelpers are emitted once per generated file: a reader's results are folded into a byte
// string so that repeated calls can be compared (C20: "repeated calls return equal results").
const digestHelpers = `func verifDgBytes(d, b []byte) []byte {
	d = append(d, byte(len(b)>>8), byte(len(b)))
	return append(d, b...)
}

func verifDgU64(d []byte, v uint64) []byte {
	return append(d, byte(v>>56), byte(v>>48), byte(v>>40), byte(v>>32), byte(v>>24), byte(v>>16), byte(v>>8), byte(v))
}

func verifDgBool(d []byte, b bool) []byte {
	if b {
		return append(d, 1)
	}
	return append(d, 0)
}

// verifDgTry folds the encoding of a returned value; a value whose ToBytes panics (nil pointer in
// an interface) is folded as a marker: crash freedom is C03's subject, not this digest's.
func verifDgTry(d []byte, f func() []byte) (out []byte) {
	defer func() {
		if recover() != nil {
			out = append(d, 0xee)
		}
	}()
	return verifDgBytes(d, f())
}

`

func hasToBytes(t types.Type) bool {
	for _, tt := range []types.Type{t, types.NewPointer(t)} {
		ms := types.NewMethodSet(tt)
		for i := 0; i < ms.Len(); i++ {
			f, ok := ms.At(i).Obj().(*types.Func)
			if !ok || f.Name() != "ToBytes" {
				continue
			}
			sig := f.Type().(*types.Signature)
			if sig.Params().Len() == 0 && sig.Results().Len() == 1 {
				if sl, ok := sig.Results().At(0).Type().Underlying().(*types.Slice); ok {
					if b, ok := sl.Elem().Underlying().(*types.Basic); ok && b.Kind() == types.Uint8 {
						if tt == t {
							return true
						}
						if _, isPtr := t.(*types.Pointer); !isPtr {
							// method on *T only: callable on addressable values; we only call it on pointers
							return false
						}
					}
				}
			}
		}
	}
	return false
}

var digestVar int

// genDigest returns statements folding expression x of type t into the byte slice d; skipped counts
// the parts of results that are not folded (maps' contents, interfaces without ToBytes, ...).
func genDigest(x string, t types.Type, depth int, ind string, skipped *int) string {
	if depth > 3 {
		*skipped++
		return ""
	}
	if n, ok := t.(*types.Named); ok && n.Obj().Pkg() != nil && n.Obj().Pkg().Path() == "time" && n.Obj().Name() == "Time" {
		*skipped++
		return ""
	}
	_, isIface := t.Underlying().(*types.Interface)
	_, isPtr := t.Underlying().(*types.Pointer)
	if hasToBytes(t) {
		if isIface || isPtr {
			return fmt.Sprintf("%sif %s != nil {\n%s\td = verifDgTry(d, func() []byte { return %s.ToBytes() })\n%s} else {\n%s\td = append(d, 0)\n%s}\n", ind, x, ind, x, ind, ind, ind)
		}
		return fmt.Sprintf("%sd = verifDgBytes(d, %s.ToBytes())\n", ind, x)
	}
	switch u := t.Underlying().(type) {
	case *types.Basic:
		switch {
		case u.Info()&types.IsBoolean != 0:
			return fmt.Sprintf("%sd = verifDgBool(d, bool(%s))\n", ind, x)
		case u.Info()&types.IsInteger != 0:
			return fmt.Sprintf("%sd = verifDgU64(d, uint64(%s))\n", ind, x)
		case u.Info()&types.IsString != 0:
			return fmt.Sprintf("%sd = verifDgBytes(d, verifStrDigest(string(%s)))\n", ind, x)
		}
	case *types.Slice:
		if b, ok := u.Elem().Underlying().(*types.Basic); ok && b.Kind() == types.Uint8 {
			return fmt.Sprintf("%sd = verifDgBool(d, %s == nil)\n%sd = verifDgBytes(d, []byte(%s))\n%sif keep != nil {\n%s\t*keep = append(*keep, []byte(%s))\n%s}\n", ind, x, ind, x, ind, ind, x, ind)
		}
		digestVar++
		v := fmt.Sprintf("e%d", digestVar)
		inner := genDigest(v, u.Elem(), depth+1, ind+"\t", skipped)
		if inner == "" {
			return fmt.Sprintf("%sd = verifDgU64(d, uint64(len(%s)))\n", ind, x)
		}
		return fmt.Sprintf("%sd = verifDgU64(d, uint64(len(%s)))\n%sfor _, %s := range %s {\n%s%s}\n", ind, x, ind, v, x, inner, ind)
	case *types.Array:
		digestVar++
		v := fmt.Sprintf("e%d", digestVar)
		inner := genDigest(v, u.Elem(), depth+1, ind+"\t", skipped)
		if inner == "" {
			return ""
		}
		return fmt.Sprintf("%sfor _, %s := range %s {\n%s%s}\n", ind, v, x, inner, ind)
	case *types.Pointer:
		inner := genDigest("(*"+x+")", u.Elem(), depth+1, ind+"\t", skipped)
		return fmt.Sprintf("%sif %s != nil {\n%s\td = append(d, 1)\n%s%s} else {\n%s\td = append(d, 0)\n%s}\n", ind, x, ind, inner, ind, ind, ind)
	case *types.Struct:
		var out string
		for i := 0; i < u.NumFields(); i++ {
			f := u.Field(i)
			if !f.Exported() {
				*skipped++
				continue
			}
			out += genDigest(x+"."+f.Name(), f.Type(), depth+1, ind, skipped)
		}
		return out
	case *types.Map:
		*skipped++
		return fmt.Sprintf("%sd = verifDgU64(d, uint64(len(%s)))\n", ind, x)
	case *types.Interface:
		*skipped++
		return fmt.Sprintf("%sd = verifDgBool(d, %s != nil)\n", ind, x)
	}
	*skipped++
	return ""
}

// emitReaderCase writes the body of one case: call the method, fold its results into d.
func emitReaderCase(sb *strings.Builder, m *types.Func, ind string, skipped *int) {
	sig := m.Type().(*types.Signature)
	n := sig.Results().Len()
	var names []string
	var body string
	for j := 0; j < n; j++ {
		digestVar++
		r := fmt.Sprintf("r%d", digestVar)
		dg := genDigest(r, sig.Results().At(j).Type(), 0, ind, skipped)
		if dg == "" {
			names = append(names, "_")
		} else {
			names = append(names, r)
			body += dg
		}
	}
	allBlank := true
	for _, nm := range names {
		if nm != "_" {
			allBlank = false
		}
	}
	op := ":="
	if allBlank {
		op = "="
	}
	fmt.Fprintf(sb, "%s%s %s v.%s()\n%s", ind, strings.Join(names, ", "), op, m.Name(), body)
}

// emitReaderSwitch writes: func <fn>(v <typ>, k int) (d []byte) { switch k { case i: r := v.M(); fold r into d ... } }
func emitReaderSwitch(sb *strings.Builder, fn, typ string, ms []*types.Func, skipped *int) {
	fmt.Fprintf(sb, "var %sNames = []string{", fn)
	for _, m := range ms {
		fmt.Fprintf(sb, "%q, ", m.Name())
	}
	sb.WriteString("}\n\n")
	fmt.Fprintf(sb, "func %s(v %s, k int) []byte { return %sK(v, k, nil) }\n\n", fn, typ, fn)
	fmt.Fprintf(sb, "// %sK also appends every byte-slice result (the slice itself, not a copy) to *keep.\nfunc %sK(v %s, k int, keep *[][]byte) (d []byte) {\n\tswitch k {\n", fn, fn, typ)
	for i, m := range ms {
		fmt.Fprintf(sb, "\tcase %d:\n", i)
		emitReaderCase(sb, m, "\t\t", skipped)
	}
	sb.WriteString("\t}\n\treturn d\n}\n\n")
}

// genArg synthesises a symbolic argument expression for a dhcpv4 constructor parameter.
func genArg(t types.Type, variadic bool, q types.Qualifier, name string) (string, bool) {
	ts := types.TypeString(t, q)
	inList := false
	one := func(ts string, i int) (string, bool) {
		n := fmt.Sprintf("%q", fmt.Sprintf("%s.%d", name, i))
		switch ts {
		case "net.IP":
			if inList && i == 0 {
				// a list may hold an entry that is not an IPv4 address (a dual-stack resolver list)
				return "net.IP(verifBytes(" + n + ", 16))", true
			}
			return "net.IP(verifBytes(" + n + ", 4))", true
		case "net.IPMask":
			return "net.IPMask(verifBytes(" + n + ", 4))", true
		case "time.Duration":
			return "time.Duration(verifU32(" + n + ")) * time.Second", true
		case "string":
			return "string(verifBytes(" + n + ", 3))", true
		case "[]byte":
			return "verifBytes(" + n + ", 3)", true
		case "uint8":
			return "verifU8(" + n + ")", true
		case "uint16":
			return "verifU16(" + n + ")", true
		case "uint32":
			return "verifU32(" + n + ")", true
		case "bool":
			return "verifBool(" + n + ")", true
		case "MessageType":
			return "MessageType(verifU8(" + n + "))", true
		case "AutoConfiguration":
			return "AutoConfiguration(verifU8(" + n + "))", true
		case "OptionCode":
			return "GenericOptionCode(verifU8(" + n + "))", true
		case "iana.Arch":
			return "iana.Arch(verifU16(" + n + "))", true
		case "*rfc1035label.Labels":
			return "&rfc1035label.Labels{Labels: []string{string(verifGenLabel(" + n + "))}}", true
		case "*Route":
			return "&Route{Dest: &net.IPNet{IP: net.IP(verifBytes(" + n + "+\".dst\", 4)), Mask: net.CIDRMask(24, 32)}, Router: net.IP(verifBytes(" + n + "+\".gw\", 4))}", true
		case "Option":
			return "OptGeneric(GenericOptionCode(1+verifU8(" + n + "+\".code\")%250), verifBytes(" + n + ", 2))", true
		case "VIVCIdentifier":
			return "VIVCIdentifier{EntID: iana.EnterpriseID(verifU32(" + n + "+\".ent\")), Data: verifBytes(" + n + ", 2)}", true
		}
		return "", false
	}
	if variadic {
		el := t.(*types.Slice).Elem()
		es := types.TypeString(el, q)
		inList = true
		a, ok := one(es, 0)
		b, _ := one(es, 1)
		if !ok {
			return "", false
		}
		return a + ", " + b, true
	}
	if sl, ok := t.(*types.Slice); ok && ts != "[]byte" {
		es := types.TypeString(sl.Elem(), q)
		inList = true
		a, ok := one(es, 0)
		b, _ := one(es, 1)
		if !ok {
			return "", false
		}
		return ts + "{" + a + ", " + b + "}", true
	}
	return one(ts, 0)
}

func generateHarness(repo string) (*genResult, error) {
	cfg := &packages.Config{
		Mode:       packages.LoadSyntax,
		Dir:        repo,
		BuildFlags: []string{"-tags=verif"},
		Env:        append(os.Environ(), "GOFLAGS=-mod=mod", "GOPROXY=off", "GOSUMDB=off", "GOTOOLCHAIN=local"),
	}
	pkgs, err := packages.Load(cfg, modPath+"/dhcpv4", modPath+"/dhcpv6")
	if err != nil {
		return nil, err
	}
	res := &genResult{files: map[string][]byte{}, specs: map[string][]PlanSpec{}, counts: map[string]int{}}
	for _, p := range pkgs {
		if len(p.Errors) > 0 {
			return nil, fmt.Errorf("generator: %v", p.Errors[0])
		}
		switch p.Name {
		case "dhcpv4":
			genV4(p, res)
		case "dhcpv6":
			genV6(p, res)
		}
	}
	return res, nil
}

func genV4(p *packages.Package, res *genResult) {
	q := qualifier(p.Types)
	scope := p.Types.Scope()
	var sb strings.Builder
	sb.WriteString("//go:build verif\n\n// Code generated by gosym from the package's types at check time. DO NOT EDIT.\n\npackage dhcpv4\n\nimport (\n\t\"net\"\n\t\"time\"\n\n\t\"github.com/insomniacslk/dhcp/iana\"\n\t\"github.com/insomniacslk/dhcp/rfc1035label\"\n)\n\nvar _ = net.IPv4len\nvar _ = time.Second\nvar _ iana.Arch\nvar _ rfc1035label.Labels\n\n")
	sb.WriteString("func verifGenLabel(name string) []byte {\n\tb := verifBytes(name, 2)\n\tfor _, c := range b {\n\t\tverifAssume(c != '.')\n\t}\n\treturn b\n}\n\n")
	pkt := scope.Lookup("DHCPv4").Type()
	rs := readers(types.NewPointer(pkt))
	skipped := 0
	sb.WriteString(digestHelpers)
	emitReaderSwitch(&sb, "verifPacketReader", "*DHCPv4", rs, &skipped)
	res.counts["dhcpv4.(*DHCPv4) readers"] = len(rs)
	ors := readers(scope.Lookup("Options").Type())
	emitReaderSwitch(&sb, "verifOptionsReader", "Options", ors, &skipped)
	res.counts["dhcpv4 reader result parts not folded into the repeated-call comparison"] = skipped
	res.counts["dhcpv4.Options readers"] = len(ors)
	// constructors
	var names []string
	for _, n := range scope.Names() {
		if strings.HasPrefix(n, "Opt") {
			names = append(names, n)
		}
	}
	sort.Strings(names)
	var ctorSpecs []PlanSpec
	for _, n := range names {
		f, ok := scope.Lookup(n).(*types.Func)
		if !ok {
			continue
		}
		sig := f.Type().(*types.Signature)
		if sig.Results().Len() != 1 || types.TypeString(sig.Results().At(0).Type(), q) != "Option" {
			continue
		}
		var args []string
		ok = true
		for i := 0; i < sig.Params().Len(); i++ {
			a, aok := genArg(sig.Params().At(i).Type(), sig.Variadic() && i == sig.Params().Len()-1, q, fmt.Sprintf("a%d", i))
			if !aok {
				ok = false
				res.uncovered = append(res.uncovered, fmt.Sprintf("dhcpv4.%s: no generator for parameter type %s", n, types.TypeString(sig.Params().At(i).Type(), q)))
				break
			}
			args = append(args, a)
		}
		if !ok {
			continue
		}
		fmt.Fprintf(&sb, "// VerifC20Ctor%s: reading or printing the value built by %s never changes it.\nfunc VerifC20Ctor%s() {\n\tverifC20CheckOption(%s(%s))\n}\n\n", n, n, n, n, strings.Join(args, ", "))
		ctorSpecs = append(ctorSpecs, PlanSpec{Pkg: "dhcpv4", Func: "VerifC20Ctor" + n})
	}
	res.counts["dhcpv4 option constructors"] = len(ctorSpecs)
	res.specs["C20"] = append(res.specs["C20"], ctorSpecs...)
	res.files["dhcpv4/zz_verif_generated.go"] = []byte(sb.String())
}

func genV6(p *packages.Package, res *genResult) {
	scope := p.Types.Scope()
	var sb strings.Builder
	sb.WriteString("//go:build verif\n\n// Code generated by gosym from the package's types at check time. DO NOT EDIT.\n\npackage dhcpv6\n\n")
	skipped := 0
	sb.WriteString(digestHelpers)
	for _, tn := range []string{"Message", "RelayMessage"} {
		t := scope.Lookup(tn).Type()
		rs := readers(types.NewPointer(t))
		emitReaderSwitch(&sb, "verif"+tn+"Reader", "*"+tn, rs, &skipped)
		res.counts["dhcpv6.(*"+tn+") readers"] = len(rs)
	}
	for _, tn := range []string{"MessageOptions", "RelayOptions"} {
		t := scope.Lookup(tn).Type()
		rs := readers(t)
		emitReaderSwitch(&sb, "verif"+tn+"Reader", tn, rs, &skipped)
		res.counts["dhcpv6."+tn+" readers"] = len(rs)
	}
	// the option-parser switch
	type optCase struct {
		code uint64
		name string
		typ  types.Type
	}
	var cases []optCase
	for _, f := range p.Syntax {
		for _, d := range f.Decls {
			fd, ok := d.(*ast.FuncDecl)
			if !ok || fd.Name.Name != "ParseOption" || fd.Recv != nil {
				continue
			}
			ast.Inspect(fd.Body, func(n ast.Node) bool {
				cc, ok := n.(*ast.CaseClause)
				if !ok || len(cc.List) == 0 {
					return true
				}
				var typ types.Type
				for _, st := range cc.Body {
					as, ok := st.(*ast.AssignStmt)
					if !ok || len(as.Rhs) != 1 {
						continue
					}
					if tv, ok := p.TypesInfo.Types[as.Rhs[0]]; ok {
						typ = tv.Type
					}
				}
				for _, e := range cc.List {
					tv, ok := p.TypesInfo.Types[e]
					if !ok || tv.Value == nil {
						continue
					}
					v, _ := constant.Uint64Val(tv.Value)
					nm := fmt.Sprint(v)
					if id, ok := e.(*ast.Ident); ok {
						nm = id.Name
					}
					cases = append(cases, optCase{v, nm, typ})
				}
				return true
			})
		}
	}
	sort.Slice(cases, func(i, j int) bool { return cases[i].code < cases[j].code })
	sb.WriteString("// verifKnownCodes are the option codes dhcpv6.ParseOption has a typed parser for.\nvar verifKnownCodes = []uint16{")
	for _, c := range cases {
		fmt.Fprintf(&sb, "%d, ", c.code)
	}
	sb.WriteString("}\n\nvar verifKnownCodeNames = []string{")
	for _, c := range cases {
		fmt.Fprintf(&sb, "%q, ", c.name)
	}
	sb.WriteString("}\n\n")
	res.counts["dhcpv6.ParseOption typed cases"] = len(cases)
	// readers per concrete option type
	q := qualifier(p.Types)
	sb.WriteString("// verifOptionReaders returns how many read-only methods the dynamic type of o has.\nfunc verifOptionReaders(o Option) int {\n\tswitch o.(type) {\n")
	seen := map[string]bool{}
	type tinfo struct {
		ts string
		ms []*types.Func
	}
	var tis []tinfo
	add := func(t types.Type) {
		if t == nil {
			return
		}
		ts := types.TypeString(t, q)
		if seen[ts] {
			return
		}
		seen[ts] = true
		tis = append(tis, tinfo{ts, readers(t)})
	}
	for _, c := range cases {
		add(c.typ)
	}
	add(types.NewPointer(scope.Lookup("OptionGeneric").Type()))
	total := 0
	for _, ti := range tis {
		fmt.Fprintf(&sb, "\tcase %s:\n\t\treturn %d\n", ti.ts, len(ti.ms))
		total += len(ti.ms)
	}
	sb.WriteString("\t}\n\treturn 0\n}\n\n")
	res.counts["dhcpv6 option types"] = len(tis)
	res.counts["dhcpv6 option readers (all types)"] = total
	sb.WriteString("// verifOptionReader calls the k-th read-only method of o's dynamic type and folds its results.\nfunc verifOptionReader(o Option, k int) []byte { return verifOptionReaderK(o, k, nil) }\n\nfunc verifOptionReaderK(o Option, k int, keep *[][]byte) (d []byte) {\n\tswitch v := o.(type) {\n")
	for _, ti := range tis {
		fmt.Fprintf(&sb, "\tcase %s:\n\t\tswitch k {\n", ti.ts)
		for i, m := range ti.ms {
			fmt.Fprintf(&sb, "\t\tcase %d:\n", i)
			emitReaderCase(&sb, m, "\t\t\t", &skipped)
		}
		sb.WriteString("\t\t}\n")
	}
	sb.WriteString("\t}\n\treturn d\n}\n")
	res.counts["dhcpv6 reader result parts not folded into the repeated-call comparison"] = skipped
	res.files["dhcpv6/zz_verif_generated.go"] = []byte(sb.String())
}
