package main

// Values of the symbolic interpreter.

import (
	"fmt"
	"go/constant"
	"go/types"
	"strings"
)

type Value interface{}

// Obj is a heap (or stack) object with concrete identity.
type Obj struct {
	ID     int
	V      Value
	Frozen bool // allocated during package initialisation: shared between paths, must not be written
	Note   string
}

// Ptr points into an object: Path selects nested struct fields / array elements.
// Sym, when non-nil, is a symbolic final index in [0,SymN) added to the last path element.
type Ptr struct {
	Obj  *Obj
	Path []int
	Sym  *Term // optional symbolic index (64-bit) relative to SymLo
	SymN int
}

type SliceV struct {
	Base          *Ptr // pointer to the backing *ArrayV; nil for nil slice
	Off, Len, Cap int
}

type StrV struct {
	B      []*Term // 8-bit terms
	Opaque bool    // content unknown (result of formatting); B is empty
	OLen   *Term   // symbolic length of an opaque string (64-bit)
	Empty  *Term   // for opaque strings from table lookups: condition under which the string is ""
	Cost   int     // opaque formatted strings: lower bound on the length (allocation model): format text plus rendered string operands
}

type StructV struct{ F []Value }
type ArrayV struct{ E []Value }
type IfaceV struct {
	T types.Type // dynamic type; nil for nil interface
	V Value
}
type MapEntry struct {
	K, V Value
}
type MapObj struct {
	ID      int
	Entries []*MapEntry
	Frozen  bool
}
type MapV struct{ M *MapObj }
type FuncV struct {
	Fn   interface{} // *ssa.Function or *ssa.Builtin; nil for nil func
	Bind []Value
}
type TupleV struct{ E []Value }

// iterator state for Range/Next
type IterV struct {
	Map  *MapObj
	Rest []*MapEntry // remaining entries (snapshot)
	Str  *StrV
	Pos  int
}

func typeWidth(t types.Type) (w int, signed bool, ok bool) {
	b, isB := t.Underlying().(*types.Basic)
	if !isB {
		return 0, false, false
	}
	switch b.Kind() {
	case types.Bool, types.UntypedBool:
		return 0, false, true
	case types.Int8:
		return 8, true, true
	case types.Int16:
		return 16, true, true
	case types.Int32, types.UntypedRune:
		return 32, true, true
	case types.Int, types.Int64, types.UntypedInt:
		return 64, true, true
	case types.Uint8:
		return 8, false, true
	case types.Uint16:
		return 16, false, true
	case types.Uint32:
		return 32, false, true
	case types.Uint, types.Uint64, types.Uintptr:
		return 64, false, true
	}
	return 0, false, false
}

func isString(t types.Type) bool {
	b, ok := t.Underlying().(*types.Basic)
	return ok && b.Info()&types.IsString != 0
}

func isFloat(t types.Type) bool {
	b, ok := t.Underlying().(*types.Basic)
	return ok && b.Info()&(types.IsFloat|types.IsComplex) != 0
}

func (e *Exec) concStr(s string) *StrV {
	b := make([]*Term, len(s))
	for i := 0; i < len(s); i++ {
		b[i] = e.tb.Const(8, uint64(s[i]))
	}
	return &StrV{B: b}
}

// strConcrete returns the Go string if all bytes are constant.
func strConcrete(s *StrV) (string, bool) {
	if s.Opaque {
		return "", false
	}
	var sb strings.Builder
	for _, t := range s.B {
		if !t.IsConst() {
			return "", false
		}
		sb.WriteByte(byte(t.V))
	}
	return sb.String(), true
}

func (e *Exec) zero(t types.Type) Value {
	switch u := t.Underlying().(type) {
	case *types.Basic:
		if w, _, ok := typeWidth(u); ok {
			return e.tb.Const(w, 0)
		}
		if isString(u) {
			return &StrV{}
		}
		if isFloat(u) {
			return e.tb.Const(64, 0) // floats are carried as opaque 64-bit patterns; arithmetic on them is unsupported
		}
		if u.Kind() == types.UnsafePointer {
			return &Ptr{}
		}
		if u.Kind() == types.UntypedNil {
			return &IfaceV{}
		}
	case *types.Pointer:
		return &Ptr{}
	case *types.Slice:
		return &SliceV{}
	case *types.Struct:
		f := make([]Value, u.NumFields())
		for i := range f {
			f[i] = e.zero(u.Field(i).Type())
		}
		return &StructV{F: f}
	case *types.Array:
		n := int(u.Len())
		el := make([]Value, n)
		if n > 0 {
			z := e.zero(u.Elem())
			if _, scalar := z.(*Term); scalar {
				for i := range el {
					el[i] = z
				}
			} else {
				for i := range el {
					el[i] = e.zero(u.Elem())
				}
			}
		}
		return &ArrayV{E: el}
	case *types.Interface:
		return &IfaceV{}
	case *types.Map:
		return &MapV{}
	case *types.Signature:
		return &FuncV{}
	case *types.Chan:
		return &ChanV{}
	case *types.Tuple:
		el := make([]Value, u.Len())
		for i := range el {
			el[i] = e.zero(u.At(i).Type())
		}
		return &TupleV{E: el}
	}
	panic(unsupported("zero value of type " + t.String()))
}

func (e *Exec) constValue(t types.Type, c constant.Value) Value {
	if c == nil {
		return e.zero(t)
	}
	if w, _, ok := typeWidth(t); ok {
		if w == 0 {
			return e.tb.Bool(constant.BoolVal(c))
		}
		ci := constant.ToInt(c)
		if v, exact := constant.Uint64Val(ci); exact {
			return e.tb.Const(w, v)
		}
		if v, exact := constant.Int64Val(ci); exact {
			return e.tb.Const(w, uint64(v))
		}
		panic(unsupported("integer constant out of range"))
	}
	if isString(t) {
		return e.concStr(constant.StringVal(c))
	}
	if isFloat(t) {
		f, _ := constant.Float64Val(c)
		return &FloatV{F: f}
	}
	panic(unsupported("constant of type " + t.String()))
}

// FloatV is a concrete float; symbolic floats are unsupported.
type FloatV struct{ F float64 }

// copyVal gives value semantics to by-value composites.
func copyVal(v Value) Value {
	switch x := v.(type) {
	case *StructV:
		f := make([]Value, len(x.F))
		for i, y := range x.F {
			f[i] = copyVal(y)
		}
		return &StructV{F: f}
	case *ArrayV:
		el := make([]Value, len(x.E))
		for i, y := range x.E {
			el[i] = copyVal(y)
		}
		return &ArrayV{E: el}
	}
	return v
}

func (p *Ptr) IsNil() bool { return p == nil || p.Obj == nil }

func (p *Ptr) sub(i int) *Ptr {
	np := make([]int, len(p.Path)+1)
	copy(np, p.Path)
	np[len(p.Path)] = i
	return &Ptr{Obj: p.Obj, Path: np}
}

// slot returns the address of the cell designated by the concrete part of p.
func (p *Ptr) slot() *Value {
	s := &p.Obj.V
	for _, i := range p.Path {
		switch c := (*s).(type) {
		case *StructV:
			s = &c.F[i]
		case *ArrayV:
			if i < 0 || i >= len(c.E) {
				panic(fmt.Sprintf("internal: pointer path index %d out of array of %d", i, len(c.E)))
			}
			s = &c.E[i]
		default:
			panic(fmt.Sprintf("internal: pointer path through %T", c))
		}
	}
	return s
}

func samePtr(a, b *Ptr) bool {
	if a.IsNil() || b.IsNil() {
		return a.IsNil() && b.IsNil()
	}
	if a.Obj != b.Obj || len(a.Path) != len(b.Path) {
		return false
	}
	for i := range a.Path {
		if a.Path[i] != b.Path[i] {
			return false
		}
	}
	return true
}

// sliceElems returns the backing array value of a non-nil slice.
func sliceArr(s *SliceV) *ArrayV {
	return (*s.Base.slot()).(*ArrayV)
}

func describe(v Value) string {
	switch x := v.(type) {
	case *Term:
		return x.String()
	case *StrV:
		if s, ok := strConcrete(x); ok {
			return fmt.Sprintf("%q", s)
		}
		return fmt.Sprintf("str[%d]", len(x.B))
	case *SliceV:
		return fmt.Sprintf("slice[%d:%d]", x.Len, x.Cap)
	case *IfaceV:
		if x.T == nil {
			return "nil-iface"
		}
		return "iface(" + x.T.String() + ")"
	}
	return fmt.Sprintf("%T", v)
}
