package main

// Operators, conversions, maps, builtins.

import (
	"fmt"
	"go/token"
	"go/types"

	"golang.org/x/tools/go/ssa"
)

func (e *Exec) binop(fr *Frame, in ssa.Instruction, op token.Token, x, y Value, xt, yt types.Type) (Value, *GoPanic) {
	tb := e.tb
	switch op {
	case token.EQL:
		return e.eqValue(x, y), nil
	case token.NEQ:
		return tb.Not(e.eqValue(x, y)), nil
	}
	if fx, ok := x.(*FloatV); ok {
		fy := y.(*FloatV)
		switch op {
		case token.ADD:
			return &FloatV{fx.F + fy.F}, nil
		case token.SUB:
			return &FloatV{fx.F - fy.F}, nil
		case token.MUL:
			return &FloatV{fx.F * fy.F}, nil
		case token.QUO:
			return &FloatV{fx.F / fy.F}, nil
		case token.LSS:
			return tb.Bool(fx.F < fy.F), nil
		case token.LEQ:
			return tb.Bool(fx.F <= fy.F), nil
		case token.GTR:
			return tb.Bool(fx.F > fy.F), nil
		case token.GEQ:
			return tb.Bool(fx.F >= fy.F), nil
		}
	}
	if sx, ok := x.(*StrV); ok {
		sy := y.(*StrV)
		switch op {
		case token.ADD:
			if sx.Opaque || sy.Opaque {
				return e.opaqueStr(), nil
			}
			b := make([]*Term, 0, len(sx.B)+len(sy.B))
			b = append(b, sx.B...)
			b = append(b, sy.B...)
			e.alloc += int64(len(b))
			return &StrV{B: b}, nil
		case token.LSS, token.LEQ, token.GTR, token.GEQ:
			return e.strLess(sx, sy, op), nil
		}
	}
	tx, ok1 := x.(*Term)
	ty, ok2 := y.(*Term)
	if !ok1 || !ok2 {
		panic(unsupported(fmt.Sprintf("binop %s on %T,%T", op, x, y)))
	}
	_, signed, _ := typeWidth(xt)
	switch op {
	case token.ADD:
		return tb.Add(tx, ty), nil
	case token.SUB:
		return tb.Sub(tx, ty), nil
	case token.MUL:
		return tb.Mul(tx, ty), nil
	case token.QUO, token.REM:
		if !e.branch(tb.Not(tb.Eq(ty, tb.Const(ty.W, 0)))) {
			return nil, e.goPanic(fr, in, "integer divide by zero")
		}
		switch {
		case op == token.QUO && signed:
			return tb.bin(OpSDiv, tx, ty), nil
		case op == token.QUO:
			return tb.bin(OpUDiv, tx, ty), nil
		case signed:
			return tb.bin(OpSRem, tx, ty), nil
		default:
			return tb.bin(OpURem, tx, ty), nil
		}
	case token.AND:
		if tx.W == 0 {
			return tb.And(tx, ty), nil
		}
		return tb.BAnd(tx, ty), nil
	case token.OR:
		if tx.W == 0 {
			return tb.Or(tx, ty), nil
		}
		return tb.BOr(tx, ty), nil
	case token.XOR:
		return tb.BXor(tx, ty), nil
	case token.AND_NOT:
		return tb.BAnd(tx, tb.BNot(ty)), nil
	case token.SHL, token.SHR:
		return e.shift(fr, in, op, tx, ty, signed, yt)
	case token.LSS:
		if signed {
			return tb.Slt(tx, ty), nil
		}
		return tb.Ult(tx, ty), nil
	case token.LEQ:
		if signed {
			return tb.Sle(tx, ty), nil
		}
		return tb.Ule(tx, ty), nil
	case token.GTR:
		if signed {
			return tb.Slt(ty, tx), nil
		}
		return tb.Ult(ty, tx), nil
	case token.GEQ:
		if signed {
			return tb.Sle(ty, tx), nil
		}
		return tb.Ule(ty, tx), nil
	}
	panic(unsupported("binop " + op.String()))
}

func (e *Exec) shift(fr *Frame, in ssa.Instruction, op token.Token, x, cnt *Term, signed bool, cntType types.Type) (Value, *GoPanic) {
	tb := e.tb
	w := x.W
	_, cs, _ := typeWidth(cntType)
	if cs {
		// negative shift count panics
		if !e.branch(tb.Sle(tb.Const(cnt.W, 0), cnt)) {
			return nil, e.goPanic(fr, in, "negative shift amount")
		}
	}
	var sop Op
	switch {
	case op == token.SHL:
		sop = OpShl
	case signed:
		sop = OpAShr
	default:
		sop = OpLShr
	}
	if cnt.IsConst() {
		c := cnt.V
		if c > uint64(w) {
			c = uint64(w)
		}
		return tb.bin(sop, x, tb.Const(w, c)), nil
	}
	if cnt.W <= w {
		return tb.bin(sop, x, tb.ZExt(cnt, w)), nil
	}
	// count wider than operand: saturate
	big := tb.Ule(tb.Const(cnt.W, uint64(w)), cnt)
	c := tb.Ite(big, tb.Const(w, uint64(w)), tb.Extract(cnt, w-1, 0))
	return tb.bin(sop, x, c), nil
}

func (e *Exec) strLess(a, b *StrV, op token.Token) *Term {
	if a.Opaque || b.Opaque {
		panic(unsupported("ordering comparison of formatted strings"))
	}
	tb := e.tb
	// lexicographic: lt, eq prefixes
	n := len(a.B)
	if len(b.B) < n {
		n = len(b.B)
	}
	// result for the suffix beyond common length
	var lt, eq *Term
	eq = tb.Bool(len(a.B) == len(b.B))
	lt = tb.Bool(len(a.B) < len(b.B))
	for i := n - 1; i >= 0; i-- {
		bl := tb.Ult(a.B[i], b.B[i])
		be := tb.Eq(a.B[i], b.B[i])
		lt = tb.Or(bl, tb.And(be, lt))
		eq = tb.And(be, eq)
	}
	switch op {
	case token.LSS:
		return lt
	case token.LEQ:
		return tb.Or(lt, eq)
	case token.GTR:
		return tb.Not(tb.Or(lt, eq))
	default:
		return tb.Not(lt)
	}
}

func (e *Exec) opaqueStr() *StrV {
	return &StrV{Opaque: true}
}

// eqValue is Go's == as a Bool term.
func (e *Exec) eqValue(x, y Value) *Term {
	tb := e.tb
	switch a := x.(type) {
	case *Term:
		return tb.Eq(a, y.(*Term))
	case *FloatV:
		return tb.Bool(a.F == y.(*FloatV).F)
	case *StrV:
		b := y.(*StrV)
		if a.Opaque || b.Opaque {
			if a.Opaque && a.Empty != nil && !b.Opaque && len(b.B) == 0 {
				return a.Empty
			}
			if b.Opaque && b.Empty != nil && !a.Opaque && len(a.B) == 0 {
				return b.Empty
			}
			panic(unsupported("comparison of formatted (opaque) strings"))
		}
		if len(a.B) != len(b.B) {
			return tb.F
		}
		r := tb.T
		for i := range a.B {
			r = tb.And(r, tb.Eq(a.B[i], b.B[i]))
		}
		return r
	case *Ptr:
		b := y.(*Ptr)
		if (a.Sym != nil) || (b.Sym != nil) {
			a, b = e.concPtr(a), e.concPtr(b)
		}
		return tb.Bool(samePtr(a, b))
	case *StructV:
		b := y.(*StructV)
		r := tb.T
		for i := range a.F {
			r = tb.And(r, e.eqValue(a.F[i], b.F[i]))
		}
		return r
	case *ArrayV:
		b := y.(*ArrayV)
		r := tb.T
		for i := range a.E {
			r = tb.And(r, e.eqValue(a.E[i], b.E[i]))
		}
		return r
	case *IfaceV:
		b, ok := y.(*IfaceV)
		if !ok {
			panic(unsupported("comparison of interface with non-interface"))
		}
		if a.T == nil || b.T == nil {
			return tb.Bool(a.T == nil && b.T == nil)
		}
		if !types.Identical(a.T, b.T) {
			return tb.F
		}
		switch a.V.(type) {
		case *SliceV, *MapV, *FuncV:
			panic(unsupported("comparison of uncomparable dynamic types"))
		}
		return e.eqValue(a.V, b.V)
	case *SliceV:
		b := y.(*SliceV)
		// only comparison with nil is legal
		if b.Base == nil && b.Len == 0 {
			return tb.Bool(a.Base == nil)
		}
		return tb.Bool(b.Base == nil && a.Base == nil)
	case *MapV:
		b := y.(*MapV)
		return tb.Bool(a.M == b.M)
	case *FuncV:
		b := y.(*FuncV)
		return tb.Bool(a.Fn == nil && b.Fn == nil)
	case *ChanV:
		return tb.Bool(a.C == y.(*ChanV).C)
	}
	panic(unsupported(fmt.Sprintf("equality on %T", x)))
}

func (e *Exec) convert(v Value, from, to types.Type) (Value, *GoPanic) {
	tb := e.tb
	fu, tu := from.Underlying(), to.Underlying()
	if t, ok := v.(*Term); ok {
		if w, _, ok := typeWidth(tu); ok && w > 0 {
			_, fs, _ := typeWidth(fu)
			return tb.Resize(t, w, fs), nil
		}
		if isString(tu) {
			// string(rune)
			if t.IsConst() {
				return e.concStr(string(rune(t.V))), nil
			}
			panic(unsupported("string(rune) of symbolic value"))
		}
		if isFloat(tu) {
			_, fs, _ := typeWidth(fu)
			if t.IsConst() {
				if fs {
					return &FloatV{float64(signExt(t.V, t.W))}, nil
				}
				return &FloatV{float64(t.V)}, nil
			}
			panic(unsupported("int to float conversion of symbolic value"))
		}
	}
	if f, ok := v.(*FloatV); ok {
		if isFloat(tu) {
			return f, nil
		}
		if w, _, ok := typeWidth(tu); ok {
			return tb.Const(w, uint64(int64(f.F))), nil
		}
	}
	switch a := v.(type) {
	case *StrV:
		if isString(tu) {
			return a, nil
		}
		if sl, ok := tu.(*types.Slice); ok {
			if a.Opaque {
				panic(unsupported("[]byte of formatted (opaque) string"))
			}
			if b, ok := sl.Elem().Underlying().(*types.Basic); ok && b.Kind() == types.Uint8 {
				s := e.newSlice(sl.Elem(), len(a.B), len(a.B))
				arr := sliceArr(s)
				for i, t := range a.B {
					arr.E[i] = t
				}
				return s, nil
			}
			panic(unsupported("[]rune(string)"))
		}
	case *SliceV:
		if isString(tu) {
			b := make([]*Term, a.Len)
			if a.Len > 0 {
				arr := sliceArr(a)
				for i := 0; i < a.Len; i++ {
					b[i] = arr.E[a.Off+i].(*Term)
				}
			}
			e.alloc += int64(a.Len)
			return &StrV{B: b}, nil
		}
		if _, ok := tu.(*types.Slice); ok {
			return a, nil
		}
	case *Ptr:
		return a, nil
	}
	panic(unsupported(fmt.Sprintf("conversion %s -> %s (%T)", from, to, v)))
}

// ---- maps ----

func (e *Exec) keyEq(a, b Value) *Term { return e.eqValue(a, b) }

func allConcreteKeys(m *MapObj) bool {
	for _, en := range m.Entries {
		if t, ok := en.K.(*Term); ok {
			if !t.IsConst() {
				return false
			}
		} else {
			return false
		}
	}
	return true
}

func (e *Exec) mapLookup(m *MapObj, k Value, vt types.Type) (Value, *Term) {
	tb := e.tb
	if m == nil {
		return e.zero(vt), tb.F
	}
	if e.race != nil {
		e.raceAccess(fmt.Sprintf("map%d", m.ID), false)
	}
	if kt, ok := k.(*Term); ok {
		k = e.subst(kt)
	}
	// big read-only tables (option names etc.) with a symbolic key: no forking; scalar values become
	// an ite chain, string values an opaque string, with an exact "found" term
	if len(m.Entries) > 6 && m.Frozen {
		z := e.zero(vt)
		_, scalar := z.(*Term)
		_, isStr := z.(*StrV)
		if scalar || isStr {
			conds := make([]*Term, len(m.Entries))
			symbolic := false
			for i, en := range m.Entries {
				conds[i] = e.keyEq(en.K, k)
				if !conds[i].IsConst() {
					symbolic = true
				}
			}
			if symbolic {
				found := tb.F
				if scalar {
					r := z.(*Term)
					for i, en := range m.Entries {
						found = tb.Or(found, conds[i])
						r = tb.Ite(conds[i], en.V.(*Term), r)
					}
					return r, found
				}
				emptyHit := tb.F
				for i, en := range m.Entries {
					found = tb.Or(found, conds[i])
					if sv, ok := en.V.(*StrV); ok && !sv.Opaque && len(sv.B) == 0 {
						emptyHit = tb.Or(emptyHit, conds[i])
					}
				}
				r := e.opaqueStr()
				r.Empty = tb.Or(tb.Not(found), emptyHit)
				return r, found
			}
		}
	}
	for _, en := range m.Entries {
		c := e.keyEq(en.K, k)
		if c.IsFalse() {
			continue
		}
		if e.branch(c) {
			return copyVal(en.V), tb.T
		}
	}
	return e.zero(vt), tb.F
}

// logGlobalMap / logGlobalArray: see logGlobalWrite.
func (e *Exec) logGlobalMap(m *MapObj) {
	e.globalWrites++
	old := make([]*MapEntry, len(m.Entries))
	for i, en := range m.Entries {
		c := *en
		old[i] = &c
	}
	e.undo = append(e.undo, func() { m.Entries = old })
}

func (e *Exec) logGlobalArray(arr *ArrayV) {
	e.globalWrites++
	old := append([]Value(nil), arr.E...)
	e.undo = append(e.undo, func() { copy(arr.E, old) })
}

func (e *Exec) mapUpdate(m *MapObj, k, v Value) {
	if m.Frozen && !e.w.initializing {
		e.logGlobalMap(m)
	}
	if e.race != nil {
		e.raceAccess(fmt.Sprintf("map%d", m.ID), true)
	}
	if kt, ok := k.(*Term); ok {
		k = e.subst(kt)
	}
	for _, en := range m.Entries {
		c := e.keyEq(en.K, k)
		if c.IsFalse() {
			continue
		}
		if e.branch(c) {
			en.V = v
			return
		}
	}
	m.Entries = append(m.Entries, &MapEntry{K: copyVal(k), V: v})
	e.alloc += 48
}

func (e *Exec) mapDelete(m *MapObj, k Value) {
	if m == nil {
		return
	}
	if m.Frozen && !e.w.initializing {
		e.logGlobalMap(m)
	}
	if e.race != nil {
		e.raceAccess(fmt.Sprintf("map%d", m.ID), true)
	}
	for i, en := range m.Entries {
		c := e.keyEq(en.K, k)
		if c.IsFalse() {
			continue
		}
		if e.branch(c) {
			m.Entries = append(append([]*MapEntry(nil), m.Entries[:i]...), m.Entries[i+1:]...)
			return
		}
	}
}

func (e *Exec) next(it *IterV, x *ssa.Next) (Value, *GoPanic) {
	tb := e.tb
	if x.IsString {
		s := it.Str
		if s.Opaque {
			panic(unsupported("range over formatted string"))
		}
		if it.Pos >= len(s.B) {
			return &TupleV{E: []Value{tb.F, tb.Const(64, 0), tb.Const(32, 0)}}, nil
		}
		b := s.B[it.Pos]
		i := it.Pos
		if e.branch(tb.Ult(b, tb.Const(8, 0x80))) {
			it.Pos++
			return &TupleV{E: []Value{tb.T, tb.Const(64, uint64(i)), tb.ZExt(b, 32)}}, nil
		}
		// UTF-8 decoding as utf8.DecodeRuneInString does it (Unicode Table 3-7): one fork per
		// sequence length; anything else is RuneError of width 1
		in := func(x *Term, lo, hi uint64) *Term {
			return tb.And(tb.Ule(tb.Const(8, lo), x), tb.Ule(x, tb.Const(8, hi)))
		}
		at := func(k int) *Term {
			if i+k < len(s.B) {
				return s.B[i+k]
			}
			return nil
		}
		low6 := func(x *Term) *Term { return tb.ZExt(tb.Extract(x, 5, 0), 32) }
		cat := func(hi *Term, parts ...*Term) *Term { // hi then 6 bits per part
			r := hi
			for _, p := range parts {
				r = tb.BOr(tb.Mul(r, tb.Const(32, 64)), low6(p))
			}
			return r
		}
		b1, b2, b3 := at(1), at(2), at(3)
		if b1 != nil && e.branch(tb.And(in(b, 0xc2, 0xdf), in(b1, 0x80, 0xbf))) {
			it.Pos += 2
			return &TupleV{E: []Value{tb.T, tb.Const(64, uint64(i)), cat(tb.ZExt(tb.Extract(b, 4, 0), 32), b1)}}, nil
		}
		if b2 != nil {
			lo := tb.Ite(tb.Eq(b, tb.Const(8, 0xe0)), tb.Const(8, 0xa0), tb.Const(8, 0x80))
			hi := tb.Ite(tb.Eq(b, tb.Const(8, 0xed)), tb.Const(8, 0x9f), tb.Const(8, 0xbf))
			c3 := tb.And(tb.And(in(b, 0xe0, 0xef), tb.And(tb.Ule(lo, b1), tb.Ule(b1, hi))), in(b2, 0x80, 0xbf))
			if e.branch(c3) {
				it.Pos += 3
				return &TupleV{E: []Value{tb.T, tb.Const(64, uint64(i)), cat(tb.ZExt(tb.Extract(b, 3, 0), 32), b1, b2)}}, nil
			}
		}
		if b3 != nil {
			lo := tb.Ite(tb.Eq(b, tb.Const(8, 0xf0)), tb.Const(8, 0x90), tb.Const(8, 0x80))
			hi := tb.Ite(tb.Eq(b, tb.Const(8, 0xf4)), tb.Const(8, 0x8f), tb.Const(8, 0xbf))
			c4 := tb.And(tb.And(in(b, 0xf0, 0xf4), tb.And(tb.Ule(lo, b1), tb.Ule(b1, hi))), tb.And(in(b2, 0x80, 0xbf), in(b3, 0x80, 0xbf)))
			if e.branch(c4) {
				it.Pos += 4
				return &TupleV{E: []Value{tb.T, tb.Const(64, uint64(i)), cat(tb.ZExt(tb.Extract(b, 2, 0), 32), b1, b2, b3)}}, nil
			}
		}
		it.Pos++
		return &TupleV{E: []Value{tb.T, tb.Const(64, uint64(i)), tb.Const(32, 0xfffd)}}, nil
	}
	tup := x.Type().(*types.Tuple)
	for {
		if len(it.Rest) == 0 {
			return &TupleV{E: []Value{tb.F, e.zeroOrNil(tup.At(1).Type()), e.zeroOrNil(tup.At(2).Type())}}, nil
		}
		i := 0
		if e.symMapOrd {
			i = e.choose(len(it.Rest))
		}
		en := it.Rest[i]
		it.Rest = append(append([]*MapEntry(nil), it.Rest[:i]...), it.Rest[i+1:]...)
		// skip entries deleted during iteration
		live := false
		for _, c := range it.Map.Entries {
			if c == en {
				live = true
				break
			}
		}
		if !live {
			continue
		}
		return &TupleV{E: []Value{tb.T, copyVal(en.K), copyVal(en.V)}}, nil
	}
}

// ---- builtins ----

func (e *Exec) lenOf(v Value) *Term {
	tb := e.tb
	switch a := v.(type) {
	case *SliceV:
		return tb.Const(64, uint64(a.Len))
	case *StrV:
		if a.Opaque {
			if a.OLen == nil {
				a.OLen = tb.ZExt(e.fresh("opaque.len", 16), 64)
			}
			return a.OLen
		}
		return tb.Const(64, uint64(len(a.B)))
	case *MapV:
		if a.M == nil {
			return tb.Const(64, 0)
		}
		return tb.Const(64, uint64(len(a.M.Entries)))
	case *ArrayV:
		return tb.Const(64, uint64(len(a.E)))
	case *Ptr:
		return tb.Const(64, uint64(len((*a.slot()).(*ArrayV).E)))
	case *ChanV:
		if a.C == nil {
			return tb.Const(64, 0)
		}
		return tb.Const(64, uint64(len(a.C.Buf)))
	}
	panic(unsupported(fmt.Sprintf("len of %T", v)))
}

// Go's growslice capacity for byte-sized elements (size classes up to 32K).
var sizeClasses = []int{0, 8, 16, 24, 32, 48, 64, 80, 96, 112, 128, 144, 160, 176, 192, 208, 224, 240, 256, 288, 320, 352, 384, 416, 448, 480, 512, 576, 640, 704, 768, 896, 1024, 1152, 1280, 1408, 1536, 1792, 2048, 2304, 2688, 3072, 3200, 3456, 4096, 4864, 5376, 6144, 6528, 6784, 6912, 8192, 9472, 9728, 10240, 10880, 12288, 13568, 14336, 16384, 18432, 19072, 20480, 21760, 24576, 27264, 28672, 32768}

func growCap(oldCap, need int, elemSize int64) int {
	newcap := oldCap
	doublecap := newcap + newcap
	if need > doublecap {
		newcap = need
	} else {
		const threshold = 256
		if oldCap < threshold {
			newcap = doublecap
		} else {
			for newcap < need {
				newcap += (newcap + 3*threshold) / 4
			}
		}
	}
	bytes := int64(newcap) * elemSize
	for _, c := range sizeClasses {
		if int64(c) >= bytes {
			return int(int64(c) / elemSize)
		}
	}
	// round up to page (8K)
	bytes = (bytes + 8191) &^ 8191
	return int(bytes / elemSize)
}

func (e *Exec) appendOp(s *SliceV, src []Value, et types.Type) *SliceV {
	if len(src) == 0 {
		return s
	}
	need := s.Len + len(src)
	if s.Base != nil && need <= s.Cap {
		arr := sliceArr(s)
		if s.Base.Obj.Frozen && !e.w.initializing {
			e.logGlobalArray(arr)
		}
		for i, v := range src {
			arr.E[s.Off+s.Len+i] = copyVal(v)
		}
		return &SliceV{Base: s.Base, Off: s.Off, Len: need, Cap: s.Cap}
	}
	es := sizeofType(et)
	if es <= 0 {
		es = 1
	}
	nc := growCap(s.Cap, need, es)
	if nc < need {
		nc = need
	}
	ns := e.newSlice(et, need, nc)
	arr := sliceArr(ns)
	if s.Len > 0 {
		old := sliceArr(s)
		for i := 0; i < s.Len; i++ {
			arr.E[i] = copyVal(old.E[s.Off+i])
		}
	}
	for i, v := range src {
		arr.E[s.Len+i] = copyVal(v)
	}
	return ns
}

func (e *Exec) sliceVals(v Value) []Value {
	switch a := v.(type) {
	case *SliceV:
		if a.Len == 0 {
			return nil
		}
		arr := sliceArr(a)
		return arr.E[a.Off : a.Off+a.Len]
	case *StrV:
		if a.Opaque {
			panic(unsupported("bytes of formatted (opaque) string"))
		}
		r := make([]Value, len(a.B))
		for i, b := range a.B {
			r[i] = b
		}
		return r
	}
	panic(unsupported(fmt.Sprintf("elements of %T", v)))
}

func (e *Exec) callBuiltin(b *ssa.Builtin, args []Value, call *ssa.Call) (Value, *GoPanic) {
	tb := e.tb
	switch b.Name() {
	case "len":
		return e.lenOf(args[0]), nil
	case "cap":
		switch a := args[0].(type) {
		case *SliceV:
			return tb.Const(64, uint64(a.Cap)), nil
		case *ChanV:
			if a.C == nil {
				return tb.Const(64, 0), nil
			}
			return tb.Const(64, uint64(a.C.Cap)), nil
		}
		return e.lenOf(args[0]), nil
	case "append":
		s := args[0].(*SliceV)
		var et types.Type
		if call != nil {
			et = call.Type().Underlying().(*types.Slice).Elem()
		} else {
			et = types.Typ[types.Uint8]
		}
		src := e.sliceVals(args[1])
		// copy source first: it may alias the destination
		tmp := append([]Value(nil), src...)
		return e.appendOp(s, tmp, et), nil
	case "copy":
		d := args[0].(*SliceV)
		src := e.sliceVals(args[1])
		n := d.Len
		if len(src) < n {
			n = len(src)
		}
		if n > 0 {
			tmp := append([]Value(nil), src[:n]...)
			arr := sliceArr(d)
			if d.Base.Obj.Frozen && !e.w.initializing {
				e.logGlobalArray(arr)
			}
			for i := 0; i < n; i++ {
				arr.E[d.Off+i] = copyVal(tmp[i])
			}
		}
		return tb.Const(64, uint64(n)), nil
	case "delete":
		e.mapDelete(args[0].(*MapV).M, args[1])
		return nil, nil
	case "panic":
		return nil, &GoPanic{Msg: "explicit panic: " + e.describePanicVal(args[0]), Val: args[0]}
	case "print", "println":
		return nil, nil
	case "recover":
		// recover is effective only when called directly by a deferred function of a panicking frame
		if n := len(e.frames); n > 0 {
			fr := e.frames[n-1]
			if fr.pan != nil && !fr.recoverd {
				fr.recoverd = true
				v := fr.pan.Val
				if v == nil {
					v = &IfaceV{T: types.Typ[types.String], V: e.concStr(fr.pan.Msg)}
				}
				return v, nil
			}
		}
		return &IfaceV{}, nil
	case "close":
		return nil, e.chanClose(args[0].(*ChanV))
	case "min", "max":
		r := args[0].(*Term)
		_, signed, _ := typeWidth(call.Type())
		for _, a := range args[1:] {
			t := a.(*Term)
			var lt *Term
			if signed {
				lt = tb.Slt(t, r)
			} else {
				lt = tb.Ult(t, r)
			}
			if b.Name() == "max" {
				lt = tb.Not(tb.Or(lt, tb.Eq(t, r)))
			}
			r = tb.Ite(lt, t, r)
		}
		return r, nil
	case "clear":
		switch a := args[0].(type) {
		case *SliceV:
			if a.Len > 0 {
				arr := sliceArr(a)
				var et types.Type = types.Typ[types.Uint8]
				if call != nil {
					if st, ok := call.Call.Args[0].Type().Underlying().(*types.Slice); ok {
						et = st.Elem()
					}
				}
				for i := 0; i < a.Len; i++ {
					arr.E[a.Off+i] = e.zero(et)
				}
			}
		case *MapV:
			if a.M != nil {
				a.M.Entries = nil
			}
		}
		return nil, nil
	case "ssa:wrapnilchk":
		p := args[0].(*Ptr)
		if p.IsNil() {
			return nil, &GoPanic{Msg: "value method called using nil pointer"}
		}
		return p, nil
	}
	panic(unsupported("builtin " + b.Name()))
}

// zeroOrNil is zero() tolerant of the invalid type go/ssa gives unused range components.
func (e *Exec) zeroOrNil(t types.Type) Value {
	if b, ok := t.(*types.Basic); ok && b.Kind() == types.Invalid {
		return nil
	}
	return e.zero(t)
}
