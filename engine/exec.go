package main

// The SSA interpreter.

import (
	"fmt"
	"go/token"
	"go/types"
	"strings"
	"time"

	"golang.org/x/tools/go/ssa"
)

// GoPanic is a Go-level panic propagating through interpreted frames.
type GoPanic struct {
	Msg   string
	Val   Value
	Pos   string
	Stack []string
}

type deferred struct {
	fn   Value // *FuncV (static, closure, builtin) or nil for invoke
	recv *IfaceV
	meth *types.Func
	args []Value
}

type Frame struct {
	fn       *ssa.Function
	regs     map[ssa.Value]Value
	defers   []deferred
	pan      *GoPanic
	recoverd bool
}

func (e *Exec) posOf(fr *Frame, in ssa.Instruction) string {
	p := in.Pos()
	if !p.IsValid() {
		// search backwards for any position in the function
		return fr.fn.String()
	}
	pp := e.w.prog.Fset.Position(p)
	f := pp.Filename
	if i := strings.LastIndex(f, "/"); i >= 0 {
		if j := strings.LastIndex(f[:i], "/"); j >= 0 {
			f = f[j+1:]
		}
	}
	return fmt.Sprintf("%s:%d(%s)", f, pp.Line, fr.fn.Name())
}

func (e *Exec) goPanic(fr *Frame, in ssa.Instruction, msg string) *GoPanic {
	return &GoPanic{Msg: msg, Pos: e.posOf(fr, in), Val: &IfaceV{T: types.Typ[types.String], V: e.concStr(msg)}}
}

func (e *Exec) get(fr *Frame, v ssa.Value) Value {
	switch x := v.(type) {
	case *ssa.Const:
		return e.constValue(x.Type(), x.Value)
	case *ssa.Global:
		return &Ptr{Obj: e.w.global(e, x)}
	case *ssa.Function:
		return &FuncV{Fn: x}
	case *ssa.Builtin:
		return &FuncV{Fn: x}
	}
	r, ok := fr.regs[v]
	if !ok {
		panic(fmt.Sprintf("internal: no value for %s (%T) in %s", v.Name(), v, fr.fn))
	}
	return r
}

const maxDepth = 3000

type internalErr struct{ msg string }

func (e *Exec) callFn(fn *ssa.Function, args []Value, bind []Value) (Value, *GoPanic) {
	if e.overrides != nil {
		if o, ok := e.overrides[fn.String()]; ok && !e.inOverride {
			e.inOverride = true
			defer func() { e.inOverride = false }()
			return e.invoke(deferred{fn: o, args: args})
		}
	}
	if h := e.w.intercept(e, fn); h != nil {
		return h(e, fn, args)
	}
	if fn.Blocks == nil {
		panic(unsupported("call to function without body: " + fn.String()))
	}
	e.depth++
	if e.depth > maxDepth {
		panic(pathEnd{kind: "bound", msg: "call depth exceeded in " + fn.String()})
	}
	e.stack = append(e.stack, fn)
	defer func() {
		if r := recover(); r != nil {
			switch x := r.(type) {
			case pathEnd:
				if (x.kind == "unsupported" || x.kind == "bound") && !strings.Contains(x.msg, " < ") {
					x.msg += " [in" + e.stackString() + "]"
				}
				panic(x)
			case killSentinel, internalErr:
				panic(r)
			}
			panic(internalErr{fmt.Sprintf("%v\n  interpreting%s", r, e.stackString())})
		}
		e.depth--
		e.stack = e.stack[:len(e.stack)-1]
	}()
	if e.funcs != nil {
		e.funcs[fn.String()] = true
	}
	fr := &Frame{fn: fn, regs: make(map[ssa.Value]Value, 16)}
	for i, p := range fn.Params {
		fr.regs[p] = args[i]
	}
	for i, fv := range fn.FreeVars {
		fr.regs[fv] = bind[i]
	}
	return e.run(fr, fn.Blocks[0])
}

// boundCandidate: a path that does not finish within the unwinding bound may be a path that never
// finishes: its inputs are replayed natively under a watchdog (a run that does not end is reported
// as a termination violation; one that ends leaves the bound failure as it is: inconclusive).
func (e *Exec) boundCandidate(msg string) {
	if e.boundReported || (e.env != nil && len(e.env.gs) > 1) {
		return
	}
	e.boundReported = true
	m := e.model
	if m == nil {
		if res, mm := e.sat(e.tb.T, true); res == Sat {
			m = mm
		}
	}
	if m != nil {
		e.w.reportViolation(e, "terminates", "nontermination", msg, m)
	}
}

// pathBudget bounds a single path by its number of decisions and its wall-clock time as well as by
// its SSA steps (a loop over symbolic positions makes every step slower than the one before, so the
// step bound alone may never be reached).
func (e *Exec) pathBudget() {
	if e.pathStart.IsZero() {
		e.pathStart = time.Now()
		return
	}
	if len(e.trace) > 40000 || time.Since(e.pathStart) > 120*time.Second {
		msg := fmt.Sprintf("path bound exceeded (unwinding assertion): %d decisions, %.0f s, %d SSA steps", len(e.trace), time.Since(e.pathStart).Seconds(), e.steps)
		e.boundCandidate(msg)
		panic(pathEnd{kind: "bound", msg: msg})
	}
}

// run executes from block b to function exit.
func (e *Exec) run(fr *Frame, b *ssa.BasicBlock) (Value, *GoPanic) {
	var prev *ssa.BasicBlock
	for {
		var next *ssa.BasicBlock
		for _, in := range b.Instrs {
			e.steps++
			if e.steps > e.maxSteps {
				e.boundCandidate(fmt.Sprintf("no end within %d SSA steps in %s", e.maxSteps, fr.fn))
				panic(pathEnd{kind: "bound", msg: fmt.Sprintf("step bound %d exceeded (unwinding assertion) in %s", e.maxSteps, fr.fn)})
			}
			var pan *GoPanic
			switch x := in.(type) {
			case *ssa.Phi:
				for i, p := range b.Preds {
					if p == prev {
						fr.regs[x] = e.get(fr, x.Edges[i])
						break
					}
				}
				// phis of a block must be evaluated in parallel; collect first
				continue
			case *ssa.If:
				c := e.get(fr, x.Cond).(*Term)
				if forkStats != nil {
					e.curPos = e.posOf(fr, in)
				}
				if e.branch(c) {
					next = b.Succs[0]
				} else {
					next = b.Succs[1]
				}
			case *ssa.Jump:
				next = b.Succs[0]
			case *ssa.Return:
				var res Value
				switch len(x.Results) {
				case 0:
				case 1:
					res = e.get(fr, x.Results[0])
				default:
					t := &TupleV{E: make([]Value, len(x.Results))}
					for i, r := range x.Results {
						t.E[i] = e.get(fr, r)
					}
					res = t
				}
				return res, nil
			case *ssa.Panic:
				v := e.get(fr, x.X)
				pan = &GoPanic{Msg: "explicit panic: " + e.describePanicVal(v), Val: v, Pos: e.posOf(fr, in)}
			case *ssa.RunDefers:
				pan = e.runDefers(fr)
			case *ssa.Defer:
				fr.defers = append(fr.defers, e.prepCall(fr, &x.Call))
			case *ssa.Go:
				d := e.prepCall(fr, &x.Call)
				e.spawn(d)
			case *ssa.Store:
				p := e.get(fr, x.Addr).(*Ptr)
				if p.IsNil() {
					pan = e.goPanic(fr, in, "nil pointer dereference (store)")
					break
				}
				e.store(p, e.get(fr, x.Val))
			case *ssa.MapUpdate:
				m := e.get(fr, x.Map).(*MapV)
				if m.M == nil {
					pan = e.goPanic(fr, in, "assignment to entry in nil map")
					break
				}
				e.mapUpdate(m.M, e.get(fr, x.Key), copyVal(e.get(fr, x.Value)))
			case *ssa.Send:
				e.chanSend(e.get(fr, x.Chan).(*ChanV), e.get(fr, x.X))
			case *ssa.DebugRef:
			case ssa.Value:
				var v Value
				v, pan = e.evalValue(fr, x.(ssa.Instruction), x)
				if pan == nil {
					fr.regs[x] = v
				}
			default:
				panic(unsupported(fmt.Sprintf("instruction %T", in)))
			}
			if pan != nil {
				// unwinding: run deferred calls, then propagate unless recovered
				if pan.Pos == "" {
					pan.Pos = e.posOf(fr, in)
				}
				pan.Stack = append(pan.Stack, fr.fn.String())
				fr.pan = pan
				if p2 := e.runDefers(fr); p2 != nil {
					return nil, p2
				}
				if fr.recoverd {
					fr.pan = nil
					fr.recoverd = false
					if fr.fn.Recover != nil {
						return e.run(fr, fr.fn.Recover)
					}
					// zero results
					res := fr.fn.Signature.Results()
					switch res.Len() {
					case 0:
						return nil, nil
					case 1:
						return e.zero(res.At(0).Type()), nil
					default:
						return e.zero(res), nil
					}
				}
				return nil, pan
			}
			if next != nil {
				break
			}
		}
		if next == nil {
			panic(fmt.Sprintf("internal: block %d of %s fell through", b.Index, fr.fn))
		}
		// parallel phi evaluation for the next block
		prev, b = b, next
		if len(b.Instrs) > 0 {
			if _, ok := b.Instrs[0].(*ssa.Phi); ok {
				var idx int
				for i, p := range b.Preds {
					if p == prev {
						idx = i
						break
					}
				}
				var phis []*ssa.Phi
				var vals []Value
				for _, in := range b.Instrs {
					ph, ok := in.(*ssa.Phi)
					if !ok {
						break
					}
					phis = append(phis, ph)
					vals = append(vals, e.get(fr, ph.Edges[idx]))
				}
				for i, ph := range phis {
					fr.regs[ph] = vals[i]
				}
				// mark so the in-loop phi case is a no-op (prev unchanged: it recomputes the same values
				// from possibly updated registers; avoid by setting prev=nil)
				prev = nil
			}
		}
	}
}

func (e *Exec) describePanicVal(v Value) string {
	if i, ok := v.(*IfaceV); ok && i.T != nil {
		if s, ok := i.V.(*StrV); ok {
			if c, ok := strConcrete(s); ok {
				return c
			}
		}
		return "value of type " + i.T.String()
	}
	return "nil"
}

func (e *Exec) runDefers(fr *Frame) *GoPanic {
	for len(fr.defers) > 0 {
		d := fr.defers[len(fr.defers)-1]
		fr.defers = fr.defers[:len(fr.defers)-1]
		e.frames = append(e.frames, fr)
		_, pan := e.invoke(d)
		e.frames = e.frames[:len(e.frames)-1]
		if pan != nil {
			// a panic in a deferred call replaces the current one
			fr.pan = pan
			return e.runDefersAfterPanic(fr, pan)
		}
	}
	return nil
}

func (e *Exec) runDefersAfterPanic(fr *Frame, pan *GoPanic) *GoPanic {
	if p2 := e.runDefers(fr); p2 != nil {
		return p2
	}
	if fr.recoverd {
		return nil
	}
	return pan
}

// prepCall evaluates function and arguments of a call (for defer/go/call).
func (e *Exec) prepCall(fr *Frame, c *ssa.CallCommon) deferred {
	var d deferred
	if c.IsInvoke() {
		d.recv = e.get(fr, c.Value).(*IfaceV)
		d.meth = c.Method
	} else {
		d.fn = e.get(fr, c.Value)
	}
	d.args = make([]Value, len(c.Args))
	for i, a := range c.Args {
		d.args[i] = e.get(fr, a)
	}
	return d
}

func (e *Exec) invoke(d deferred) (Value, *GoPanic) {
	if d.meth != nil {
		if d.recv.T == nil {
			return nil, &GoPanic{Msg: "nil pointer dereference (method call on nil interface " + d.meth.Name() + ")"}
		}
		fn := e.w.lookupMethod(d.recv.T, d.meth)
		if fn == nil {
			panic(unsupported("method " + d.meth.Name() + " not found on " + d.recv.T.String()))
		}
		args := append([]Value{d.recv.V}, d.args...)
		return e.callFn(fn, args, nil)
	}
	f := d.fn.(*FuncV)
	switch fn := f.Fn.(type) {
	case nil:
		return nil, &GoPanic{Msg: "nil pointer dereference (call of nil func)"}
	case *ssa.Function:
		return e.callFn(fn, d.args, f.Bind)
	case *ssa.Builtin:
		return e.callBuiltin(fn, d.args, nil)
	case nopFn:
		return nil, nil
	}
	panic("internal: bad callee")
}

func (e *Exec) evalValue(fr *Frame, in ssa.Instruction, val ssa.Value) (Value, *GoPanic) {
	tb := e.tb
	switch x := in.(type) {
	case *ssa.Alloc:
		et := x.Type().Underlying().(*types.Pointer).Elem()
		if x.Heap {
			e.alloc += sizeofType(et)
		}
		return &Ptr{Obj: e.newObj(e.zero(et), x.Comment)}, nil
	case *ssa.BinOp:
		return e.binop(fr, x, x.Op, e.get(fr, x.X), e.get(fr, x.Y), x.X.Type(), x.Y.Type())
	case *ssa.UnOp:
		v := e.get(fr, x.X)
		switch x.Op {
		case token.MUL:
			p := v.(*Ptr)
			if p.IsNil() {
				return nil, e.goPanic(fr, in, "nil pointer dereference")
			}
			return e.load(p), nil
		case token.NOT:
			return tb.Not(v.(*Term)), nil
		case token.SUB:
			if f, ok := v.(*FloatV); ok {
				return &FloatV{-f.F}, nil
			}
			return tb.Neg(v.(*Term)), nil
		case token.XOR:
			return tb.BNot(v.(*Term)), nil
		case token.ARROW:
			return e.chanRecv(v.(*ChanV), x.CommaOk, x.Type())
		}
	case *ssa.Call:
		d := e.prepCall(fr, &x.Call)
		if f, ok := d.fn.(*FuncV); ok {
			if bi, ok := f.Fn.(*ssa.Builtin); ok {
				return e.callBuiltin(bi, d.args, x)
			}
		}
		e.curCallPos = e.posOf(fr, in)
		return e.invoke(d)
	case *ssa.ChangeInterface:
		return e.get(fr, x.X), nil
	case *ssa.ChangeType:
		return e.get(fr, x.X), nil
	case *ssa.Convert:
		return e.convert(e.get(fr, x.X), x.X.Type(), x.Type())
	case *ssa.Extract:
		return e.get(fr, x.Tuple).(*TupleV).E[x.Index], nil
	case *ssa.Field:
		return e.get(fr, x.X).(*StructV).F[x.Field], nil
	case *ssa.FieldAddr:
		p := e.get(fr, x.X).(*Ptr)
		if p.IsNil() {
			return nil, e.goPanic(fr, in, "nil pointer dereference (field address)")
		}
		p = e.concPtr(p)
		return p.sub(x.Field), nil
	case *ssa.Index:
		// array value or string (via Lookup for strings in older ssa); x.X array
		xv := e.get(fr, x.X)
		idx := e.ext64(fr, x.Index)
		switch a := xv.(type) {
		case *ArrayV:
			return e.indexElems(fr, in, a.E, idx)
		case *StrV:
			return e.indexStr(fr, in, a, idx)
		}
	case *ssa.IndexAddr:
		xv := e.get(fr, x.X)
		idx := e.ext64(fr, x.Index)
		var base *Ptr
		var off, n int
		switch a := xv.(type) {
		case *SliceV:
			if a.Base == nil {
				base, off, n = nil, 0, 0
			} else {
				base, off, n = a.Base, a.Off, a.Len
			}
		case *Ptr:
			if a.IsNil() {
				return nil, e.goPanic(fr, in, "nil pointer dereference (index of nil array pointer)")
			}
			a = e.concPtr(a)
			base, off, n = a, 0, len((*a.slot()).(*ArrayV).E)
		}
		inb := tb.Ult(idx, tb.Const(64, uint64(n)))
		if !e.branch(inb) {
			return nil, e.goPanic(fr, in, fmt.Sprintf("index out of range [%s] with length %d", idx, n))
		}
		idx = e.subst(idx)
		if idx.IsConst() {
			return base.sub(off + int(idx.V)), nil
		}
		// symbolic index: scalar elements are handled with ite chains
		arr := (*base.slot()).(*ArrayV)
		if _, scalar := arr.E[off].(*Term); scalar && n <= 512 {
			p := base.sub(off)
			p.Sym = idx
			p.SymN = n
			return p, nil
		}
		c := e.concretize(idx)
		return base.sub(off + int(c)), nil
	case *ssa.Lookup:
		xv := e.get(fr, x.X)
		if s, ok := xv.(*StrV); ok {
			return e.indexStr(fr, in, s, e.ext64(fr, x.Index))
		}
		m := xv.(*MapV)
		vt := x.X.Type().Underlying().(*types.Map).Elem()
		v, ok := e.mapLookup(m.M, e.get(fr, x.Index), vt)
		if x.CommaOk {
			return &TupleV{E: []Value{v, ok}}, nil
		}
		return v, nil
	case *ssa.MakeChan:
		n := e.concretize(e.get(fr, x.Size).(*Term))
		return e.makeChan(int(n)), nil
	case *ssa.MakeClosure:
		b := make([]Value, len(x.Bindings))
		for i, v := range x.Bindings {
			b[i] = e.get(fr, v)
		}
		return &FuncV{Fn: x.Fn.(*ssa.Function), Bind: b}, nil
	case *ssa.MakeInterface:
		if _, isPtr := x.X.Type().Underlying().(*types.Pointer); !isPtr {
			e.alloc += sizeofType(x.X.Type()) // boxing a non-pointer value allocates
		}
		return &IfaceV{T: x.X.Type(), V: copyVal(e.get(fr, x.X))}, nil
	case *ssa.MakeMap:
		e.objN++
		return &MapV{M: &MapObj{ID: e.objN, Frozen: e.w.initializing}}, nil
	case *ssa.MakeSlice:
		_, lsg, _ := typeWidth(x.Len.Type())
		_, csg, _ := typeWidth(x.Cap.Type())
		lt := tb.Resize(e.get(fr, x.Len).(*Term), 64, lsg)
		ct := tb.Resize(e.get(fr, x.Cap).(*Term), 64, csg)
		ok := tb.And(tb.Sle(tb.Const(64, 0), lt), tb.And(tb.Sle(lt, ct), tb.Sle(ct, tb.Const(64, 1<<24))))
		if !e.branch(ok) {
			return nil, e.goPanic(fr, in, "makeslice: len out of range")
		}
		n := int(e.concretize(lt))
		c := int(e.concretize(ct))
		et := x.Type().Underlying().(*types.Slice).Elem()
		return e.newSlice(et, n, c), nil
	case *ssa.Next:
		return e.next(e.get(fr, x.Iter).(*IterV), x)
	case *ssa.Range:
		xv := e.get(fr, x.X)
		switch a := xv.(type) {
		case *StrV:
			return &IterV{Str: a}, nil
		case *MapV:
			it := &IterV{Map: a.M}
			if a.M != nil {
				it.Rest = append([]*MapEntry(nil), a.M.Entries...)
			}
			return it, nil
		}
	case *ssa.Select:
		return e.selectStmt(fr, x)
	case *ssa.Slice:
		return e.sliceOp(fr, x)
	case *ssa.SliceToArrayPointer:
		s := e.get(fr, x.X).(*SliceV)
		n := int(x.Type().Underlying().(*types.Pointer).Elem().Underlying().(*types.Array).Len())
		if s.Len < n {
			return nil, e.goPanic(fr, in, "cannot convert slice to array pointer: too short")
		}
		if s.Base == nil {
			return &Ptr{}, nil
		}
		if s.Off == 0 && len(sliceArr(s).E) == n {
			return s.Base, nil
		}
		panic(unsupported("slice to array pointer at non-zero offset"))
	case *ssa.TypeAssert:
		return e.typeAssert(fr, x)
	}
	panic(unsupported(fmt.Sprintf("instruction %T (%s) in %s", in, in, fr.fn)))
}

// concPtr resolves a symbolic index in p by forking.
func (e *Exec) concPtr(p *Ptr) *Ptr {
	if p.Sym == nil {
		return p
	}
	c := int(e.concretize(p.Sym))
	np := append([]int(nil), p.Path...)
	np[len(np)-1] += c
	return &Ptr{Obj: p.Obj, Path: np}
}

func (e *Exec) load(p *Ptr) Value {
	if e.race != nil {
		e.raceAccess(ptrKey(p), false)
	}
	if p.Sym == nil {
		return copyVal(*p.slot())
	}
	idx := e.subst(p.Sym)
	last := len(p.Path) - 1
	parent := &Ptr{Obj: p.Obj, Path: p.Path[:last]}
	arr := (*parent.slot()).(*ArrayV)
	lo := p.Path[last]
	if idx.IsConst() {
		return arr.E[lo+int(idx.V)]
	}
	var r *Term
	for i := p.SymN - 1; i >= 0; i-- {
		el := arr.E[lo+i].(*Term)
		if r == nil {
			r = el
		} else {
			r = e.tb.Ite(e.tb.Eq(idx, e.tb.Const(64, uint64(i))), el, r)
		}
	}
	return r
}

// logGlobalWrite remembers the value(s) a store to package-level data is about to replace.
func (e *Exec) logGlobalWrite(p *Ptr) {
	e.globalWrites++
	if p.Sym == nil {
		slot := p.slot()
		old := copyVal(*slot)
		e.undo = append(e.undo, func() { *slot = old })
		return
	}
	last := len(p.Path) - 1
	parent := &Ptr{Obj: p.Obj, Path: p.Path[:last]}
	arr := (*parent.slot()).(*ArrayV)
	old := append([]Value(nil), arr.E...)
	e.undo = append(e.undo, func() { copy(arr.E, old) })
}

// undoGlobalWrites restores package-level data at the end of a path.
func (e *Exec) undoGlobalWrites() {
	for i := len(e.undo) - 1; i >= 0; i-- {
		e.undo[i]()
	}
	e.undo = nil
}

func (e *Exec) store(p *Ptr, v Value) {
	if p.Obj.Frozen && !e.w.initializing {
		// package-level data is shared by all paths of this worker: the write is logged and
		// undone when the path ends
		e.logGlobalWrite(p)
	}
	if e.race != nil {
		e.raceAccess(ptrKey(p), true)
	}
	if p.Sym == nil {
		*p.slot() = copyVal(v)
		return
	}
	idx := e.subst(p.Sym)
	last := len(p.Path) - 1
	parent := &Ptr{Obj: p.Obj, Path: p.Path[:last]}
	arr := (*parent.slot()).(*ArrayV)
	lo := p.Path[last]
	if idx.IsConst() {
		arr.E[lo+int(idx.V)] = v
		return
	}
	nv := v.(*Term)
	for i := 0; i < p.SymN; i++ {
		old := arr.E[lo+i].(*Term)
		arr.E[lo+i] = e.tb.Ite(e.tb.Eq(idx, e.tb.Const(64, uint64(i))), nv, old)
	}
}

// ext64 widens an index / bound operand to 64 bits according to the signedness of its type (a
// byte used as an index is zero-extended).
func (e *Exec) ext64(fr *Frame, v ssa.Value) *Term {
	_, sg, ok := typeWidth(v.Type())
	if !ok {
		sg = true
	}
	return e.tb.Resize(e.get(fr, v).(*Term), 64, sg)
}

func (e *Exec) indexElems(fr *Frame, in ssa.Instruction, el []Value, idx *Term) (Value, *GoPanic) {
	idx = e.tb.Resize(idx, 64, true)
	n := len(el)
	if !e.branch(e.tb.Ult(idx, e.tb.Const(64, uint64(n)))) {
		return nil, e.goPanic(fr, in, fmt.Sprintf("index out of range [%s] with length %d", idx, n))
	}
	idx = e.subst(idx)
	if idx.IsConst() {
		return el[idx.V], nil
	}
	if _, scalar := el[0].(*Term); !scalar || n > 512 {
		return el[e.concretize(idx)], nil
	}
	var r *Term
	for i := n - 1; i >= 0; i-- {
		t := el[i].(*Term)
		if r == nil {
			r = t
		} else {
			r = e.tb.Ite(e.tb.Eq(idx, e.tb.Const(64, uint64(i))), t, r)
		}
	}
	return r, nil
}

func (e *Exec) indexStr(fr *Frame, in ssa.Instruction, s *StrV, idx *Term) (Value, *GoPanic) {
	if s.Opaque {
		panic(unsupported("indexing a formatted (opaque) string"))
	}
	el := make([]Value, len(s.B))
	for i, b := range s.B {
		el[i] = b
	}
	if len(el) == 0 {
		return nil, e.goPanic(fr, in, "index out of range with length 0 (string)")
	}
	return e.indexElems(fr, in, el, idx)
}

func (e *Exec) newSlice(et types.Type, n, c int) *SliceV {
	el := make([]Value, c)
	z := e.zero(et)
	_, scalar := z.(*Term)
	for i := range el {
		if scalar {
			el[i] = z
		} else {
			el[i] = e.zero(et)
		}
	}
	o := e.newObj(&ArrayV{E: el}, "makeslice")
	e.alloc += int64(c) * sizeofType(et)
	return &SliceV{Base: &Ptr{Obj: o}, Off: 0, Len: n, Cap: c}
}

func (e *Exec) sliceOp(fr *Frame, x *ssa.Slice) (Value, *GoPanic) {
	tb := e.tb
	xv := e.get(fr, x.X)
	var length, capacity int
	var str *StrV
	var sl *SliceV
	switch a := xv.(type) {
	case *StrV:
		if a.Opaque {
			// content and length of formatted strings are not modelled: the result is again opaque
			// and the bounds are not checked (stated in the evidence as outside the claim)
			return e.opaqueStr(), nil
		}
		str = a
		length, capacity = len(a.B), len(a.B)
	case *SliceV:
		sl = a
		length, capacity = a.Len, a.Cap
	case *Ptr:
		if a.IsNil() {
			return nil, e.goPanic(fr, x, "nil pointer dereference (slice of nil array pointer)")
		}
		a = e.concPtr(a)
		n := len((*a.slot()).(*ArrayV).E)
		sl = &SliceV{Base: a, Off: 0, Len: n, Cap: n}
		length, capacity = n, n
	}
	lo := tb.Const(64, 0)
	if x.Low != nil {
		lo = e.ext64(fr, x.Low)
	}
	hi := tb.Const(64, uint64(length))
	if x.High != nil {
		hi = e.ext64(fr, x.High)
	}
	mx := tb.Const(64, uint64(capacity))
	if x.Max != nil {
		mx = e.ext64(fr, x.Max)
	}
	ok := tb.AndN(tb.Sle(tb.Const(64, 0), lo), tb.Sle(lo, hi), tb.Sle(hi, mx), tb.Sle(mx, tb.Const(64, uint64(capacity))))
	if !e.branch(ok) {
		return nil, e.goPanic(fr, x, fmt.Sprintf("slice bounds out of range [%s:%s] with capacity %d", lo, hi, capacity))
	}
	l := int(e.concretize(lo))
	h := int(e.concretize(hi))
	m := int(e.concretize(mx))
	if str != nil {
		return &StrV{B: str.B[l:h]}, nil
	}
	if sl.Base == nil {
		return &SliceV{}, nil
	}
	return &SliceV{Base: sl.Base, Off: sl.Off + l, Len: h - l, Cap: m - l}, nil
}

func (e *Exec) typeAssert(fr *Frame, x *ssa.TypeAssert) (Value, *GoPanic) {
	iv := e.get(fr, x.X).(*IfaceV)
	at := x.AssertedType
	ok := false
	var res Value
	if iv.T != nil {
		if it, isIface := at.Underlying().(*types.Interface); isIface {
			ok = types.Implements(iv.T, it)
			if !ok {
				// pointer receiver method sets are part of iv.T already
			}
			res = iv
		} else {
			ok = types.Identical(iv.T, at)
			res = iv.V
		}
	}
	if x.CommaOk {
		if !ok {
			res = e.zero(at)
		}
		return &TupleV{E: []Value{res, e.tb.Bool(ok)}}, nil
	}
	if !ok {
		dyn := "nil"
		if iv.T != nil {
			dyn = iv.T.String()
		}
		return nil, e.goPanic(fr, x, "interface conversion: interface is "+dyn+", not "+at.String())
	}
	return res, nil
}

func sizeofType(t types.Type) int64 {
	switch u := t.Underlying().(type) {
	case *types.Basic:
		if w, _, ok := typeWidth(u); ok {
			if w == 0 {
				return 1
			}
			return int64(w / 8)
		}
		if isString(u) {
			return 16
		}
		return 8
	case *types.Struct:
		var s int64
		for i := 0; i < u.NumFields(); i++ {
			s += sizeofType(u.Field(i).Type())
		}
		return s
	case *types.Array:
		return u.Len() * sizeofType(u.Elem())
	case *types.Slice:
		return 24
	case *types.Interface:
		return 16
	}
	return 8
}
