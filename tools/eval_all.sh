#!/bin/sh
# evaluates every seed directory under /tmp/seeds that has no /verif/seeded/<name>/meta.json yet (3 at a time)
export GOFLAGS=-mod=mod GOPROXY=off GOSUMDB=off GOTOOLCHAIN=local
cd /verif
for d in /tmp/seeds/*/; do
  n=$(basename $d)
  [ -f $d/patch.diff ] && [ -f $d/meta.json ] || continue
  [ -f /verif/seeded/$n/meta.json ] && continue
  echo $n
done | xargs -r -P 3 -I{} sh -c 'python3 tools/eval_seed.py /tmp/seeds/{} > /tmp/q/ev_{}.log 2>&1; tail -n 1 /tmp/q/ev_{}.log >/dev/null'
for f in /tmp/q/ev_*.log; do grep -h "confirmed=" $f; done
