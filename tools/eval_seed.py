#!/usr/bin/env python3
"""Confirms a seeded change (suite passes with it, demonstration fails with it and passes without)
in a scratch worktree of /repo, then runs the property's check(s) against that worktree with the
change applied (VERIF_REPO=<worktree>, VERIF_OUT=<scratch>: same engine, same harnesses, same plan
as the registered checks; /repo itself and /verif/evidence are not touched, so several seeds can be
evaluated at once) and removes the worktree.
usage: eval_seed.py <seed dir> [extra check ids...]   (writes /verif/seeded/<name>/)
       EVAL_TIERS=quick,thorough (default) ; EVAL_SKIP_CONFIRM=1 re-runs detection only"""
import json, os, re, shutil, subprocess, sys, time
seed = os.path.abspath(sys.argv[1].rstrip('/'))
name = os.path.basename(seed)
meta = json.load(open(os.path.join(seed, 'meta.json')))
prop = meta['property']
checks = [prop] + sys.argv[2:]
ENV = dict(os.environ, GOFLAGS='-mod=mod', GOTOOLCHAIN='local', GOPROXY='off', GOSUMDB='off')
WT = '/tmp/wt_eval_' + name
OUT = '/tmp/evalout_' + name
TIERS = os.environ.get('EVAL_TIERS', 'quick,thorough').split(',')
SKIP = os.environ.get('EVAL_SKIP_CONFIRM') == '1'
def sh(cmd, cwd=None, timeout=1800, env=ENV):
    p = subprocess.run(cmd, shell=True, cwd=cwd, env=env, stdout=subprocess.PIPE, stderr=subprocess.STDOUT, text=True, errors='replace', timeout=timeout)
    return p.returncode, p.stdout
if os.path.exists(WT):
    sh('git -C /repo worktree remove --force ' + WT)
rc, out = sh('git -C /repo worktree add -q %s HEAD' % WT)
assert rc == 0, out
ran = []
res = {}
try:
    patch = os.path.join(seed, 'patch.diff')
    rc, out = sh('git apply --check %s' % patch, cwd=WT); assert rc == 0, 'patch does not apply: ' + out
    # demonstration
    demo = None
    for f in os.listdir(seed):
        if f.endswith('_test.go'):
            demo = os.path.join(seed, f)
    use_synctest = 'synctest' in open(demo).read() if demo else False
    gobin = 'go1.26.8' if use_synctest else 'go'
    first = open(demo).readline()
    m = re.search(r'copy to:\s*(\S+)', first)
    pkgdir = m.group(1).strip('/') if m else None
    assert pkgdir, 'no "copy to:" line in demo'
    dst = os.path.join(WT, pkgdir, 'zz_seed_demo_test.go')
    def run_demo():
        shutil.copy(demo, dst)
        rc, out = sh('%s test -vet=off -count=1 ./%s/' % (gobin, pkgdir), cwd=WT, timeout=900)
        os.remove(dst)
        return rc, out
    if SKIP:
        sh('git apply %s' % patch, cwd=WT)
        res['confirmed'] = bool(meta.get('confirmed'))
        ran = [r for r in meta.get('what_was_run', []) if r.startswith('demo') or r.startswith('full suite')]
        raise StopIteration
    rc0, out0 = run_demo(); ran.append('demo on unmodified tree: %s' % ('pass' if rc0 == 0 else 'FAIL'))
    sh('git apply %s' % patch, cwd=WT)
    rcs, outs = sh('go test -vet=off -count=1 ./...', cwd=WT, timeout=1500)
    if rcs != 0 and 'connection refused' in outs:
        rcs, outs = sh('go test -vet=off -count=1 ./...', cwd=WT, timeout=1500)
    ran.append('full suite with the change: %s' % ('pass' if rcs == 0 else 'FAIL'))
    rc1, out1 = run_demo(); ran.append('demo with the change: %s' % ('fails' if rc1 != 0 else 'PASSES'))
    res['confirmed'] = (rc0 == 0 and rcs == 0 and rc1 != 0)
    if not res['confirmed']:
        print('NOT CONFIRMED', ran); print(outs[-1500:] if rcs else ''); print(out0[-800:] if rc0 else '')
except StopIteration:
    pass
except BaseException:
    sh('git -C /repo worktree remove --force ' + WT)
    raise
detected = []
if res.get('confirmed'):
    try:
        for cid in checks:
            for tier in TIERS:
                t = time.time()
                rc, out = sh('timeout 3000 ./check %s %s' % (cid, tier), cwd='/verif', timeout=3100, env=dict(os.environ, VERIF_REPO=WT, VERIF_OUT=OUT))
                lines = [l for l in out.splitlines() if l.startswith('VIOLATION') or l.startswith('  harness=') or l.startswith('INCONCLUSIVE')]
                ran.append('./check %s %s -> exit %d (%.0fs)' % (cid, tier, rc, time.time() - t))
                if rc == 1:
                    labels = sorted(set(re.findall(r'harness=(\S+) params=\[[^\]]*\] label="([^"]*)"', out)))
                    detected.append('%s %s: %s' % (cid, tier, '; '.join('%s/%s' % l for l in labels[:4])))
                    break
                if rc == 2:
                    for l in lines[:4]:
                        ran.append('   inconclusive: ' + l[:300])
            if detected:
                break
    finally:
        pass
sh('git -C /repo worktree remove --force ' + WT)
shutil.rmtree(OUT, ignore_errors=True)
out_dir = os.path.join('/verif/seeded', name)
os.makedirs(out_dir, exist_ok=True)
for f in os.listdir(seed):
    if f != 'meta.json' and os.path.isfile(os.path.join(seed, f)):
        if os.path.abspath(seed) != os.path.abspath(out_dir):
            shutil.copy(os.path.join(seed, f), out_dir)
old = os.path.join(out_dir, 'meta.json')
if os.path.exists(old):
    o = json.load(open(old))
    hist = o.get('history', [])
    prev = o.get('detected_by')
    if prev and (not hist or hist[-1] != prev):
        hist.append(prev)
    meta['history'] = hist
    for k in ('strengthened',):
        if k in o and k not in meta:
            meta[k] = o[k]
meta['confirmed'] = bool(res.get('confirmed'))
meta['what_was_run'] = ran
meta['detected_by'] = '; '.join(detected) if detected else 'NOT DETECTED'
json.dump(meta, open(os.path.join(out_dir, 'meta.json'), 'w'), indent=1)
print(name, 'confirmed=%s' % meta['confirmed'], 'detected_by=%s' % meta['detected_by'])
for r in ran: print('   ', r)
