#!/bin/sh
# tools/mut.sh <seed name> <gosym run args...>: runs one harness against a scratch worktree with the seeded change applied
s=$1; shift
d=/verif/seeded/$s; [ -d $d ] || d=/tmp/seeds/$s
wt=/tmp/wt_mut_$s
git -C /repo worktree remove --force $wt 2>/dev/null
git -C /repo worktree add -q $wt HEAD && git -C $wt apply $d/patch.diff || exit 3
export GOFLAGS=-mod=mod GOPROXY=off GOSUMDB=off GOTOOLCHAIN=local
/verif/bin/gosym run -repo $wt "$@" 2>&1 | grep -v "^warning" | grep -v "^   " | tail -n 6
git -C /repo worktree remove --force $wt
