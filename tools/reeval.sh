#!/bin/sh
# tools/reeval.sh <seed names...>: re-runs the detection step (quick tier) for seeds already confirmed
export GOFLAGS=-mod=mod GOPROXY=off GOSUMDB=off GOTOOLCHAIN=local
cd /verif
for n in "$@"; do echo $n; done | EVAL_SKIP_CONFIRM=1 EVAL_TIERS=${EVAL_TIERS:-quick} xargs -r -P ${EVAL_PAR:-3} -I{} sh -c 'python3 tools/eval_seed.py seeded/{} > /tmp/q/re_{}.log 2>&1'
for n in "$@"; do grep -h "confirmed=" /tmp/q/re_$n.log || echo "$n: no result"; done
