#!/bin/sh
# tools/regress.sh [glob]: re-runs the detection step (quick tier) for every recorded seed (default: all), each with
# the check that detected it (its own property's, plus the sibling's where a sibling reported it); prints what changed
export GOFLAGS=-mod=mod GOPROXY=off GOSUMDB=off GOTOOLCHAIN=local EVAL_SKIP_CONFIRM=1 EVAL_TIERS=quick
cd /verif
mkdir -p /tmp/q
python3 - "$@" <<'PY' > /tmp/q/regress_list.txt
import json,glob,sys,os
pat = sys.argv[1] if len(sys.argv) > 1 else '*'
for f in sorted(glob.glob('/verif/seeded/%s/meta.json' % pat)):
    d = json.load(open(f)); n = os.path.basename(os.path.dirname(f))
    by = (d.get('detected_by') or '').split(' ')[0]
    extra = by if by and by not in ('NOT', d.get('property')) else ''
    print(n, extra, '|', (d.get('detected_by') or '')[:60])
PY
cut -d'|' -f1 /tmp/q/regress_list.txt | sed 's/ *$//' | xargs -P ${EVAL_PAR:-3} -L 1 sh -c 'python3 tools/eval_seed.py seeded/$0 "$@" > /tmp/q/rg_$0.log 2>&1'
while read n rest; do
  now=$(head -n 1 /tmp/q/rg_$n.log | sed 's/.*detected_by=//' | cut -c1-60)
  was=$(echo "$rest" | cut -d'|' -f2 | sed 's/^ //')
  case "$now" in NOT*) echo "REGRESSION $n: was [$was] now [$now]";; esac
done < /tmp/q/regress_list.txt
echo regress done
