#!/usr/bin/env python3
"""Regenerates DESIGN.md §5 (per-property checks) from harness/plan.json, properties.jsonl and
the committed evidence files, and §9 from seeded/*/meta.json."""
import json, os, glob, re, itertools
V = os.path.dirname(os.path.dirname(os.path.abspath(__file__)))
plan = json.load(open(os.path.join(V, 'harness/plan.json')))
props = {json.loads(l)['id']: json.loads(l) for l in open(os.path.join(V, 'properties.jsonl'))}

def count(specs):
    n = 0
    for sp in specs:
        if 'sweep' in sp:
            k = 1
            for r in sp['sweep']:
                k *= (r[1] - r[0] + 1) if len(r) == 2 else len(r)
            n += k
        elif 'sets' in sp:
            n += len(sp['sets'])
        else:
            n += 1
    return n

out = []
for pid in sorted(props):
    p = props[pid]
    pp = plan.get(pid)
    out.append('### %s — %s\n' % (pid, p['title']))
    if not pp:
        out.append('not planned\n')
        continue
    funcs = []
    for sp in pp['quick'] + pp.get('thorough', []):
        f = '%s.%s' % (sp['pkg'], sp['func'])
        if f not in funcs:
            funcs.append(f)
    out.append('*What is executed and compared*: %s.\n' % pp['explanation'])
    out.append('*Harnesses*: ' + ', '.join('`%s`' % f for f in funcs) +
               ('; plus one generated harness per `dhcpv4.Opt*` constructor.' if pid == 'C20' else '.') + '\n')
    out.append('*Bounds*:\n' + ''.join('- %s\n' % b for b in pp.get('bounds', [])))
    out.append('*Outside the claim*:\n' + ''.join('- %s\n' % b for b in pp.get('outside_bounds', [])))
    if pp.get('assumptions'):
        out.append('*Assumptions*: ' + '; '.join(pp['assumptions']) + '.\n')
    if pp.get('stubs'):
        out.append('*Stubs on the explored paths*: ' + '; '.join(pp['stubs']) + '.\n')
    line = '*Size*: quick %d harness runs, thorough %d' % (count(pp['quick']), count(pp.get('thorough', [])))
    ev = os.path.join(V, 'evidence', pid + '.json')
    if os.path.exists(ev):
        e = json.load(open(ev))
        c = e['coverage']
        line += '; last committed %s run: %d paths, %d solver-decided + %d syntactic obligations, %d solver queries, %d paths replayed natively, %.0f s' % (
            e['tier'], c['states'], c.get('obligations_solver', 0), c.get('obligations_syntactic', 0), c.get('queries_discharged', 0), c['traces_validated_against_impl'], e['wall_s'])
    native = pp.get('native', '')
    line += '. Native replay: ' + ('go test -overlay under testing/synctest (go1.26.8)' if native == 'synctest' else 'go test -overlay') + '.\n'
    out.append(line)
    out.append('')
sec5 = '\n'.join(out)

def short(t, n=230):
    t = t.replace('|', '/').replace('\n', ' ')
    return t if len(t) <= n else t[:n].rsplit(' ', 1)[0] + ' …'

rows = []
for m in sorted(glob.glob(os.path.join(V, 'seeded/*/meta.json'))):
    d = json.load(open(m))
    rows.append('| %s | %s | %s | %s | %s |' % (os.path.basename(os.path.dirname(m)), d.get('property', ''), short(d.get('summary', '')),
                                           short(d.get('needs', '')), d.get('detected_by', d.get('detection', '')) + (' (first evaluation: NOT DETECTED; ' + d.get('strengthened', 'checks strengthened afterwards') + ')' if 'NOT DETECTED' in d.get('history', []) and d.get('detected_by') != 'NOT DETECTED' else '')))
metas = [json.load(open(m)) for m in sorted(glob.glob(os.path.join(V, 'seeded/*/meta.json')))]
n_all = len(metas)
n_first = sum(1 for d in metas if d.get('detected_by') != 'NOT DETECTED' and 'NOT DETECTED' not in d.get('history', []))
n_later = sum(1 for d in metas if d.get('detected_by') != 'NOT DETECTED' and 'NOT DETECTED' in d.get('history', []))
n_open = sum(1 for d in metas if d.get('detected_by') == 'NOT DETECTED')
n_other = sum(1 for d in metas if d.get('detected_by', '').split(' ')[0] not in ('NOT', d.get('property', '')))
n_waves = (max(int(os.path.basename(os.path.dirname(m)).split('_')[1]) for m in glob.glob(os.path.join(V, 'seeded/*/meta.json'))) + 1) // 2
open_txt = ''.join(' **%s** is not detected: %s.' % (os.path.basename(os.path.dirname(m)), json.load(open(m)).get('strengthened', 'no check reports it')) for m in sorted(glob.glob(os.path.join(V, 'seeded/*/meta.json'))) if json.load(open(m)).get('detected_by') == 'NOT DETECTED')
stats = ('**%d seeded changes** in ' + str(n_waves) + ' waves (two per property and wave; the third wave asked only for changes that need an interleaving, '
         'a fault at a particular point, a multi-step sequence on the same object, or two cooperating sites; the later waves asked for one change exposed by an unusual input alone and one that needs a sequence, a fault, an interleaving or two cooperating sites, and listed the earlier attempts so that mechanisms differ). '
         '%d were detected by the checks as they stood when the change arrived; %d were missed at first and are detected since the checks were strengthened '
         '(what was added is quoted in the last column); %d are not detected. %d are reported by the check of a sibling property that owns the violated clause '
         '(for example an ownership defect seeded under the fixpoint property is reported by C08): the column says which.' + open_txt + ' After the sixth wave the seeds of properties C01-C06 (109 of the 240) were evaluated once more against the final checks (tools/regress.sh): all are still reported; six ownership defects seeded under C02, C04 and C05 are reported by C08 since label scoping (their rows say so). The remaining rows show the result of their last evaluation, made when their wave was processed.\n\n') % (n_all, n_first, n_later, n_open, n_other)
sec9 = ''
if rows:
    sec9 = (stats + 'Changes written by independent sub-agents that saw only the property text and a scratch worktree;\n'
            'each compiles, passes the 594-test suite and comes with a demonstration that fails with it and passes without.\n'
            'Each was confirmed in a scratch worktree of /repo; the registered checks (same engine, harnesses and plan) were then run against that worktree with the change applied (VERIF_REPO), quick tier first, thorough if quick passed.\n\n'
            '(Summaries are cut here; the full text, the patch and the demonstration are in seeded/<seed>/.)\n\n'
            '| seed | property | change | needs | detected by |\n|---|---|---|---|---|\n' + '\n'.join(rows) + '\n')
else:
    sec9 = '(no seeded change recorded yet)\n'

path = os.path.join(V, 'DESIGN.md')
s = open(path).read()
s = re.sub(r'(<!-- BEGIN GENERATED[^\n]*-->\n).*?(<!-- END GENERATED -->)', lambda m: m.group(1) + sec5 + '\n' + m.group(2), s, flags=re.S)
s = re.sub(r'(<!-- BEGIN SEEDED -->\n).*?(<!-- END SEEDED -->)', lambda m: m.group(1) + sec9 + m.group(2), s, flags=re.S)
open(path, 'w').write(s)
print('DESIGN.md regenerated: %d properties, %d seeded rows' % (len(props), len(rows)))
